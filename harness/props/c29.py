"""C29 — associate resolution and merging preserve program behaviour.

Request:  (c29 MODE SD PROG (INPUTS...))      MODE = resolve | merge | both      SD = start_depth (resolve / both)
  PROG    FIR program in wire form (lean/LokiModel/Fir/Codec.lean), INPUTS = input sets ((x val...)...) for its main unit
Response: (ok (FLAGS...) PROG') | (error KIND)
  PROG' = the transformed program (all units), FLAGS = sorted names of the known-finding classes the input falls in
  (decided on the ORIGINAL program: python `classify` here, Lean `C29.flags` in the driver; the two are compared as part
  of the correspondence).

real side : emit_fortran(PROG) -> FP frontend -> do_merge_associates / do_resolve_associates on every routine -> export_unit
model side: lean/Drivers/C29.lean (decode, C29.transform, encode)
oracle    : original vs really-transformed program on the given input sets, Python FIR interpreter (every run) and
            gfortran (thorough tier; a sample in quick), independent of the model.
"""
import os
import random
import zlib

from ..core import Prop, Case, Failure
from ..sexpr import A, dumps, loads
from .. import fir
from ..fir import _h, _is_none

MODES = ('resolve', 'merge', 'both')

# ---------------------------------------------------------------------------------------------------------------
# small helpers on wire-form expressions

def ex_vars(e, acc=None):
    """all names occurring in an expression (variables, array roots)"""
    acc = set() if acc is None else acc
    h = _h(e)
    if h == 'v':
        acc.add(str(e[1]))
    elif h == 'idx':
        acc.add(str(e[1]))
        for c in e[2:]:
            ex_vars(c, acc)
    elif h == 'call':
        for c in e[2:]:
            ex_vars(c, acc)
    elif h == 'sec':
        acc.add(str(e[1]))
        for d in e[2:]:
            for c in d[1:]:
                if not _is_none(c):
                    ex_vars(c, acc)
    elif h in ('neg', 'not'):
        ex_vars(e[1], acc)
    elif h == 'bin':
        ex_vars(e[2], acc)
        ex_vars(e[3], acc)
    return acc


def sub_vars(e):
    """names occurring in the subscripts of a location selector (root excluded); all names for a value selector"""
    h = _h(e)
    if h == 'v':
        return set()
    if h == 'idx':
        acc = set()
        for c in e[2:]:
            ex_vars(c, acc)
        return acc
    if h == 'sec':
        acc = set()
        for d in e[2:]:
            for c in d[1:]:
                if not _is_none(c):
                    ex_vars(c, acc)
        return acc
    return ex_vars(e)


def is_loc(e):
    return _h(e) in ('v', 'idx', 'sec')


def is_lit(e, n):
    return _h(e) == 'i' and int(str(e[1])) == n


# ---------------------------------------------------------------------------------------------------------------
# Python mirror of the Lean model (LokiModel/C29/Model.lean): used for CLASSIFICATION only; the correspondence compares
# the real code with the Lean driver, and the flags computed here with the flags computed by the Lean definitions.

class Mirror:
    """resolution of associate names with a stack of frames (innermost first); a frame = (removed?, {name: selector})"""

    def __init__(self, decls):
        self.lb_one = {}     # array name -> [declared lower bound is literal 1, per dimension]
        for d in decls:
            name, _ty, _it, dims, _pm = fir.decl_fields(d)
            self.lb_one[name] = [is_lit(lo, 1) for lo, _hi in dims]
        self.shift = False

    # -- expressions
    def res(self, frames, e):
        h = _h(e)
        if h in ('i', 'r', 'b'):
            return e
        if h == 'v':
            k, sel = self.lookup(frames, str(e[1]))
            if sel is None:
                return e
            return self.res(frames[k + 1:], sel)
        if h in ('idx', 'sec'):
            if h == 'idx':
                dims = [[A('at'), self.res(frames, c)] for c in e[2:]]
            else:
                dims = [self.res_dim(frames, d) for d in e[2:]]
            k, sel = self.lookup(frames, str(e[1]))
            if sel is None:
                return self.mk(e[1], dims)
            new = self.res(frames[k + 1:], sel)
            hn = _h(new)
            if hn == 'v':
                return self.mk(new[1], dims)
            if hn in ('idx', 'sec'):
                ndims = [[A('at'), c] for c in new[2:]] if hn == 'idx' else list(new[2:])
                free = [j for j, d in enumerate(ndims) if _h(d) == 'rng']
                if len(free) == len(dims):
                    out = list(ndims)
                    for j, d in zip(free, dims):
                        if not self.unit_based(frames[k + 1:], str(new[1]), j, ndims[j]):
                            self.shift = True
                        out[j] = d
                    return self.mk(new[1], out)
                return self.mk(new[1], ndims)
            return e        # subscripted value selector: not valid Fortran, left alone
        if h == 'call':
            return e[:2] + [self.res(frames, c) for c in e[2:]]
        if h in ('neg', 'not'):
            return [e[0], self.res(frames, e[1])]
        if h == 'bin':
            return [e[0], e[1], self.res(frames, e[2]), self.res(frames, e[3])]
        raise ValueError('bad expression ' + dumps(e))

    def res_dim(self, frames, d):
        if _h(d) == 'at':
            return [d[0], self.res(frames, d[1])]
        return [d[0]] + [x if _is_none(x) else self.res(frames, x) for x in d[1:4]]

    @staticmethod
    def mk(name, dims):
        if all(_h(d) == 'at' for d in dims):
            return [A('idx'), name] + [d[1] for d in dims]
        return [A('sec'), name] + dims

    @staticmethod
    def lookup(frames, x):
        """innermost frame binding x: (index, selector) if that frame is removed, (index, None) if it is kept or x unbound"""
        for k, (removed, binds) in enumerate(frames):
            if x in binds:
                return k, (binds[x] if removed else None)
        return len(frames), None

    def unit_based(self, frames, root, j, rng):
        """replacing triplet `rng` (dimension j of `root`) by a 1-based index keeps the meaning"""
        lo, _hi, st = rng[1], rng[2], rng[3]
        if not (_is_none(st) or is_lit(st, 1)):
            return False
        if not _is_none(lo):
            return is_lit(lo, 1)
        # absent lower bound: declared lower bound of the underlying array / 1 for an associated section
        for removed, binds in frames:
            if root in binds:
                sel = binds[root]
                if _h(sel) == 'v':
                    return self.unit_based(frames[frames.index((removed, binds)) + 1:], str(sel[1]), j, rng)
                return _h(sel) == 'sec' and False     # sections of sections are outside FIR
        l = self.lb_one.get(root)
        return bool(l) and j < len(l) and l[j]


def callee_intents(prog):
    out = {}
    for name, args, decls, _body in fir.prog_units(prog):
        its = {fir.decl_fields(d)[0]: fir.decl_fields(d)[2] for d in decls}
        out[name] = [its.get(a, 'none') for a in args]
    return out


def written_roots(stmts, intents, acc=None):
    """names whose storage a statement list may modify (assignment targets, DO variables, non-intent(in) actual arguments)"""
    acc = set() if acc is None else acc
    for s in fir.iter_stmts(stmts):
        h = _h(s)
        if h == 'assign':
            acc.add(str(s[1][1]))
        elif h == 'do':
            acc.add(str(s[1]))
        elif h == 'callsub':
            its = intents.get(str(s[1]), None)
            for k, a in enumerate(s[2:]):
                if _h(a) in ('v', 'idx', 'sec') and (its is None or k >= len(its) or its[k] != 'in'):
                    acc.add(str(a[1]))
    return acc


CRASHES = ('merge_crash', 'value_of_value_crash')


def classify_unit(unit, mode, sd, intents):
    """set of known-finding class names the unit falls in for (mode, sd); mirrors `C29.flagsUnit` of the Lean model.
    A crash class is returned alone (the transformation stops there)."""
    flags = set()
    decls, body = unit[3], unit[4]
    if mode in ('merge', 'both'):
        body, mflags = merge_stmts(body, intents)
        flags |= mflags
        if 'merge_crash' in flags:
            return {'merge_crash'}
    if mode in ('resolve', 'both'):
        rf = classify_resolve(decls, body, sd, intents)
        if 'value_of_value_crash' in rf:
            return {'value_of_value_crash'}
        flags |= rf
    return flags


def stmt_exprs(s):
    """the expressions of one statement that ResolveAssociatesTransformer visits"""
    h = _h(s)
    if h == 'assign':
        return [s[1], s[2]]
    if h == 'do':
        return [s[2], s[3]] + ([] if _is_none(s[4]) else [s[4]])
    if h in ('while', 'if', 'select'):
        return [s[1]]
    if h == 'callsub':
        return list(s[2:])
    return []          # PRINT arguments and ASSOCIATE selectors are not visited by the resolver


def classify_resolve(decls, body, sd, intents):
    flags = set()
    full = Mirror(decls)
    bad = set()

    def value_bound(fr, x):
        for _r, binds in fr:
            if x in binds:
                return not is_loc(binds[x])
        return False

    def walk(stmts, depth, frames, fframes):
        """frames: mode-aware (removed flag), fframes: everything removed (full resolution); returns fully resolved stmts"""
        out = []
        for s in stmts:
            h = _h(s)
            if h == 'assoc':
                removed = depth > sd
                binds = {str(b[0]): b[1] for b in s[1]}
                if removed:
                    for b in s[1]:
                        if not is_loc(b[1]) and any(value_bound(fframes, x) for x in ex_vars(b[1])):
                            bad.add((id(binds), str(b[0])))
                inner = walk(s[2], depth + 1, [(removed, binds)] + frames, [(True, binds)] + fframes)
                if removed:
                    wr = written_roots(inner, intents)
                    for b in s[1]:
                        prot = sub_vars(full.res(fframes, b[1]))
                        if prot & wr:
                            flags.add('index_modified')
                out += inner
                continue
            if h == 'print':
                for a in s[1:]:
                    for x in ex_vars(a):
                        k, sel = Mirror.lookup(frames, x)
                        if sel is not None:
                            flags.add('print_unresolved')
            else:
                m = Mirror(decls)
                _map_top(lambda e: m.res(frames, e), s)
                if m.shift:
                    flags.add('bounds_shift')
                for e in stmt_exprs(s):
                    for x in ex_vars(e):
                        for removed, binds in frames:
                            if x in binds:
                                if removed and (id(binds), x) in bad:
                                    flags.add('value_of_value_crash')
                                break
            fe = lambda e: full.res(fframes, e)
            if h == 'do':
                out.append([s[0], s[1], fe(s[2]), fe(s[3]), s[4] if _is_none(s[4]) else fe(s[4]),
                            walk(s[5], depth, frames, fframes)])
            elif h == 'while':
                out.append([s[0], fe(s[1]), walk(s[2], depth, frames, fframes)])
            elif h == 'if':
                out.append([s[0], fe(s[1]), walk(s[2], depth, frames, fframes), walk(s[3], depth, frames, fframes)])
            elif h == 'select':
                out.append([s[0], fe(s[1]), [[c[0], walk(c[1], depth, frames, fframes)] for c in s[2]],
                            walk(s[3], depth, frames, fframes)])
            else:
                out.append(_map_top(fe, s))
        return out

    walk(body, 1, [], [])
    return flags


def _map_top(f, s):
    """apply f to the top-level expressions of one statement (bodies untouched)"""
    h = _h(s)
    if h == 'assign':
        return [s[0], f(s[1]), f(s[2])]
    if h == 'do':
        return [s[0], s[1], f(s[2]), f(s[3]), s[4] if _is_none(s[4]) else f(s[4]), s[5]]
    if h == 'while':
        return [s[0], f(s[1]), s[2]]
    if h == 'if':
        return [s[0], f(s[1]), s[2], s[3]]
    if h == 'select':
        return [s[0], f(s[1]), s[2], s[3]]
    if h == 'callsub':
        return s[:2] + [f(a) for a in s[2:]]
    if h == 'print':
        return s[:1] + [f(a) for a in s[1:]]
    return s


def merge_stmts(body, intents):
    """python mirror of `C29.mergeStmts`: (merged body, flags)"""
    flags = set()

    def visit(stmts, parent_names):
        """returns (new stmts, bindings moved up to the enclosing associate)"""
        out, up = [], []
        for s in stmts:
            h = _h(s)
            if h == 'assoc':
                names = [str(b[0]) for b in s[1]]
                nbody, got = visit(s[2], names)
                binds = list(s[1])
                for b in got:
                    if not any(dumps(b) == dumps(c) for c in binds):
                        binds.append(b)
                if parent_names is None:
                    check_dest(binds, len(s[1]), nbody)
                    out.append([s[0], binds, nbody])
                    continue
                for b in binds:
                    if not is_loc(b[1]):
                        flags.add('merge_crash')
                move = [b for b in binds if is_loc(b[1]) and str(b[1][1]) not in parent_names]
                keep = [b for b in binds if not any(dumps(b) == dumps(c) for c in move)]
                for b in move:
                    if sub_vars(b[1]) & set(parent_names):
                        flags.add('merge_moved_dependent')
                if not keep:
                    flags.add('merge_empty_associate')
                up += move
                out.append([s[0], keep, nbody])
            elif h == 'do':
                b, u = visit(s[5], parent_names); up += u
                out.append(s[:5] + [b])
            elif h == 'while':
                b, u = visit(s[2], parent_names); up += u
                out.append(s[:2] + [b])
            elif h == 'if':
                b1, u1 = visit(s[2], parent_names); up += u1
                b2, u2 = visit(s[3], parent_names); up += u2
                out.append(s[:2] + [b1, b2])
            elif h == 'select':
                cs = []
                for c in s[2]:
                    b, u = visit(c[1], parent_names); up += u
                    cs.append([c[0], b])
                b, u = visit(s[3], parent_names); up += u
                out.append(s[:2] + [cs, b])
            else:
                out.append(s)
        return out, up

    def check_dest(binds, n_own, nbody):
        """outermost block after merging: moved bindings (index >= n_own) are now bound at ITS entry"""
        names = [str(b[0]) for b in binds]
        if len(set(names)) != len(names):
            flags.add('merge_name_clash')
        moved = binds[n_own:]
        if not moved:
            return
        # what the destination body may modify, seen through every association (full resolution of the merged block)
        m = Mirror([])
        allb = {}
        for b in binds:
            allb.setdefault(str(b[0]), b[1])
        fr = [(True, allb)]
        res_body = _full(nbody, fr, m)
        wr = written_roots(res_body, intents)
        for b in moved:
            if sub_vars(m.res([], b[1])) & wr:
                flags.add('merge_moved_not_invariant')

    new, _ = visit(body, None)
    return new, flags


def _full(stmts, frames, m):
    out = []
    for s in stmts:
        h = _h(s)
        if h == 'assoc':
            binds = {str(b[0]): b[1] for b in s[1]}
            out += _full(s[2], [(True, binds)] + frames, m)
            continue
        fe = lambda e: m.res(frames, e)
        t = _map_top(fe, s)
        if h == 'do':
            t = t[:5] + [_full(s[5], frames, m)]
        elif h == 'while':
            t = t[:2] + [_full(s[2], frames, m)]
        elif h == 'if':
            t = t[:2] + [_full(s[2], frames, m), _full(s[3], frames, m)]
        elif h == 'select':
            t = t[:2] + [[[c[0], _full(c[1], frames, m)] for c in s[2]], _full(s[3], frames, m)]
        out.append(t)
    return out


def classify(prog, mode, sd):
    intents = callee_intents(prog)
    flags = set()
    for u in prog[2:]:
        f = classify_unit(u, mode, sd, intents)
        if f & set(CRASHES):
            return sorted(f)
        flags |= f
    return sorted(flags)


# ---------------------------------------------------------------------------------------------------------------
# real code

_cache = {}


def transform_real(prog, mode, sd):
    """('ok', prog') | ('error', kind, message) — the real transformation applied to every routine of the program"""
    key = (dumps(prog), mode, sd)
    if key in _cache:
        return _cache[key]
    from loki.transformations.sanitise.associates import do_resolve_associates, do_merge_associates
    import logging
    src = fir.emit_fortran(prog, wrap_program=False)
    try:
        sf = fir.parse_fortran(src)
    except Exception as e:      # frontend defect (C01), not C29
        r = ('error', 'frontend', f'{type(e).__name__}: {e}')
        _cache[key] = r
        return r
    try:
        from loki import logging as llog
        lvl = llog.logger.level
        llog.logger.setLevel(logging.ERROR)
    except Exception:
        llog = None
    try:
        for routine in sf.all_subroutines:
            if mode in ('merge', 'both'):
                do_merge_associates(routine)
            if mode in ('resolve', 'both'):
                do_resolve_associates(routine, start_depth=sd)
        out = fir.export_unit(sf, main=fir.prog_main(prog))
        r = ('ok', out)
    except fir.Unsupported as e:
        r = ('error', 'unsupported', str(e.kind))
    except Exception as e:
        r = ('error', type(e).__name__.lower(), str(e)[:200])
    finally:
        if llog is not None:
            llog.logger.setLevel(lvl)
    if len(_cache) > 4000:
        _cache.clear()
    _cache[key] = r
    return r


_rt = {}


def roundtrip_ok(prog):
    """the untransformed program survives emit -> frontend -> export (else the request is malformed, e.g. after shrinking)"""
    key = dumps(prog)
    if key not in _rt:
        try:
            out = fir.export_unit(fir.parse_fortran(fir.emit_fortran(prog, wrap_program=False)), main=fir.prog_main(prog))
            _rt[key] = dumps(out) == dumps(fir.normalize(prog))
        except Exception:
            _rt[key] = False
        if len(_rt) > 4000:
            _rt.clear()
    return _rt[key]


def _stmt_lists(s):
    """indices of the statement-list children of a statement"""
    h = _h(s)
    return {'do': [5], 'while': [2], 'assoc': [2], 'if': [2, 3]}.get(h, [])


def shrink_stmts(stmts):
    """structure-preserving smaller variants of a statement list"""
    for k in range(len(stmts)):
        yield stmts[:k] + stmts[k + 1:]
    for k, s in enumerate(stmts):
        h = _h(s)
        if h in ('do', 'while', 'if'):
            for j in _stmt_lists(s):
                yield stmts[:k] + list(s[j]) + stmts[k + 1:]
        for j in _stmt_lists(s):
            for v in shrink_stmts(list(s[j])):
                yield stmts[:k] + [s[:j] + [v] + s[j + 1:]] + stmts[k + 1:]
        if h == 'select':
            for ci, c in enumerate(s[2]):
                for v in shrink_stmts(list(c[1])):
                    yield stmts[:k] + [s[:2] + [s[2][:ci] + [[c[0], v]] + s[2][ci + 1:]] + s[3:]] + stmts[k + 1:]
            for v in shrink_stmts(list(s[3])):
                yield stmts[:k] + [s[:3] + [v]] + stmts[k + 1:]
        if h == 'assoc' and len(s[1]) > 1:
            for bi in range(len(s[1])):
                yield stmts[:k] + [[s[0], s[1][:bi] + s[1][bi + 1:], s[2]]] + stmts[k + 1:]


def dec_req(req):
    if _h(req) != 'c29' or len(req) != 5:
        raise ValueError('malformed request')
    mode, sd, prog, inputs = str(req[1]), int(str(req[2])), req[3], req[4]
    if mode not in MODES or sd < 0 or _h(prog) != 'program' or not isinstance(inputs, list):
        raise ValueError('malformed request')
    # strict shape check of the program (the shrinker drops arbitrary list elements)
    for u in prog[2:]:
        if _h(u) != 'unit' or len(u) != 5:
            raise ValueError('malformed unit')
        for d in u[3]:
            fir.decl_fields(d)
        for s in u[4]:
            fir._map_stmt(lambda e: e, s)
    if fir.find_unit(prog, fir.prog_main(prog)) is None:
        raise ValueError('no main unit')
    if undeclared_names(prog):
        raise ValueError('malformed program (undeclared name in the ORIGINAL, e.g. after shrinking)')
    return mode, sd, prog, inputs


def dec_src_req(req):
    if _h(req) != 'c29s' or len(req) != 6 or str(req[1]) != 'resolve' or not isinstance(req[5], str):
        raise ValueError('malformed request')
    sd, k, j2 = int(str(req[2])), int(str(req[3])), int(str(req[4]))
    if not (0 <= sd <= 4 and 1 <= k <= 3 and 1 <= j2 <= 3) or 'subroutine kern' not in req[5]:
        raise ValueError('malformed request')
    return sd, k, j2, req[5]


def has_empty_assoc(prog):
    return any(_h(s) == 'assoc' and not s[1] for u in prog[2:] for s in fir.iter_stmts(u[4]))


def assoc_names(prog):
    return {str(b[0]) for u in prog[2:] for s in fir.iter_stmts(u[4]) if _h(s) == 'assoc' for b in s[1]}


def uses_g1(prog):
    """array assignment (whole / section target) inside an ASSOCIATE block that binds an array alias: gfortran 12 bug G1
    may bite; such programs are kept out of the gfortran comparison"""
    def walk(stmts, inside):
        for s in stmts:
            h = _h(s)
            if h == 'assoc':
                arr = any(_h(b[1]) in ('v', 'sec') for b in s[1])
                if walk(s[2], inside or arr):
                    return True
            elif h == 'assign' and inside and _h(s[1]) in ('v', 'sec'):
                return True
            elif h == 'do' and walk(s[5], inside):
                return True
            elif h == 'while' and walk(s[2], inside):
                return True
            elif h == 'if' and (walk(s[2], inside) or walk(s[3], inside)):
                return True
            elif h == 'select' and (any(walk(c[1], inside) for c in s[2]) or walk(s[3], inside)):
                return True
        return False
    return any(walk(u[4], False) for u in prog[2:])



# ---------------------------------------------------------------------------------------------------------------
# Targeted family 1 (FIR, judged by execution): partial-depth resolution where an array name of a KEPT outer block (or of the
# routine) is subscripted / bounded by names of REMOVED inner blocks, in every expression position the resolver visits.

def gen_partial(r):
    """(mode, sd, prog, inputs): nested ASSOCIATE blocks, array aliases outside, scalar aliases inside, subscripts mixing them"""
    lo0 = r.random() < 0.3
    decl_a = 'a(0:3)' if lo0 else 'a(4)'
    arr_sel = ['a'] if lo0 else ['a', 'a(:)', 'a(1:3)']
    arr2_sel = ['c(:, %d)' % r.randint(1, 3), 'c(%d, :)' % r.randint(1, 3)]
    depth = r.choice((2, 2, 3))
    levels = [[] for _ in range(depth)]
    arrs1, arrs2, scal = ['a'], ['c'], ['k', 'j2']
    scopes = []                     # per level: (arrs1, arrs2, scal) visible in its body
    nm = iter('w v u t s w2 v2 u2'.split())
    sn = iter('kk jj ll mm nn k3 k4 k5'.split())
    en = iter('e1 e2 e3'.split())
    for lvl in range(depth):
        b = levels[lvl]
        p_arrs1, p_scal = list(arrs1), list(scal)      # selectors only see names of enclosing levels
        if lvl == 0 or r.random() < 0.3:
            for _ in range(r.choice((1, 1, 2))):
                q = r.random()
                if q < 0.45:
                    n_ = next(nm); b.append((n_, r.choice(arr_sel))); new1 = n_
                    arrs1 = arrs1 + [n_]
                elif q < 0.8:
                    n_ = next(nm); b.append((n_, r.choice(arr2_sel))); arrs1 = arrs1 + [n_]
                else:
                    n_ = next(nm); b.append((n_, 'c')); arrs2 = arrs2 + [n_]
        if lvl > 0 or r.random() < 0.5:
            for _ in range(r.choice((1, 1, 2))):
                n_ = next(sn)
                b.append((n_, r.choice(p_scal)))
                scal = scal + [n_]
        if lvl > 0 and r.random() < 0.4:
            n_ = next(en, None)
            if n_:
                b.append((n_, '%s(%s)' % (r.choice(p_arrs1), r.choice(p_scal + ['1', '2']))))
        scopes.append((list(arrs1), list(arrs2), list(scal), [x for l in levels[:lvl + 1] for x, sl in l if x.startswith('e')]))

    def stmts(lvl, ind, n):
        a1, a2, sc, es = scopes[lvl]
        I = lambda: r.choice(sc + sc + ['1', '2', '3'])
        out = []
        for _ in range(n):
            q = r.random()
            W = r.choice(a1)
            if q < 0.3:
                out.append(f'{ind}{W}({I()}) = {r.choice(a1)}({I()}) + {r.randint(0, 3)}')
            elif q < 0.45:
                C = r.choice(a2)
                out.append(f'{ind}{C}({I()}, {I()}) = {W}({I()}) + {C}({I()}, {r.randint(1, 3)})')
            elif q < 0.6:
                out.append(f'{ind}x = x + {W}({I()}) * {r.randint(1, 3)}')
            elif q < 0.75:
                out.append(f'{ind}if ({W}({I()}) > {r.randint(0, 4)}) then')
                out.append(f'{ind}  {r.choice(a1)}({I()}) = {r.randint(0, 5)}')
                out.append(f'{ind}end if')
            elif q < 0.9:
                out.append(f'{ind}do i = {I()}, 3')
                out.append(f'{ind}  {W}(i) = {r.choice(a1)}({I()}) + i')
                out.append(f'{ind}end do')
            elif es:
                e = r.choice(es)
                out.append(f'{ind}{e} = {e} + {W}({I()})')
            else:
                out.append(f'{ind}x = x - {W}({I()})')
        return out

    lines = []
    for lvl in range(depth):
        ind = '  ' * (lvl + 1)
        lines.append(ind + 'associate (' + ', '.join(f'{n_} => {sl}' for n_, sl in levels[lvl]) + ')')
        if lvl < depth - 1 and r.random() < 0.5:
            lines += stmts(lvl, ind + '  ', 1)
    lines += stmts(depth - 1, '  ' * (depth + 1), r.randint(2, 4))
    for lvl in reversed(range(depth)):
        ind = '  ' * (lvl + 1)
        lines.append(ind + 'end associate')
        if lvl > 0 and r.random() < 0.4:
            lines += stmts(lvl - 1, ind, 1)
    src = (f'subroutine kernel(a, c, k, j2, x)\n  implicit none\n  integer, intent(inout) :: {decl_a}\n'
           '  integer, intent(inout) :: c(3, 3)\n  integer, intent(in) :: k\n  integer, intent(in) :: j2\n'
           '  integer, intent(inout) :: x\n  integer :: i\n' + '\n'.join(lines) + '\nend subroutine kernel\n')
    prog = fir.export_unit(fir.parse_fortran(src))
    inputs = []
    for _ in range(2):
        inputs.append([[A('a')] + [[A('i'), r.randint(-3, 6)] for _ in range(4)],
                       [A('c')] + [[A('i'), r.randint(-3, 6)] for _ in range(9)],
                       [A('k'), [A('i'), r.randint(1, 3)]], [A('j2'), [A('i'), r.randint(1, 3)]],
                       [A('x'), [A('i'), r.randint(-5, 5)]]])
    sd = r.choice([s_ for s_ in range(1, depth)] * 3 + [0, depth])
    return 'resolve', sd, prog, inputs


# ---------------------------------------------------------------------------------------------------------------
# Targeted family 2 (Fortran source with derived types, outside FIR): array-valued components reached through associated
# parents, subscripted by associate names.  Judged on the real IR by a structural oracle (no ASSOCIATE deeper than start_depth
# is left; every remaining name is declared or bound by a remaining block), by `gfortran -fsyntax-only` on Loki's own fgen
# output, and (thorough) by compiling and running original and transformed routine in the same driver program.
# Request: (c29s resolve SD K J2 "source"); both sides of the correspondence answer (ok structural): not modelled in Lean.

DT_MODULE = """module tmod
  implicit none
  type t2
    real :: val(4)
  end type t2
  type tt
    type(t2) :: items(3)
    real :: w(4)
    integer :: m
  end type tt
end module tmod
"""

DT_DRIVER = """
program drv
  use tmod
  implicit none
  integer, parameter :: n = 4
  real :: arr3d(n, n, n), res(n)
  type(tt) :: obj
  integer :: i, j, l
  do l = 1, n
    do j = 1, n
      do i = 1, n
        arr3d(i, j, l) = i + 10 * j + 100 * l
      end do
    end do
  end do
  do j = 1, 3
    do i = 1, 4
      obj%items(j)%val(i) = 0.5 * i + j
    end do
  end do
  do i = 1, 4
    obj%w(i) = 2.0 * i
  end do
  obj%m = 2
  res = 0.0
  call kern(n, @K, @J, arr3d, res, obj)
  print *, res
  print *, obj%w
  print *, ((obj%items(j)%val(i), i = 1, 4), j = 1, 3)
end program drv
"""


def gen_dt_source(r):
    """(sd, k, j2, source)"""
    depth = r.choice((2, 2, 3))
    L3 = lambda: r.randint(1, 3)
    L4 = lambda: r.randint(1, 4)
    scal, arrs, comps = ['k', 'j2'], [], []     # arrs: 1-d real arrays (index 1..3 ok); comps: things with %val
    refs0 = [lambda I: f'obj%w({I()})', lambda I: f'obj%items({L3()})%val({I()})', lambda I: f'arr3d({I()}, i, {L4()})']
    levels = []
    sn = iter('kk jj ll mm nn k3 k4 k5'.split())
    for lvl in range(depth):
        b = []
        p_scal = list(scal)
        if lvl == 0 or r.random() < 0.4:
            for _ in range(r.choice((1, 2, 2))):
                q = r.random()
                if q < 0.25:
                    b.append(('b%d' % lvl, f'arr3d(:, :, {L4()})'))
                elif q < 0.5:
                    b.append(('q%d' % lvl, 'obj%items'))
                elif q < 0.7:
                    b.append(('ww%d' % lvl, 'obj%w'))
                elif q < 0.85:
                    b.append(('p%d' % lvl, f'obj%items({L3()})'))
                else:
                    src_ = [n_ for n_, _s in sum(levels, []) if n_.startswith('q')]
                    if src_:
                        b.append(('e%d' % lvl, f'{r.choice(src_)}({L3()})%val'))
                    else:
                        b.append(('e%d' % lvl, f'obj%items({L3()})%val'))
        if lvl > 0 or r.random() < 0.6:
            for _ in range(r.choice((1, 1, 2))):
                n_ = next(sn)
                b.append((n_, r.choice(p_scal)))
                scal = scal + [n_]
        seen, bb = set(), []
        for n_, sl in b:
            if n_ not in seen:
                seen.add(n_); bb.append((n_, sl))
        levels.append(bb)
    allb = sum(levels, [])
    I = lambda: r.choice(scal + scal + ['1', '2', '3'])

    def ref():
        cand = list(refs0)
        for n_, sl in allb:
            if n_.startswith('b'):
                cand.append(lambda I, n_=n_: f'{n_}({I()}, i)')
                cand.append(lambda I, n_=n_: f'{n_}(i, {I()})')
            elif n_.startswith('q'):
                cand.append(lambda I, n_=n_: f'{n_}({L3()})%val({I()})')
            elif n_.startswith('ww') or n_.startswith('e'):
                cand.append(lambda I, n_=n_: f'{n_}({I()})')
            elif n_.startswith('p'):
                cand.append(lambda I, n_=n_: f'{n_}%val({I()})')
        return r.choice(cand)(I)

    def wref():
        cand = [lambda: f'obj%w({I()})', lambda: f'obj%items({L3()})%val({I()})']
        for n_, sl in allb:
            if n_.startswith('q'):
                cand.append(lambda n_=n_: f'{n_}({L3()})%val({I()})')
            elif n_.startswith('ww') or n_.startswith('e'):
                cand.append(lambda n_=n_: f'{n_}({I()})')
            elif n_.startswith('p'):
                cand.append(lambda n_=n_: f'{n_}%val({I()})')
        return r.choice(cand)()
    ind = '  ' * (depth + 1)
    body = [f'{ind}do i = 1, n', f'{ind}  out(i) = ' + ' + '.join(ref() for _ in range(r.randint(2, 4))), f'{ind}end do']
    for _ in range(r.randint(0, 2)):
        body.append(f'{ind}{wref()} = {wref()} + {r.randint(1, 3)}.0')
    lines = []
    for lvl in range(depth):
        lines.append('  ' * (lvl + 1) + 'associate (' + ', '.join(f'{n_} => {sl}' for n_, sl in levels[lvl]) + ')')
    lines += body
    for lvl in reversed(range(depth)):
        lines.append('  ' * (lvl + 1) + 'end associate')
    src = ('subroutine kern(n, k, j2, arr3d, out, obj)\n  use tmod, only: tt\n  implicit none\n  integer, intent(in) :: n, k, j2\n'
           '  real, intent(in) :: arr3d(n, n, n)\n  real, intent(out) :: out(n)\n  type(tt), intent(inout) :: obj\n  integer :: i\n'
           + '\n'.join(lines) + '\nend subroutine kern\n')
    return r.choice((0, 0, 1, 1, 2)), r.randint(1, 3), r.randint(1, 3), src


def _compile_run(src):
    import subprocess, tempfile, shutil
    d = tempfile.mkdtemp(prefix='c29dt_')
    try:
        with open(d + '/p.f90', 'w') as fh:
            fh.write(src)
        p = subprocess.run([fir.GFORTRAN, '-O0', '-w', '-fcheck=bounds', '-o', d + '/p', d + '/p.f90'], cwd=d,
                           stdout=subprocess.PIPE, stderr=subprocess.STDOUT, text=True, timeout=300)
        if p.returncode != 0:
            return ('compile-error', p.stdout[-300:])
        q = subprocess.run([d + '/p'], cwd=d, stdout=subprocess.PIPE, stderr=subprocess.STDOUT, text=True, timeout=60)
        return ('ok' if q.returncode == 0 else 'run-error', q.stdout)
    finally:
        shutil.rmtree(d, ignore_errors=True)


def dt_oracle(sd, k, j2, src, run):
    """failures (strings) of resolve(start_depth=sd) on a derived-type source"""
    from loki import Sourcefile
    from loki.frontend import FP
    from loki.ir import nodes as ir, FindNodes, FindVariables
    from loki.expression import symbols as sym
    from loki.transformations.sanitise.associates import do_resolve_associates
    full = DT_MODULE + '\n' + src
    if fir.gfortran_syntax_check(full) is not None:
        raise ValueError('malformed source (gfortran rejects the original)')
    sf = Sourcefile.from_source(full, frontend=FP)
    fir._keepalive.append(sf)
    routine = sf['kern']
    n_before = len(FindNodes(ir.Associate).visit(routine.body))
    try:
        do_resolve_associates(routine, start_depth=sd)
    except Exception as e:
        return [f'resolve sd={sd} raised {type(e).__name__}: {str(e)[:150]}']
    fails = []

    def depth_ok(nodes, d):
        for a in nodes:
            if isinstance(a, ir.Associate):
                if d > sd:
                    return False
                if not depth_ok(a.body, d + 1):
                    return False
            else:
                for attr in ('body', 'else_body'):
                    if isinstance(getattr(a, attr, None), tuple) and not depth_ok(getattr(a, attr), d):
                        return False
        return True
    if not depth_ok(routine.body.body, 1):
        fails.append(f'resolve sd={sd}: an ASSOCIATE block deeper than start_depth is left')
    declared = {str(v.name).lower() for v in routine.variables}

    def walk(nodes, bound):
        for a in nodes:
            if isinstance(a, ir.Associate):
                for sel, _n in a.associations:
                    check(sel, bound, 'selector')
                walk(a.body, bound | {str(n_.name).lower() for _s, n_ in a.associations})
            elif isinstance(a, ir.Loop):
                check_node(a.bounds, bound); walk(a.body, bound)
            elif isinstance(a, ir.Conditional):
                check_node(a.condition, bound); walk(a.body, bound); walk(a.else_body, bound)
            elif isinstance(a, ir.Assignment):
                check_node(a.lhs, bound); check_node(a.rhs, bound)

    def check_node(e, bound):
        check(e, bound, 'expression')

    def check(e, bound, what):
        for v in FindVariables(unique=False).visit(e):
            if isinstance(v, sym.ProcedureSymbol):
                continue
            root = v.parents[0] if getattr(v, 'parents', ()) else v
            name = str(root.name).lower().split('%')[0]
            if name not in declared and name not in bound:
                fails.append(f'resolve sd={sd}: name `{name}` in {what} `{str(e)[:80]}` is neither declared nor bound by a '
                             f'remaining ASSOCIATE block (dangling associate name)')
    walk(routine.body.body, set())
    fails = fails[:1]
    text = sf.to_fortran()
    err = fir.gfortran_syntax_check(text)
    if err is not None and not fails:
        fails.append(f'resolve sd={sd}: gfortran rejects the regenerated source: {str(err)[:200]}')
    if run and not fails:
        drv = DT_DRIVER.replace('@K', str(k)).replace('@J', str(j2))
        a = _compile_run(full + drv)
        b = _compile_run(text + drv)
        if a[0] == 'ok' and (b[0] != 'ok' or a[1] != b[1]):
            fails.append(f'resolve sd={sd}: run of the transformed routine differs from the original (k={k}, j2={j2}): '
                         f'{a[1][:120]!r} vs {b[0]} {b[1][:120]!r}')
    return fails


def undeclared_names(tprog):
    """names used in the transformed FIR program that are neither declared nor bound by an enclosing ASSOCIATE block"""
    bad = []

    def walk(stmts, known):
        for s in stmts:
            h = _h(s)
            if h == 'assoc':
                for b in s[1]:
                    bad.extend(x for x in ex_vars(b[1]) if x not in known)
                walk(s[2], known | {str(b[0]) for b in s[1]})
                continue
            exprs = {'assign': lambda: [s[1], s[2]], 'do': lambda: [s[2], s[3]] + ([] if _is_none(s[4]) else [s[4]]),
                     'while': lambda: [s[1]], 'if': lambda: [s[1]], 'select': lambda: [s[1]],
                     'callsub': lambda: list(s[2:]), 'print': lambda: list(s[1:])}.get(h, lambda: [])()
            for e in exprs:
                bad.extend(x for x in ex_vars(e) if x not in known)
            if h == 'do':
                if str(s[1]) not in known:
                    bad.append(str(s[1]))
                walk(s[5], known)
            elif h == 'while':
                walk(s[2], known)
            elif h == 'if':
                walk(s[2], known); walk(s[3], known)
            elif h == 'select':
                for c in s[2]:
                    walk(c[1], known)
                walk(s[3], known)
    for u in tprog[2:]:
        walk(u[4], {fir.decl_fields(d)[0] for d in u[3]})
    return bad


# priority of classes when one failure has to be attributed to one class
PRIORITY = ['merge_crash', 'value_of_value_crash', 'merge_name_clash', 'merge_moved_dependent', 'merge_moved_not_invariant',
            'print_unresolved', 'bounds_shift', 'index_modified', 'merge_empty_associate']


class C29(Prop):
    id = 'C29'
    title = 'Associate resolution and merging preserve program behaviour'
    model_modules = ['LokiModel.C29.Model', 'LokiModel.C29.Codec', 'LokiModel.C29.ExprSim']
    props_module = 'LokiModel.Props.C29'
    findings_module = 'LokiModel.Findings.C29'
    driver = 'Drivers/C29.lean'
    theorems = ['resolve_sound_partial', 'resolve_condition_sound']
    design_ref = 'DESIGN.md 4.F C29'
    level = 'proof'
    level_text = ('proved (unbounded): the substitution theorem for the names of one ASSOCIATE block with whole-variable and element '
                  'selectors (resolve_sound_partial: every covered expression has the same value in the block and after resolution, '
                  'under the state relation Sim whose element clause is the forced precondition "selector subscripts still have '
                  'their entry value"). NOT proved: the lifting to statements / whole blocks, section and value selectors, merging '
                  '(no theorem). Those are covered by correspondence (real transformation = Lean model incl. class flags) and by '
                  'the direct oracle (original vs really transformed program, Python interpreter + gfortran).')
    level_note = ('trusted: FIR semantics (Sem.lean) as reference; the model is written bottom-up (substitute block by block from the '
                  'innermost outwards), equality with the scope-lookup + recursion of the real mapper is checked by correspondence only; '
                  'derived-type components (max_parents) are outside FIR.')
    technique = ('Lean 4 theorems about a hand-written model of the transformation and the shared FIR semantics + '
                 'correspondence of the model with the real transformation + direct oracle (original vs transformed program)')
    rule = ('programs from harness.fir.gen_program biased to ASSOCIATE (weights assoc 30-45, nested blocks, selectors of all '
            'four kinds, calls, loops), 2-3 input sets each; modes resolve (start_depth 0,1,2), merge, merge+resolve; '
            'non-trivial = the program contains an ASSOCIATE block that the mode changes; distinct by request line')
    trusted_base = ['harness/fir.py emitter, exporter and reference interpreter (three-way self-test against Lean and gfortran)',
                    'Loki FP frontend (the transformation is applied to what the frontend builds from the emitted text)']
    assumptions = ['the ASSOCIATE names of a block are not subscripted unless bound to a whole variable (covE)',
                   'states related by Sim: no associations outside the block, element-selector subscripts unchanged since entry']
    extra_obligations = ['class-flags: python classifier = Lean C29.flags on every case']

    TH_GFORTRAN = int(os.environ.get('C29_GFORTRAN', '1'))

    def classes(self):
        return list(PRIORITY)

    # -- generator
    def gen(self, rng, tier):
        self._tier = tier
        n = {'quick': 45, 'thorough': 260, 'search': 200}.get(tier, 45)
        for k in range(n):
            seed = rng.randrange(1 << 30)
            r = random.Random(seed)
            cfg = {'max_stmts': r.choice((8, 12, 16, 22)), 'max_depth': r.choice((3, 4)),
                   'n_callees': (0, 1), 'callee_stmts': 5,
                   'weights': {'assoc': r.choice((30, 45)), 'print': 8, 'call': r.choice((2, 6)), 'do': 8, 'if': 5,
                               'select': 1, 'while': 2, 'comment': 1, 'pragma': 0, 'assign_section': 4}}
            prog = fir.gen_program(r, cfg)
            if not any(_h(s) == 'assoc' for u in prog[2:] for s in fir.iter_stmts(u[4])):
                continue
            inputs = fir.gen_inputs(r, prog, 2 if tier == 'quick' else 3)
            if transform_real(prog, 'resolve', 0)[:2] == ('error', 'frontend'):
                continue        # a selector the FP frontend cannot digest (notes/FIR.md L2): C01's business, not C29's
            q = r.random()
            if q < 0.45:
                mode, sd = 'resolve', 0
            elif q < 0.65:
                mode, sd = 'resolve', r.choice((1, 1, 2))
            elif q < 0.85:
                mode, sd = 'merge', 0
            else:
                mode, sd = 'both', r.choice((0, 1))
            req = [A('c29'), A(mode), sd, prog, inputs]
            yield Case(req, stream=mode, nontrivial=True)
        # targeted families (see gen_partial / gen_dt_source)
        for k in range({'quick': 5, 'thorough': 40, 'search': 40}.get(tier, 5)):
            r = random.Random(rng.randrange(1 << 30))
            try:
                mode, sd, prog, inputs = gen_partial(r)
            except Exception:
                continue        # frontend / exporter limits on a generated selector
            yield Case([A('c29'), A(mode), sd, prog, inputs], stream='partial-depth', nontrivial=True)
        for k in range({'quick': 3, 'thorough': 12, 'search': 12}.get(tier, 3)):
            r = random.Random(rng.randrange(1 << 30))
            sd, kk, j2, src = gen_dt_source(r)
            yield Case([A('c29s'), A('resolve'), sd, kk, j2, src], stream='derived-type', nontrivial=True)

    def shrink_candidates(self, req):
        if _h(req) == 'c29s':
            return
        mode, sd, prog, inputs = req[1], req[2], req[3], req[4]
        if len(inputs) > 1:
            for k in range(len(inputs)):
                yield req[:4] + [[inputs[k]]]
        units = prog[2:]
        if len(units) > 1:
            for k in range(1, len(units)):
                yield req[:3] + [prog[:2] + units[:k] + units[k + 1:]] + [inputs]
        for k, u in enumerate(units):
            for v in shrink_stmts(list(u[4])):
                yield req[:3] + [prog[:2] + units[:k] + [u[:4] + [v]] + units[k + 1:]] + [inputs]

    # -- real code
    def impl(self, req):
        if _h(req) == 'c29s':
            dec_src_req(req)
            return [A('ok'), A('structural')]
        mode, sd, prog, _inputs = dec_req(req)
        r = transform_real(prog, mode, sd)
        if r[0] == 'error' and r[1] == 'unsupported' and not roundtrip_ok(prog):
            raise ValueError('malformed program (does not survive the untransformed round trip)')
        if r[0] == 'error':
            return [A('error'), A(r[1])]
        return [A('ok'), [A(f) for f in classify(prog, mode, sd)], r[1]]

    def canon_model(self, resp):
        return resp

    # -- direct oracle
    def oracle(self, req):
        if _h(req) == 'c29s':
            sd, k, j2, src = dec_src_req(req)
            return [Failure(w, None) for w in dt_oracle(sd, k, j2, src, run=self._tier == 'thorough')]
        mode, sd, prog, inputs = dec_req(req)
        flags = classify(prog, mode, sd)

        def cls_of(prefer=()):
            for c in list(prefer) + PRIORITY:
                if c in flags:
                    return c
            return None
        r = transform_real(prog, mode, sd)
        if r[0] == 'error':
            if r[1] == 'frontend':
                return []       # C01's business (selectors the frontend cannot parse); generator stays inside
            if r[1] == 'unsupported' and not roundtrip_ok(prog):
                raise ValueError('malformed program (does not survive the untransformed round trip)')
            return [Failure(f'{mode} raised {r[1]}: {r[2]}', cls_of())]
        tprog = r[1]
        fails = []
        if has_empty_assoc(tprog):
            fails.append(Failure('transformed code contains ASSOCIATE with an empty association list (not Fortran: '
                                 'gfortran rejects it)', 'merge_empty_associate' if 'merge_empty_associate' in flags else None))
        und = undeclared_names(tprog)
        if und:
            fails.append(Failure(f'{mode} sd={sd}: the transformed code uses `{und[0]}`, which is neither declared nor bound by a '
                                 f'remaining ASSOCIATE block', cls_of()))
        refs = []
        for k, inp in enumerate(inputs):
            st = {}
            a = fir.interp(prog, inp, stats=st)
            refs.append((a, st))
            if a[0] != 'ok':
                continue
            b = fir.interp(tprog, inp)
            d = fir.compare_results(a, b, undef_wild=False)
            if d is not None:
                fails.append(Failure(f'{mode} sd={sd}: original and transformed program differ on input set {k}: {d}',
                                     cls_of()))
                break
        if not fails and self._want_gfortran(req) and not has_empty_assoc(tprog) and not uses_g1(tprog):
            items = [(tprog, inp) for inp, (a, st) in zip(inputs, refs) if a[0] == 'ok' and fir.exact_in_hardware(st)]
            if items:
                outs = fir.run_gfortran(items, jobs=2)
                j = 0
                for k, (inp, (a, st)) in enumerate(zip(inputs, refs)):
                    if a[0] == 'ok' and fir.exact_in_hardware(st):
                        d = fir.compare_results(a, outs[j])
                        j += 1
                        if d is not None:
                            fails.append(Failure(f'{mode} sd={sd}: gfortran run of the transformed program differs from the '
                                                 f'reference run of the original on input set {k}: {d}', cls_of()))
                            break
        return fails

    _tier = 'quick'

    def _want_gfortran(self, req):
        if not self.TH_GFORTRAN:
            return False
        return zlib.crc32(dumps(req).encode()) % (3 if self._tier == 'thorough' else 16) == 0


PROP = C29()
READY = True
