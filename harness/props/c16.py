"""C16 — analysis attach/detach (pragmas, pragma regions, dataflow) leaves the IR unchanged."""
import inspect

from loki import Subroutine, fgen, FindNodes
from loki import ir
from loki.ir import nodes as irn
from loki.ir.pragma_utils import (
    attach_pragmas, detach_pragmas, pragmas_attached, attach_pragma_regions, detach_pragma_regions,
    pragma_regions_attached, get_matching_region_pragmas
)
from loki.analyse.dataflow_analysis import (
    attach_dataflow_analysis, detach_dataflow_analysis, dataflow_analysis_attached, DataflowAnalysis
)
from loki.tools import as_tuple

from ..core import Prop, Case, Failure
from ..sexpr import A, dumps

DF_FIELDS = ('_live_symbols', '_defines_symbols', '_uses_symbols')
BODY_FIELDS = ('body', 'else_body', 'bodies', 'default')
PRAGMA_TYPES = ['Loop', 'WhileLoop', 'CallStatement', 'VariableDeclaration']   # classes with a `pragma` field we attach to


class Boom(Exception):
    """raised by the `(raise)` step inside a history"""


def node_classes():
    return {n: c for n, c in vars(irn).items() if inspect.isclass(c) and issubclass(c, irn.Node)}


def expand_types(names):
    """class names accepted by isinstance(x, tuple(names))"""
    cl = node_classes()
    base = tuple(cl[n] for n in names)
    return sorted(n for n, c in cl.items() if issubclass(c, base))


def lookup(visitor, cls):
    """GenericVisitor.lookup_method for a class (the method only looks at instance.__class__)"""
    return visitor.lookup_method(object.__new__(cls)).__func__.__qualname__


def df_tables():
    att, det = DataflowAnalysis().get_attacher(), DataflowAnalysis().get_detacher()
    no_set, no_desc, no_clear = [], [], []
    for n, c in sorted(node_classes().items()):
        a, d = lookup(att, c), lookup(det, c)
        if a.startswith('Transformer.'):
            no_set.append(n)
        if a.endswith('visit_Interface'):
            no_desc.append(n)
        if not d.startswith('DataflowAnalysisDetacher.'):
            no_clear.append(n)
    return no_set, no_desc, no_clear


# ---------------------------------------------------------------- export of the real IR as model items

class Env:
    """identity and source numbering of one program unit (kept alive for the whole request)"""

    def __init__(self):
        self.ids = {}
        self.keep = []
        self.src = {}
        self.src_obj = {}

    def number(self, o):
        if id(o) not in self.ids:
            self.ids[id(o)] = len(self.ids) + 1
            self.keep.append(o)
        return self.ids[id(o)]

    def ident(self, o):
        return self.ids.get(id(o), 0)

    def srckey(self, p):
        if p.source is None and p.label is None:
            return 0
        s = p.source
        key = (repr(sorted(s.__dict__.items(), key=lambda kv: kv[0])) if hasattr(s, '__dict__') else repr(s), p.label)
        if key not in self.src:
            self.src[key] = len(self.src) + 1
            self.src_obj[self.src[key]] = (p.source, p.label)
        return self.src[key]


def has_df(o):
    return any(o.__dict__.get(f) is not None for f in DF_FIELDS)


def bodies_of(o):
    """[(field, index or None, tuple)] for the body tuples of a node, in `children` order"""
    out = []
    for f in o._traversable:
        if f not in BODY_FIELDS:
            continue
        v = getattr(o, f)
        if f == 'bodies':
            out += [(f, k, as_tuple(b)) for k, b in enumerate(v)]
        else:
            out.append((f, None, as_tuple(v)))
    return out


def single_body(o):
    bs = bodies_of(o)
    return len(bs) == 1 and bs[0][0] == 'body'


def exp_pragma(p, env):
    return [A('p'), env.ident(p), p.keyword, p.content if p.content is not None else '', env.srckey(p), has_df(p)]


def exp_item(o, env):
    if isinstance(o, irn.Pragma):
        return exp_pragma(o, env)
    if isinstance(o, irn.PragmaRegion):
        return [A('r'), has_df(o), exp_pragma(o.pragma, env), exp_pragma(o.pragma_post, env),
                [exp_item(i, env) for i in o.body]]
    if single_body(o):
        body = [exp_item(i, env) for i in o.body]
    else:
        body = [[A('n'), 0, A('Branch'), False, False, [], [], [exp_item(i, env) for i in t]] for _, _, t in bodies_of(o)]
    pre = [exp_pragma(p, env) for p in as_tuple(o.__dict__.get('pragma'))]
    post = [exp_pragma(p, env) for p in as_tuple(o.__dict__.get('pragma_post'))]
    return [A('n'), env.ident(o), A(type(o).__name__), hasattr(o, 'pragma_post'), has_df(o), pre, post, body]


def number_all(o, env):
    """pre-order numbering of every node object reachable through body tuples"""
    env.number(o)
    if isinstance(o, irn.Pragma):
        env.srckey(o)
        return
    for _, _, t in bodies_of(o):
        for i in t:
            number_all(i, env)


def build(src):
    routine = Subroutine.from_source(src)
    env = Env()
    number_all(routine.spec, env)
    number_all(routine.body, env)
    return routine, env


def export(routine, env):
    return [exp_item(routine.spec, env), exp_item(routine.body, env)]


# ---------------------------------------------------------------- python ports of the Lean `Known…` predicates

def _pragmas(xs):
    out = []
    for x in xs:
        if x[0] == 'p':
            out.append(x)
        else:
            out += _pragmas(x[-1])
    return out


def _valeq(p, q):
    return p[2] == q[2] and p[3] == q[3] and p[4] == q[4]


def known_dup(xs):
    """two value-equal (==) Pragma nodes in the tree (slots excluded): the situation in which `tuple.index`
    may locate another object than the one `get_matching_region_pragmas` paired"""
    ps = _pragmas(xs)
    return any(_valeq(p, q) for i, p in enumerate(ps) for q in ps[i + 1:])


# ---------------------------------------------------------------- running a history on the real objects

def sbool(x):
    return x is True or str(x) == 'true'


def find_owner(root, nid, env):
    """(owner node, field, sub-index, tuple, position) of the node numbered nid"""
    for f, k, t in bodies_of(root):
        for pos, i in enumerate(t):
            if env.ident(i) == nid and not isinstance(i, irn.Pragma):
                return root, f, k, t, pos
            if not isinstance(i, irn.Pragma):
                r = find_owner(i, nid, env)
                if r:
                    return r
    return None


class Runner:
    def __init__(self, routine, env):
        self.r, self.env = routine, env
        self.hazards = []          # known-finding classes whose predicate held on the state a step ran on

    def classes(self, names):
        cl = node_classes()
        return tuple(cl[str(n)] for n in names)

    def note_regions(self):
        if any(known_dup(x[-1]) for x in export(self.r, self.env)):
            self.hazards.append('region-index-by-value')

    def kw(self, x):
        return None if isinstance(x, A) and str(x) == 'none' else str(x)

    def run(self, ops):
        r = self.r
        for op in ops:
            tag = str(op[0])
            if tag == 'attach':
                r.spec = attach_pragmas(r.spec, self.classes(op[1]), attach_pragma_post=sbool(op[2]))
                r.body = attach_pragmas(r.body, self.classes(op[1]), attach_pragma_post=sbool(op[2]))
            elif tag == 'detach':
                r.spec = detach_pragmas(r.spec, self.classes(op[1]), detach_pragma_post=sbool(op[2]))
                r.body = detach_pragmas(r.body, self.classes(op[1]), detach_pragma_post=sbool(op[2]))
            elif tag == 'rattach':
                self.note_regions()
                r.spec = attach_pragma_regions(r.spec, keyword=self.kw(op[1]))
                r.body = attach_pragma_regions(r.body, keyword=self.kw(op[1]))
            elif tag == 'rdetach':
                r.spec = detach_pragma_regions(r.spec)
                r.body = detach_pragma_regions(r.body)
            elif tag == 'dfattach':
                attach_dataflow_analysis(r)
            elif tag == 'dfdetach':
                detach_dataflow_analysis(r)
            elif tag == 'insert':
                self.insert(int(str(op[1])), op[2])
            elif tag == 'raise':
                raise Boom()
            elif tag == 'with-pragmas':
                with pragmas_attached(r, self.classes(op[1]), attach_pragma_post=sbool(op[2])):
                    self.run(op[3])
            elif tag == 'with-regions':
                self.note_regions()
                with pragma_regions_attached(r, keyword=self.kw(op[1])):
                    self.run(op[2])
            elif tag == 'with-df':
                with dataflow_analysis_attached(r):
                    self.run(op[1])
            else:
                raise ValueError(tag)

    def insert(self, nid, p):
        env = self.env
        src, label = env.src_obj.get(int(str(p[4])), (None, None))
        new = irn.Pragma(keyword=str(p[2]), content=str(p[3]), source=src, label=label)
        env.ids[id(new)] = int(str(p[1]))
        env.keep.append(new)
        for root in (self.r.spec, self.r.body):
            hit = find_owner(root, nid, env)
            if hit:
                owner, f, k, t, pos = hit
                t2 = t[:pos] + (new,) + t[pos:]
                if k is None:
                    owner._update(**{f: t2})
                else:
                    bs = list(getattr(owner, f))
                    bs[k] = t2
                    owner._update(**{f: tuple(bs)})
                return

    def status(self, ops):
        try:
            self.run(ops)
            return 'ok'
        except Boom:
            return 'raised'
        except IndexError as e:
            import traceback
            if not traceback.extract_tb(e.__traceback__)[-1].filename.endswith('pragma_utils.py'):
                raise      # malformed request (e.g. while shrinking), not the real code
            return 'indexerror'      # cannot happen since the fix of get_matching_region_pragmas; the model never answers this


# ---------------------------------------------------------------- observation used by the direct oracle

def observe(routine):
    """what the property speaks about, read off the real objects without the model exporter"""
    nodes = FindNodes(irn.Node).visit(routine.spec) + FindNodes(irn.Node).visit(routine.body)
    attached = sum(1 for n in nodes if not isinstance(n, irn.Pragma) and
                   (isinstance(n, irn.PragmaRegion) or n.__dict__.get('pragma') or n.__dict__.get('pragma_post')))
    return dict(
        text=fgen(routine),
        struct=[(type(n).__name__, repr(n)) for n in nodes],
        node_ids=[id(n) for n in nodes if not isinstance(n, (irn.Pragma, irn.PragmaRegion))],
        pragma_ids=[id(n) for n in nodes if isinstance(n, irn.Pragma)],
        attrs={id(n): sorted(k for k in n.__dict__ if k not in DF_FIELDS) for n in nodes},
        df=[type(n).__name__ for n in nodes if has_df(n)],
        attached=attached,
        keep=nodes,
    )


def first_diff(a, b):
    la, lb = a.splitlines(), b.splitlines()
    for i, (x, y) in enumerate(zip(la, lb)):
        if x != y:
            return f'line {i + 1}: {x.strip()!r} -> {y.strip()!r}'
    return f'{len(la)} -> {len(lb)} lines'


def flat_ops(ops):
    for o in ops:
        yield o
        if str(o[0]).startswith('with-'):
            yield from flat_ops(o[-1])


# ---------------------------------------------------------------- which histories the property speaks about

def trace(ops):
    """(primitive steps executed, raised?): context managers unfolded into enter / body / exit-always, nothing after a raise"""
    out = []

    def run(ops):
        for op in ops:
            tag = str(op[0])
            if tag == 'raise':
                return True
            if tag == 'with-pragmas':
                out.append(('attach', [str(t) for t in op[1]], sbool(op[2])))
                r = run(op[3])
                out.append(('detach', [str(t) for t in op[1]], sbool(op[2])))
            elif tag == 'with-regions':
                out.append(('rattach',))
                r = run(op[2])
                out.append(('rdetach',))
            elif tag == 'with-df':
                out.append(('dfattach',))
                r = run(op[1])
                out.append(('dfdetach',))
            else:
                r = False
                if tag in ('attach', 'detach'):
                    out.append((tag, [str(t) for t in op[1]], sbool(op[2])))
                else:
                    out.append((tag,))
            if r:
                return True
        return False
    raised = run(ops)
    return out, raised


def closed(tr):
    """every attach step is undone by matching detach steps later in the trace, in whatever order: for every class
    an attach_pragmas step attaches to there is a later detach_pragmas step for that class (and one with
    detach_pragma_post if the attach handled pragma_post); every attach_pragma_regions / attach_dataflow_analysis step is
    followed by a detach_pragma_regions / detach_dataflow_analysis step"""
    for i, st in enumerate(tr):
        later = tr[i + 1:]
        if st[0] == 'attach':
            for k in st[1]:
                if not any(d[0] == 'detach' and k in d[1] for d in later):
                    return False
                if st[2] and not any(d[0] == 'detach' and k in d[1] and d[2] for d in later):
                    return False
        elif st[0] == 'rattach' and not any(d[0] == 'rdetach' for d in later):
            return False
        elif st[0] == 'dfattach' and not any(d[0] == 'dfdetach' for d in later):
            return False
    return True


# ---------------------------------------------------------------- shape of a history

def shape(ops):
    """'pure' (properly nested attach…detach / context managers, exceptions only where every open bracket is a
    context manager, no edits), 'edit' (same with inserted pragmas), or None (the property does not speak)"""
    edits = [False]

    def walk(ops, open_fn):
        stack = []
        for op in ops:
            tag = str(op[0])
            if tag in ('attach', 'rattach', 'dfattach'):
                if tag == 'attach' and stack and dumps(stack[-1]) == dumps(op):
                    continue      # attaching again (after an edit) inside the same bracket
                stack.append(op)
            elif tag in ('detach', 'rdetach', 'dfdetach'):
                if not stack:
                    return False
                o = stack.pop()
                if (str(o[0]), tag) not in (('attach', 'detach'), ('rattach', 'rdetach'), ('dfattach', 'dfdetach')):
                    return False
                if tag == 'detach' and dumps(o[1:]) != dumps(op[1:]):
                    return False
            elif tag == 'insert':
                edits[0] = True
            elif tag == 'raise':
                if stack or open_fn:
                    return False
                return True       # nothing after a raise is executed
            elif tag.startswith('with-'):
                if not walk(op[-1], open_fn or bool(stack)):
                    return False
                if any(str(o[0]) == 'raise' for o in flat(op[-1])):
                    return not stack and not open_fn
        return not stack

    def flat(ops):
        for o in ops:
            yield o
            if str(o[0]).startswith('with-'):
                yield from flat(o[-1])

    if not walk(ops, False):
        return None
    return 'edit' if edits[0] else 'pure'


# ---------------------------------------------------------------- generator of Fortran routines

PRAGMAS = ['!$loki foo', '!$loki bar(1)', '!$acc loop', '!$omp simd', '!$loki foo', '!$LOKI Baz'] * 8 + ['!$loki end', '!$acc data end']
REGIONS = [('!$loki region', '!$loki end region'), ('!$loki data', '!$loki end data'),
           ('!$acc parallel', '!$acc end parallel'), ('!$omp target', '!$omp end target'),
           ('!$loki Region', '!$LOKI END REGION'), ('!$loki region name(x)', '!$loki end region'),
           ('!$loki x region', '!$loki x end region'), ('!$acc kernels  loop', '!$acc end kernels')]


def gen_block(rng, depth, var, budget):
    """list of source lines for a statement sequence"""
    lines = []
    n = rng.randint(1, 4 if depth else 6)
    for _ in range(n):
        if budget[0] <= 0:
            break
        budget[0] -= 1
        c = rng.random()
        ind = '  ' * (depth + 1)
        idx = var or '1'
        if c < 0.30:
            lines.append(ind + rng.choice(PRAGMAS))
        elif c < 0.42:
            lines.append(ind + f'a({idx}) = b({idx}) + 1.')
        elif c < 0.52:
            lines.append(ind + 'call sub(a, n)')
        elif c < 0.56:
            lines.append(ind + '! a comment')
        elif c < 0.62 and depth < 3:
            # loop with its own leading/trailing pragmas, optionally wrapped directly in a region
            v = 'ijk'[depth]
            rs, re_ = rng.choice(REGIONS[:4])
            wrap = rng.random() < 0.6
            lp, le = rng.choice([('!$omp parallel do', '!$omp end parallel do'), ('!$acc parallel loop gang', '!$acc end parallel loop'),
                                 ('!$loki loop', None), (None, '!$omp end do')])
            lines += ([ind + rs] if wrap else []) + ([ind + lp] if lp else []) + [ind + f'do {v}=1,n']
            lines += gen_block(rng, depth + 1, v, budget) + [ind + 'end do'] + ([ind + le] if le else []) + ([ind + re_] if wrap else [])
        elif c < 0.72 and depth < 3:
            v = 'ijk'[depth]
            lines += [ind + f'do {v}=1,n'] + gen_block(rng, depth + 1, v, budget) + [ind + 'end do']
        elif c < 0.77 and depth < 3:
            lines += [ind + 'do while (m < n)'] + gen_block(rng, depth + 1, var, budget) + [ind + '  m = m + 1', ind + 'end do']
        elif c < 0.84 and depth < 3:
            lines += [ind + 'if (n > 1) then'] + gen_block(rng, depth + 1, var, budget)
            if rng.random() < 0.6:
                lines += [ind + 'else'] + gen_block(rng, depth + 1, var, budget)
            lines += [ind + 'end if']
        elif c < 0.87 and depth < 3:
            lines += [ind + 'select case (n)', ind + 'case (1)'] + gen_block(rng, depth + 1, var, budget)
            lines += [ind + 'case default'] + gen_block(rng, depth + 1, var, budget) + [ind + 'end select']
        elif c < 0.90 and depth < 3:
            lines += [ind + 'associate (x => a)'] + gen_block(rng, depth + 1, var, budget) + [ind + 'end associate']
        else:
            s, e = rng.choice(REGIONS)
            inner = gen_block(rng, depth, var, budget)
            r = rng.random()
            if r < 0.12:
                lines += [ind + s] + inner                      # unmatched start
            elif r < 0.24:
                lines += inner + [ind + e]                      # unmatched end
            elif r < 0.30 and depth < 3:                        # end one level deeper
                lines += [ind + s, ind + 'do l=1,2'] + inner + [ind + '  ' + e, ind + 'end do']
            else:
                lines += [ind + s] + inner + [ind + e]
    return lines


def gen_source(rng, size):
    spec = ['  integer, intent(in) :: n']
    if rng.random() < 0.5:
        spec.append('  !$loki dimension(n)')
    spec.append('  real, intent(inout) :: a(n), b(n)')
    if rng.random() < 0.3:
        spec += ['  !$loki region', '  integer :: i, j', '  !$loki end region', '  integer :: k, l, m']
    else:
        spec.append('  integer :: i, j, k, l, m')
    if rng.random() < 0.3:
        spec.append('  !$loki trailing')
    body = ['  m = 0'] if rng.random() < 0.5 else []
    body += gen_block(rng, 0, None, [size])
    return '\n'.join(['subroutine t(n, a, b)'] + spec + body + ['end subroutine t']) + '\n'


def rand_types(rng):
    k = rng.choice([1, 1, 2, 2, 3, 4])
    return expand_types(sorted(rng.sample(PRAGMA_TYPES, k)))


def gen_ops(rng, kind, st0, newid):
    """history of one of the named kinds; st0 = exported initial state (to pick nodes for edits)"""
    T = [A(t) for t in rand_types(rng)]
    post = rng.random() < 0.75
    kw = rng.choice([A('none'), A('none'), 'loki', 'LOKI', 'acc', 'omp'])
    att, det = [A('attach'), T, post], [A('detach'), T, post]
    if kind == 'pragmas-fn':
        return [att, det]
    if kind == 'pragmas-ctx':
        return [[A('with-pragmas'), T, post, [[A('raise')]] if rng.random() < 0.4 else []]]
    if kind == 'regions-fn':
        return [[A('rattach'), kw], [A('rdetach')]]
    if kind == 'regions-ctx':
        return [[A('with-regions'), kw, [[A('raise')]] if rng.random() < 0.4 else []]]
    if kind == 'df-fn':
        return [[A('dfattach')], [A('dfdetach')]]
    if kind == 'df-ctx':
        return [[A('with-df'), [[A('raise')]] if rng.random() < 0.4 else []]]
    if kind == 'nested':
        inner = [[A('raise')]] if rng.random() < 0.4 else []
        layers = rng.sample(['p', 'r', 'd', 'p2'], rng.randint(2, 4))
        for l in layers:
            if l in ('p', 'p2'):
                T2 = [A(t) for t in rand_types(rng)]
                p2 = rng.random() < 0.75
                inner = [[A('with-pragmas'), T2, p2, inner]] if rng.random() < 0.6 else \
                    [[A('attach'), T2, p2]] + ([] if any('raise' in dumps(i) for i in inner) else inner + [[A('detach'), T2, p2]])
                if inner[0][0] == 'attach' and len(inner) == 1:
                    inner = [[A('with-pragmas'), T2, p2, []]]
            elif l == 'r':
                inner = [[A('with-regions'), kw, inner]]
            else:
                inner = [[A('with-df'), inner]]
        return inner
    if kind == 'mixedpost':  # different pragma_post flags on attach and detach
        TL = [A(t) for t in expand_types(sorted(set(rng.sample(PRAGMA_TYPES, rng.randint(1, 2)) + ['Loop'] + (['WhileLoop'] if rng.random() < 0.5 else []))))]
        a1, a0, d1, d0 = [A('attach'), TL, True], [A('attach'), TL, False], [A('detach'), TL, True], [A('detach'), TL, False]
        rz = [[A('raise')]] if rng.random() < 0.4 else []
        return rng.choice([
            [a1, d0, d1], [a1, d0, a1, d1], [a0, a1, d0, d1], [a1, d0, d0, d1], [a0, d1], [a1, a0, d1],
            [[A('with-pragmas'), TL, True, [[A('with-pragmas'), TL, False, rz]]]],
            [[A('with-pragmas'), TL, False, [[A('with-pragmas'), TL, True, rz]]]],
            [[A('with-pragmas'), TL, True, [a0, d0] + rz]],
            [[A('with-pragmas'), TL, True, [d0] + rz]],
            [[A('with-pragmas'), TL, True, [d0, [A('with-pragmas'), TL, False, rz]]]],
            [a1, [A('with-pragmas'), TL, False, []], d1],
        ])
    if kind == 'interleave':  # non-LIFO orders of the attach / detach functions; every attach is undone later
        if rng.random() < 0.3:
            return [[A('rattach'), kw], att] + ([[A('dfattach')]] if rng.random() < 0.3 else []) + [[A('rdetach')], att, det] + \
                ([[A('dfdetach')]] if False else [])
        brackets = []
        for name in rng.sample(['p', 'p2', 'r', 'd'], rng.randint(2, 3)):
            if name in ('p', 'p2'):
                T2 = [A(t) for t in rand_types(rng)]
                p2 = rng.random() < 0.75
                closes = [[A('detach'), T2, p2]]
                r = rng.random()
                if p2 and r < 0.3:
                    closes = [[A('detach'), T2, False], [A('detach'), T2, True]]
                elif r < 0.5 and len(T2) > 1:
                    cut = rng.randint(1, len(T2) - 1)
                    closes = [[A('detach'), T2[:cut], p2], [A('detach'), T2[cut:], p2]]
                seq = [[A('attach'), T2, p2]] + closes
                if rng.random() < 0.3:          # attach again before the last detach
                    seq.insert(rng.randint(1, len(seq) - 1), [A('attach'), T2, p2])
                brackets.append(seq)
            elif name == 'r':
                brackets.append([[A('rattach'), kw], [A('rdetach')]])
            else:
                brackets.append([[A('dfattach')], [A('dfdetach')]])
        out = []
        while any(brackets):
            b = rng.choice([b for b in brackets if b])
            out.append(b.pop(0))
        return out
    if kind == 'mixed':      # arbitrary order of function forms: correspondence only
        pool = [att, det, [A('rattach'), kw], [A('rdetach')], [A('dfattach')], [A('dfdetach')],
                [A('detach'), T, not post], [A('attach'), [A(t) for t in rand_types(rng)], True]]
        return [rng.choice(pool) for _ in range(rng.randint(2, 6))]
    if kind == 'edit':       # attach; insert a new pragma before some node; attach again; detach
        nodes = [x for x in all_nodes(st0) if int(x[1]) > 0 and str(x[2]) != 'Section']
        ops = [att]
        for _ in range(rng.randint(1, 2)):
            if nodes:
                tgt = rng.choice(nodes)
                dup = rng.random() < 0.3 and _pragmas(sum((x[-1] for x in st0), []))
                if dup:
                    q = rng.choice(_pragmas(sum((x[-1] for x in st0), [])))
                    p = [A('p'), newid(), q[2], q[3], q[4], False]
                else:
                    p = [A('p'), newid(), 'loki', rng.choice(['new', 'region', 'end region', 'foo']), 0, False]
                ops.append([A('insert'), int(tgt[1]), p])
        tail = rng.choice(['attach-detach', 'detach', 'regions', 'ctx'])
        if tail == 'attach-detach':
            ops += [att, det]
        elif tail == 'detach':
            ops += [det]
        elif tail == 'regions':
            ops = ops[1:] + [[A('rattach'), A('none')], [A('rdetach')]]
        else:
            ops = [[A('with-pragmas'), T, post, ops[1:] + [[A('with-pragmas'), T, post, []]]]]
        return ops
    raise ValueError(kind)


def all_nodes(xs):
    for x in xs:
        if x[0] == 'p':
            continue
        if x[0] == 'n':
            yield x
        yield from all_nodes(x[-1])


KINDS = ['interleave', 'interleave', 'mixedpost', 'pragmas-fn', 'pragmas-ctx', 'regions-fn', 'regions-ctx', 'df-fn', 'df-ctx', 'nested', 'nested', 'mixed', 'edit', 'edit']


class C16(Prop):
    id = 'C16'
    title = 'Analysis attach/detach leaves the IR unchanged'
    model_modules = ['LokiModel.C16.Model', 'LokiModel.Generated.C16Tables']
    props_module = 'LokiModel.Props.C16'
    driver = 'Drivers/C16.lean'
    theorems = ['C16_full', 'C16_detach_attach', 'C16_nodeIds_attach', 'C16_nodeIds_detach', 'C16_regions_full_false',
                'C16_regions_roundtrip_partial', 'C16_regions_roundtrip', 'C16_nodeIds_regions', 'C16_dataflow_full_false',
                'C16_dataflow_roundtrip_partial', 'C16_dataflow_roundtrip', 'C16_bracket_restores', 'C16_bracket_raise',
                'C16_bracket_df', 'C16_bracket_regions', 'runOps_exc', 'C16_detach_detach', 'C16_mixed_flags', 'C16_mixed_flags_clean',
                'C16_nested_mixed_contexts', 'C16_detach_unreg_comm', 'C16_interleaved_regions', 'C16_interleaved_regions_clean']
    design_ref = 'DESIGN.md 4.B C16'
    level = 'proof'
    level_text = ('Lean theorems (kernel-checked, every body of any size and nesting, every set of node types, with and without '
                  'pragma_post handling). FULL strength since the fix: commits for attach-overwrites-slot, stray-pragma-post, '
                  'dataflow-scoped-node-stale and region-match-indexerror: C16_full — detach(attach xs) = detach xs for EVERY body, slots '
                  'possibly already attached (attach; edit; attach; detach); C16_detach_attach — detach(attach xs) = xs for every frontend-state '
                  'body, pragmas in any position; C16_nodeIds_attach/_detach — identities and order of all non-pragma nodes are kept; '
                  'C16_dataflow_roundtrip — with the handler table generated from the real classes (no class is skipped by the detacher) '
                  'detaching clears exactly the fields attaching set (C16_dataflow_roundtrip_partial/C16_dataflow_full_false: parametric in the '
                  'table, false for a table that skips a class); C16_bracket_restores/_raise/_df/_regions — the three context managers restore '
                  'the unit on normal AND exceptional exit and the exception propagates; C16_detach_detach / C16_mixed_flags(_clean) / '
                  'C16_nested_mixed_contexts — mixed attach_pragma_post / detach_pragma_post flags: a detach without pragma_post leaves those slots '
                  'intact and a later full detach restores the body (also for an inner pragmas_attached(post=False) inside an outer one); '
                  'C16_detach_unreg_comm / C16_interleaved_regions(_clean) — the non-LIFO order attach_pragma_regions; attach_pragmas; '
                  'detach_pragma_regions; attach_pragmas; detach_pragmas restores the body (outside the open region class). PARTIAL (open finding region-index-by-value): '
                  'C16_regions_full_false — the region round trip is false with ==-equal pragmas; C16_regions_roundtrip(_partial) / '
                  'C16_nodeIds_regions — PragmaRegionDetacher undoes PragmaRegionAttacher for ANY list of pragma pairs (matched, unmatched, '
                  'cross-level) whenever value-index finds the paired objects in order (KnownRegionIndex = false). NOT proved, checked on '
                  'every generated input only: pairwise-distinct pragmas imply KnownRegionIndex = false (the reported class is the '
                  'duplicate-pragma predicate); properties of get_matching_region_pragmas (only modelled and compared). Model tied to the '
                  'code by running the real functions and context managers on frontend-parsed generated routines for whole histories '
                  '(function forms, context managers, nested, raising bodies, attach-edit-attach-detach, arbitrary interleavings) and '
                  'diffing the exported IR with the Lean driver.')
    level_note = ('Hand-written model of PragmaAttacher/Detacher.visit_tuple, get_matching_region_pragmas, PragmaRegionAttacher/Detacher, the '
                  'set/clear behaviour of the dataflow attacher/detacher (not the computed sets: C26/C27) and the try/finally structure of the '
                  'context managers. Slots: [] stands for None and (); nodes with several bodies are exported with one Branch pseudo node per '
                  'body tuple; nested tuples inside bodies, TypeDef bodies, Source invalidation of enclosing nodes by the in-place region '
                  'Transformer, and replace_windowed on ==-equal PragmaRegion nodes are not modelled.')
    technique = 'Lean 4 theorems about a hand-written model + correspondence of whole attach/detach histories with the real code'
    rule = ('random Fortran routines (loops, while, if/else, select case, associate, calls, declarations; pragmas before/after/between, '
            'matched, unmatched, cross-level, mixed-case and duplicate region pragmas, `end`-only pragmas) parsed by the real frontend; '
            '13 kinds of histories per routine (incl. non-LIFO interleavings of the attach/detach functions in which every attach is undone later, and mixed pragma_post flags in function and context-manager form with raising bodies) plus a region-flag request; the oracle speaks about every history that is properly nested or closed (harness trace/closed), private dataflow fields only for properly nested ones; non-trivial = the routine contains pragmas; distinct by request line')
    trusted_base = ['harness/props/c16.py exporter (real IR -> model items: identity numbering, Source numbering, Branch pseudo nodes)',
                    'Python port known_dup of the Lean KnownDupPragmas predicate (cross-checked by the regflags stream)',
                    'Lean driver evaluation of model definitions; ASCII String.toLower/splitOn vs str.lower/split']
    assumptions = ['node_type contains neither Pragma nor PragmaRegion and only classes with a `pragma` field',
                   'pragma content is a string (Pragma.content None makes get_matching_region_pragmas raise AttributeError; not generated)',
                   'ASCII pragma text', 'bodies are flat tuples (no nested tuples), no TypeDef in the spec']
    extra_obligations = ['oracle: fgen text, IR repr, node/pragma identities, instance attributes and private dataflow fields before vs after every bracketed history',
                         'regflags: no two ==-equal pragmas implies KnownRegionIndex = false']

    def tables(self):
        no_set, no_desc, no_clear = df_tables()

        def lst(xs):
            return '[' + ', '.join('"%s"' % x for x in xs) + ']'
        return {'LokiModel/Generated/C16Tables.lean':
                '/-! generated by harness/props/c16.py from /repo -- do not edit -/\n'
                'namespace LokiModel.C16.Generated\n'
                f'def dfNoSet : List String := {lst(no_set)}\n'
                f'def dfNoDescend : List String := {lst(no_desc)}\n'
                f'def dfNoClear : List String := {lst(no_clear)}\n'
                'end LokiModel.C16.Generated\n'}

    def gen(self, rng, tier):
        n = {'quick': 26, 'thorough': 260, 'search': 100}.get(tier, 26)
        for k in range(n):
            src = gen_source(rng, rng.choice([6, 10, 16, 24]))
            try:
                routine, env = build(src)
            except Exception:   # generated text the frontend rejects: not an input
                continue
            st0 = export(routine, env)
            counter = [1000]

            def newid():
                counter[0] += 1
                return counter[0]
            for kind in (KINDS if tier != 'quick' else ['interleave', 'mixedpost'] + rng.sample(KINDS[3:], 4)):
                ops = gen_ops(rng, kind, st0, newid)
                yield Case([A('run'), src, st0, ops], stream=kind, nontrivial=bool(_pragmas(sum((x[-1] for x in st0), []))))
            # state with attached slots and freshly inserted (possibly duplicate) pragmas for the region flags
            pre_ops = gen_ops(rng, 'edit', st0, newid)[:rng.randint(1, 3)]
            pre_ops = [o for o in pre_ops if str(o[0]) in ('attach', 'insert')]
            Runner(routine, env).status(pre_ops)
            yield Case([A('regflags'), rng.choice([A('none'), 'loki', 'omp']), export(routine, env)], stream='regflags')

    # ---- real code
    def impl(self, req):
        op = str(req[0])
        if op == 'run':
            routine, env = build(str(req[1]))
            if dumps(export(routine, env)) != dumps(req[2]):
                return [A('error'), A('stale-export')]
            status = Runner(routine, env).status(req[3])
            return [A(status), export(routine, env)]
        if op == 'regflags':
            dup = any(known_dup(x[-1]) for x in req[2])
            return [A('flags'), dup, A('any') if dup else False]
        raise ValueError(op)

    def canon_model(self, resp):
        # (flags dup ridx): the exact flag is only compared when no two pragmas are value-equal (then it must be false)
        if isinstance(resp, list) and resp and str(resp[0]) == 'flags' and str(resp[1]) == 'true':
            return [resp[0], resp[1], A('any')]
        return resp

    def oracle(self, req):
        """independent statement of the property on the real objects: text, structure, identities, instance
        attributes and private fields before vs after a bracketed history"""
        if str(req[0]) != 'run':
            return []
        ops = req[3]
        sh = shape(ops)                     # properly nested (LIFO) history?
        tr, raised = trace(ops)
        if sh is None and not closed(tr):
            return []                       # some attach is never undone: the property does not speak (correspondence only)
        edits = any(st[0] == 'insert' for st in tr)
        routine, env = build(str(req[1]))
        before = observe(routine)
        runner = Runner(routine, env)
        status = runner.status(ops)
        after = observe(routine)
        inserted = [int(str(o[2][1])) for o in flat_ops(ops) if str(o[0]) == 'insert']
        fails = []

        def fail(kind, what):
            allowed = {'text': ['region-index-by-value'], 'attrs': [], 'dataflow': []}[kind]
            cls = next((h for h in allowed if h in runner.hazards), None)
            fails.append(Failure(f'{what} [history {dumps(ops)[:160]}]', cls))

        if status != ('raised' if raised else 'ok'):
            fail('text', f'history ended with status {status}, expected {"raised" if raised else "ok"}')
        if after['attached']:
            fail('text', f'{after["attached"]} slot(s)/region(s) still attached after the last detach')
        if before['node_ids'] != after['node_ids']:
            fail('text', 'identity or order of pre-existing non-pragma nodes changed')
        if not edits:
            if before['text'] != after['text']:
                fail('text', 'fgen text differs after attach…detach: ' + first_diff(before['text'], after['text']))
            elif before['struct'] != after['struct']:
                fail('text', 'IR structure differs after attach…detach')
            if before['pragma_ids'] != after['pragma_ids']:
                fail('text', 'identity or order of Pragma nodes changed')
        else:
            known = {id(o) for o in env.keep}
            new = [i for i in after['pragma_ids'] if i not in before['pragma_ids']]
            if sorted(after['pragma_ids']) != sorted(before['pragma_ids'] + new) or len(new) != len(inserted) \
                    or len(set(after['pragma_ids'])) != len(after['pragma_ids']) or any(i not in known for i in new):
                lost = len(before['pragma_ids']) + len(inserted) - len(after['pragma_ids'])
                fail('text', f'pragma nodes lost or duplicated by attach; edit; attach; detach ({lost} missing)')
        extra = sorted({a for k, v in after['attrs'].items() if k in before['attrs']
                        for a in set(v) ^ set(before['attrs'][k])})
        if extra:
            fail('attrs', f'instance attributes of pre-existing nodes changed: {extra}')
        # private dataflow fields: demanded for properly nested histories only (inlined pragmas and region pragmas are not
        # children, so a non-LIFO detach_dataflow_analysis cannot reach them; structure, code and identities are unaffected)
        if after['df'] and sh is not None:
            fail('dataflow', f'private dataflow fields still set on {after["df"][:3]} after detach')
        return fails

    def classes(self):
        return ['region-index-by-value']


PROP = C16()
READY = True
