"""C28 — inlining (subroutine calls, constant parameters, statement / contained functions) preserves program behaviour."""
import random as _random
from fractions import Fraction

from ..core import Prop, Case, Failure, REPO
from ..sexpr import A, dumps, loads
from .. import fir

INLINE = 'loki inline'
TIME_LIMIT = 5


def h(x):
    return str(x[0]) if isinstance(x, list) and x else None


def is_pragma(s):
    return h(s) == 'nop' and str(s[1]) == 'pragma'


def is_comment(s):
    return h(s) == 'nop' and str(s[1]) == 'comment'


def is_inline_pragma(s):
    return is_pragma(s) and str(s[2]).startswith(INLINE)


def sub_lists(s):
    k = h(s)
    if k == 'do':
        return [s[5]]
    if k == 'while':
        return [s[2]]
    if k == 'if':
        return [s[2], s[3]]
    if k == 'select':
        return [c[1] for c in s[2]] + [s[3]]
    if k == 'assoc':
        return [s[2]]
    return []


def units(prog):
    return prog[2:]


def unit_named(prog, name):
    for u in units(prog):
        if str(u[1]) == name:
            return u
    return None


def main_unit(prog):
    return unit_named(prog, str(prog[1]))


def stmt_exprs(s):
    k = h(s)
    if k == 'assign':
        return [s[1], s[2]]
    if k == 'do':
        return [s[2], s[3]] + ([] if h(s[4]) is None else [s[4]])
    if k in ('while', 'if', 'select'):
        return [s[1]]
    if k == 'assoc':
        return [b[1] for b in s[1]]
    if k == 'callsub':
        return list(s[2:])
    if k == 'print':
        return list(s[1:])
    return []


def all_stmts(stmts):
    for s in stmts:
        yield s
        for l in sub_lists(s):
            yield from all_stmts(l)


def ex_names(e, acc=None):
    """all variable / array names mentioned by an expression (wire form)"""
    acc = set() if acc is None else acc
    if not isinstance(e, list):
        return acc
    k = h(e)
    if k == 'v':
        acc.add(str(e[1]))
    elif k in ('idx', 'sec'):
        acc.add(str(e[1]))
        for c in e[2:]:
            ex_names(c, acc)
    elif k == 'call':
        for c in e[2:]:
            ex_names(c, acc)
    elif k in ('i', 'r', 'b'):
        pass
    else:
        for c in e[1:]:
            ex_names(c, acc)
    return acc


def written_names(stmts):
    """names a statement list may write (assignment targets, DO variables, actuals of calls — conservative)"""
    w = set()
    for s in all_stmts(stmts):
        k = h(s)
        if k == 'assign':
            w.add(str(s[1][1]))
        elif k == 'do':
            w.add(str(s[1]))
        elif k == 'callsub':
            for a in s[2:]:
                if h(a) in ('v', 'idx', 'sec'):
                    w.add(str(a[1]))
    return w


def stmts_names(stmts):
    n = set()
    for s in all_stmts(stmts):
        for e in stmt_exprs(s):
            ex_names(e, n)
        if h(s) == 'do':
            n.add(str(s[1]))
        if h(s) == 'assoc':
            for b in s[1]:
                n.add(str(b[0]))
    return n


# ---------------------------------------------------------------- which calls get inlined

def marked_calls(stmts):
    """call statements of a list (recursively) that carry a `loki inline` pragma: the maximal run of pragma statements directly in
    front of the call contains one whose text starts with `loki inline` (what `pragmas_attached` + `is_loki_pragma` decide)"""
    run = []
    for s in stmts:
        if is_pragma(s):
            run.append(s)
            continue
        if h(s) == 'callsub' and any(is_inline_pragma(p) for p in run):
            yield s
        run = []
        for l in sub_lists(s):
            yield from marked_calls(l)


def inlined_calls(mode, prog):
    mu = main_unit(prog)
    if mode == 'marked':
        return list(marked_calls(mu[4]))
    names = {str(u[1]) for u in units(prog)} - {str(prog[1])}
    return [s for s in all_stmts(mu[4]) if h(s) == 'callsub' and str(s[1]) in names]


# ---------------------------------------------------------------- the real transformations

class TransformError(Exception):
    pass


class Refused(Exception):
    """the transformation declined (documented bail-out)"""


def _fix_ranges(sf):
    """work-around for the shared exporter: `_map_unbound_dims` builds subscripts of class `sym.Range`, the exporter only knows
    `sym.RangeIndex`; rebuild them as RangeIndex (same children)"""
    from loki.expression import symbols as sym, ExpressionRetriever
    from loki.ir import SubstituteExpressions, ExpressionFinder

    class FindRange(ExpressionFinder):
        retriever = ExpressionRetriever(lambda e: type(e) is sym.Range)   # pylint: disable=unidiomatic-typecheck

    for r in sf.all_subroutines:
        rs = FindRange(unique=False).visit(r.body)
        if rs:
            vmap = {x: sym.RangeIndex(x.children) for x in rs}
            r.body = SubstituteExpressions(vmap).visit(r.body)


def _whole_actuals(prog):
    """documented normalisation of the transformed program: an actual argument `a(:, :)` (every subscript a bare `:`), which the
    substitution produces for a whole-array dummy passed on to a nested call, is the whole array `a` (FIR has no section actuals)"""
    def fs(stmts):
        out = []
        for s in stmts:
            if h(s) == 'callsub':
                s = list(s[:2]) + [[A('v'), a[1]] if h(a) == 'sec' and all(
                    h(d) == 'rng' and all(str(x) == 'none' for x in d[1:]) for d in a[2:]) else a for a in s[2:]]
            out.append(s)
        return out
    return fir.canon(fir.map_program(prog, fs=fs))


def emit_internal(prog):
    """the main unit with every other unit as an internal procedure (CONTAINS)"""
    m = str(prog[1])
    lines = fir.emit_unit(main_unit(prog))
    end = lines.pop()
    lines.append('contains')
    for u in units(prog):
        if str(u[1]) != m:
            lines += ['  ' + l for l in fir.emit_unit(u)]
    lines.append(end)
    return '\n'.join(lines) + '\n'


_CACHE = {}


def real_apply(mode, prog):
    """cached front of `_real_apply` (impl and oracle ask for the same program)"""
    key = (mode, dumps(prog))
    if key not in _CACHE:
        if len(_CACHE) > 3000:
            _CACHE.clear()
        try:
            _CACHE[key] = ('ok', _real_apply(mode, prog))
        except (Refused, TransformError) as e:
            _CACHE[key] = ('exc', e)
    tag, val = _CACHE[key]
    if tag == 'exc':
        raise val
    return val


def _real_apply(mode, prog):
    """apply the real transformation to the program; returns (transformed program in wire form, fgen text).
    Errors of the harness printer / the frontend propagate; documented bail-outs raise Refused; other errors of the
    transformation, of fgen or of the export of the transformed IR raise TransformError."""
    from loki import fgen
    m = str(prog[1])
    if mode == 'internal':
        sf = fir.parse_fortran(emit_internal(prog))
    else:
        sf = fir.parse_fortran(fir.emit_fortran(prog, wrap_program=False))
    k = sf[m]
    import signal

    def _alarm(signum, frame):
        raise TimeoutError('transformation did not finish within %d s' % TIME_LIMIT)
    old = signal.signal(signal.SIGALRM, _alarm)
    signal.alarm(TIME_LIMIT)
    try:
        if mode == 'marked':
            from loki.transformations.inline import inline_marked_subroutines
            k.enrich(sf.all_subroutines)
            inline_marked_subroutines(k)
        elif mode == 'internal':
            from loki.transformations.inline import inline_internal_procedures
            inline_internal_procedures(k)
        elif mode == 'param':
            from loki.transformations.inline import inline_constant_parameters
            for r in sf.all_subroutines:
                inline_constant_parameters(r, external_only=False)
    except RuntimeError as e:
        if 'Cannot resolve procedure call' in str(e):
            raise Refused(str(e)[:100]) from e
        raise TransformError(f'{type(e).__name__}: {str(e)[:120]}') from e
    except Exception as e:
        raise TransformError(f'{type(e).__name__}: {str(e)[:120]}') from e
    finally:
        signal.alarm(0)
        signal.signal(signal.SIGALRM, old)
    try:
        text = fgen(sf.ir)
        _fix_ranges(sf)
        tp = _whole_actuals(fir.export_unit(sf, main=m))
    except fir.Unsupported as e:
        raise TransformError(f'transformed IR is outside FIR: {e.kind}') from e
    except Exception as e:
        raise TransformError(f'fgen/export raised {type(e).__name__}: {str(e)[:120]}') from e
    return tp, text


# ---------------------------------------------------------------- request decoding

def decode(req):
    kind = str(req[0])
    if kind == 'sub':
        mode, prog, inputs = str(req[1]), req[2], req[3]
        flag = str(req[4]) if len(req) > 4 else 'nogf'
        if mode not in ('marked', 'internal'):
            raise ValueError('mode')
    elif kind == 'param':
        mode, prog, inputs = 'param', req[1], req[2]
        flag = str(req[3]) if len(req) > 3 else 'nogf'
    else:
        raise ValueError('malformed request')
    if h(prog) != 'program' or not isinstance(inputs, list) or flag not in ('gf', 'nogf') or len(prog) < 3:
        raise ValueError('malformed request')
    for u in prog[2:]:
        if h(u) != 'unit' or len(u) != 5 or not all(isinstance(x, list) for x in u[2:]):
            raise ValueError('malformed unit')
    if main_unit(prog) is None:
        raise ValueError('no main unit')
    return kind, mode, prog, inputs, flag


# ---------------------------------------------------------------- generators

def rename_unit(u, ren):
    """rename variables of a unit (dummies, declarations, every expression, DO variables, ASSOCIATE names)"""
    def fe(e):
        if h(e) in ('v', 'idx', 'sec') and str(e[1]) in ren:
            return [e[0], A(ren[str(e[1])])] + list(e[2:])
        return e

    def fs(stmts):
        out = []
        for s in stmts:
            if h(s) == 'do' and str(s[1]) in ren:
                s = [s[0], A(ren[str(s[1])])] + list(s[2:])
            elif h(s) == 'assoc':
                s = [s[0], [[A(ren.get(str(b[0]), str(b[0]))), b[1]] for b in s[1]], s[2]]
            out.append(s)
        return out
    p = fir.map_program([A('program'), u[1], u], fe=fe, fs=fs)
    u2 = p[2]
    args = [A(ren.get(str(a), str(a))) for a in u2[2]]
    decls = [[d[0], A(ren.get(str(d[1]), str(d[1])))] + list(d[2:]) for d in u2[3]]
    return [u2[0], u2[1], args, decls, u2[4]]


def rename_callees(prog, suffix='q'):
    """give every variable of every non-main unit a name no other unit uses (suffix + unit index)"""
    m = str(prog[1])
    us = []
    for j, u in enumerate(units(prog)):
        if str(u[1]) != m:
            names = {str(d[1]) for d in u[3]} | stmts_names(u[4])
            u = rename_unit(u, {x: f'{x}{suffix}{j}' for x in names})
        us.append(u)
    return fir.canon([A('program'), A(m)] + us)


def add_inline_pragmas(rng, prog, p=0.85):
    m = str(prog[1])

    def fs(stmts):
        out = []
        for s in stmts:
            if h(s) == 'callsub' and rng.random() < p:
                out.append([A('nop'), A('pragma'), INLINE])
            out.append(s)
        return out
    us = []
    for u in units(prog):
        if str(u[1]) == m:
            u = fir.map_program([A('program'), A(m), u], fs=fs)[2]
        us.append(u)
    return fir.canon([A('program'), A(m)] + us)


FIR_CFG = dict(max_stmts=8, max_depth=2, n_callees=(1, 2), callee_stmts=5, pragmas=('omp simd',),
               weights={'call': 40, 'print': 4, 'assoc': 1, 'comment': 1, 'pragma': 1})
PARAM_CFG = dict(max_stmts=10, max_depth=2, n_callees=(0, 1), callee_stmts=4, weights={'call': 6, 'print': 6})

V, I, BIN, NEG = fir.V, fir.I, fir.BIN, fir.NEG


def _decl(name, ty, intent='none', dims=(), param=None):
    return [A('decl'), A(name), A(ty), A(intent), [list(d) for d in dims], fir.NONE if param is None else param]


def gen_scalar_program(rng):
    """caller `kernel` + callee `sub1` with scalar dummies and a straight-line / IF body (the class the Lean theorem covers),
    with deliberately placed hazards: callee locals named like caller variables (shadow renaming), a caller variable that already
    has the generated name, expression actuals mentioning variables the callee writes, actuals mentioning names of callee dummies,
    PRINT statements in the callee."""
    ints = ['k1', 'k2', 'k3']
    reals = ['x1', 'x2']
    caller_locals = [('t', 'int'), ('l1', 'int')]
    if rng.random() < 0.12:
        caller_locals.append(('sub1_t', 'int'))
    # callee signature
    nd = rng.randint(1, 4)
    dummies = []
    pool = ['u', 'v', 'w', 'z']
    capture_names = rng.random() < 0.15
    for j in range(nd):
        ty = 'real' if rng.random() < 0.25 else 'int'
        intent = rng.choice(('in', 'in', 'inout', 'inout', 'out'))
        name = pool[j]
        if capture_names and rng.random() < 0.5:
            name = rng.choice(ints if ty == 'int' else reals)
            if name in [d[0] for d in dummies]:
                name = pool[j]
        dummies.append((name, ty, intent))
    locs = []
    for name in rng.sample(['t', 'l1', 'k3', 'q'], rng.randint(0, 2)):
        if name not in [d[0] for d in dummies]:
            locs.append((name, 'int'))
    defined = {d[0] for d in dummies if d[2] != 'out'}
    tyof = {d[0]: d[1] for d in dummies}
    tyof.update(dict(locs))

    def iexpr(depth=2):
        cands = [x for x in defined if tyof[x] == 'int']
        r = rng.random()
        if depth == 0 or r < 0.3 or not cands:
            return V(rng.choice(cands)) if cands and rng.random() < 0.7 else fir.ilit(rng.randint(-4, 9))
        op = rng.choice(('add', 'add', 'sub', 'mul'))
        a, b = iexpr(depth - 1), iexpr(depth - 1)
        if op == 'mul':
            b = fir.ilit(rng.randint(2, 3))
        return BIN(op, a, b)

    def rexpr(depth=1):
        cands = [x for x in defined if tyof[x] == 'real']
        if depth == 0 or not cands or rng.random() < 0.4:
            return V(rng.choice(cands)) if cands and rng.random() < 0.7 else fir.rlit(Fraction(rng.randint(-8, 16), 4))
        return BIN(rng.choice(('add', 'sub')), rexpr(depth - 1), rexpr(depth - 1))

    def expr_for(x):
        return iexpr() if tyof[x] == 'int' else rexpr()

    writable = [d[0] for d in dummies if d[2] != 'in'] + [l[0] for l in locs]

    def simple_stmt():
        r = rng.random()
        if r < 0.12 and defined:
            return [A('print'), expr_for(rng.choice(sorted(defined)))]
        if not writable:
            return [A('print'), fir.ilit(1)]
        x = rng.choice(writable)
        s = [A('assign'), V(x), expr_for(x)]
        defined.add(x)
        return s
    body = []
    for _ in range(rng.randint(2, 5)):
        if rng.random() < 0.15 and any(tyof[x] == 'int' for x in defined):
            c = BIN(rng.choice(('lt', 'ge', 'eq')), iexpr(1), fir.ilit(rng.randint(0, 5)))
            before = set(defined)
            thn = [simple_stmt() for _ in range(rng.randint(1, 2))]
            d1 = set(defined)
            defined.clear(); defined.update(before)
            els = [simple_stmt() for _ in range(rng.randint(0, 2))]
            d2 = set(defined)
            defined.clear(); defined.update(d1 & d2)
            body.append([A('if'), c, thn, els])
        else:
            body.append(simple_stmt())
    for d in dummies:
        if d[2] == 'out' and d[0] not in defined:
            body.append([A('assign'), V(d[0]), fir.ilit(7) if d[1] == 'int' else fir.rlit(Fraction(3, 2))])
            defined.add(d[0])
    callee = [A('unit'), A('sub1'), [A(d[0]) for d in dummies],
              [_decl(d[0], d[1], d[2]) for d in dummies] + [_decl(l[0], l[1]) for l in locs], body]
    # caller
    kdecls = [_decl(x, 'int', 'inout') for x in ints] + [_decl(x, 'real', 'inout') for x in reals] + \
             [_decl('a1', 'int', 'inout', [(fir.ilit(1), fir.ilit(4))])] + [_decl(n, t) for n, t in caller_locals]
    kbody = [[A('assign'), V(n), fir.ilit(rng.randint(0, 3))] for n, _ in caller_locals]

    def actuals():
        used = set()
        out = []
        for name, ty, intent in dummies:
            if intent == 'in':
                r = rng.random()
                base = rng.choice(ints + ['t'] if ty == 'int' else reals)
                if ty == 'int':
                    e = V(base) if r < 0.35 else fir.ilit(rng.randint(0, 9)) if r < 0.5 else \
                        BIN('add', V(base), fir.ilit(1)) if r < 0.8 else fir.IDX('a1', BIN('add', fir.CALL('mod', fir.CALL('abs', V(base)), fir.ilit(4)), fir.ilit(1)))
                else:
                    e = V(base) if r < 0.5 else fir.rlit(Fraction(rng.randint(-4, 8), 2)) if r < 0.65 else BIN('add', V(base), fir.rlit(Fraction(1, 2)))
                out.append((e, False))
            else:
                cands = [x for x in (ints + ['l1'] if ty == 'int' else reals) if x not in used]
                if ty == 'int' and rng.random() < 0.15:
                    j = rng.randint(1, 4)
                    if ('a1', j) not in used:
                        used.add(('a1', j))
                        out.append((fir.IDX('a1', fir.ilit(j)), True))
                        continue
                if not cands:
                    return None
                x = rng.choice(cands)
                used.add(x)
                out.append((V(x), True))
        # a plain variable bound to an intent(in) dummy must not also be bound to a written dummy (Fortran's aliasing rule) unless
        # the hazard is wanted: keep expression actuals (the re-evaluation class), drop plain aliasing
        wr = {str(e[1]) for e, w in out if w and h(e) == 'v'}
        for e, w in out:
            if not w and h(e) == 'v' and str(e[1]) in wr:
                return None
        if rng.random() < 0.85:
            for e, w in out:
                if not w and ex_names(e) & wr:
                    return None
        return [e for e, _ in out]
    ncalls = rng.randint(1, 2)
    for _ in range(ncalls):
        acts = None
        for _try in range(20):
            acts = actuals()
            if acts is not None:
                break
        if acts is None:
            return None
        kbody.append([A('nop'), A('pragma'), INLINE])
        kbody.append([A('callsub'), A('sub1')] + acts)
    kbody.append([A('print')] + [V(n) for n, _ in caller_locals])
    kernel = [A('unit'), A('kernel'), [A(x) for x in ints + reals + ['a1']], kdecls, kbody]
    return fir.canon([A('program'), A('kernel'), kernel, callee])


def scalar_inputs(rng, k):
    out = []
    for _ in range(k):
        out.append([[A('k1'), I(rng.randint(-5, 9))], [A('k2'), I(rng.randint(-5, 9))], [A('k3'), I(rng.randint(-5, 9))],
                    [A('x1'), fir.R(Fraction(rng.randint(-16, 16), 4))], [A('x2'), fir.R(Fraction(rng.randint(-16, 16), 4))],
                    [A('a1')] + [I(rng.randint(-5, 9)) for _ in range(4)]])
    return fir.canon(out)


# ---------------------------------------------------------------- classification (mirrors of the Lean `Known…` / `Covered` defs)

def decl_map(u):
    return {str(d[1]): d for d in u[3]}


def is_lit(e):
    return h(e) in ('i', 'r', 'b') or (h(e) == 'neg' and h(e[1]) in ('i', 'r'))


def below_top_names(e):
    """names an actual mentions below its top node (the nodes `recursive_expression_map_update` rewrites)"""
    k = h(e)
    if k == 'v':
        return set()
    if k in ('idx', 'sec'):
        n = set()
        for c in e[2:]:
            ex_names(c, n)
        return n
    return ex_names(e)


def call_sites(mode, prog):
    """(call statement, callee unit) for every call that gets inlined (callee known, argument count right)"""
    out = []
    m = str(prog[1])
    for c in inlined_calls(mode, prog):
        u = unit_named(prog, str(c[1]))
        if u is None or str(u[1]) == m or len(u[2]) != len(c) - 2:
            continue
        out.append((c, u))
    return out


def callee_locals(u):
    args = {str(a) for a in u[2]}
    return [str(d[1]) for d in u[3] if str(d[1]) not in args]


def caller_names(prog):
    return {str(d[1]) for d in main_unit(prog)[3]}


def duplicates(prog, u):
    cn = caller_names(prog)
    return [x for x in callee_locals(u) if x in cn]


def written_dummies(u):
    return written_names(u[4]) & {str(a) for a in u[2]}


def known_print(mode, prog):
    """Lean KnownPrint: an inlined callee has a PRINT statement mentioning one of its dummies or a local that gets renamed"""
    for _, u in call_sites(mode, prog):
        hot = {str(a) for a in u[2]} | set(duplicates(prog, u))
        for s in all_stmts(u[4]):
            if h(s) == 'print' and any(ex_names(e) & hot for e in s[1:]):
                return True
    return False


def known_reeval(mode, prog):
    """Lean KnownReeval: an actual that is neither a plain variable nor a literal mentions a variable that the callee writes through
    a(nother) dummy (for an element actual: in its subscripts)"""
    for c, u in call_sites(mode, prog):
        wd = written_dummies(u)
        wr = {str(a[1]) for d, a in zip(u[2], c[2:]) if str(d) in wd and h(a) in ('v', 'idx', 'sec')}
        for a in c[2:]:
            if h(a) == 'v' or is_lit(a):
                continue
            if below_top_names(a) & wr:
                return True
    return False


def known_capture(mode, prog):
    """Lean KnownCapture: an actual mentions, below its top node, a name that is also the name of a dummy of the callee"""
    for c, u in call_sites(mode, prog):
        dn = {str(a) for a in u[2]}
        if any(below_top_names(a) & dn for a in c[2:]):
            return True
    return False


def known_fresh_clash(mode, prog):
    """Lean KnownFreshClash: the generated name `<callee>_<local>` of a renamed local is already a name of the caller or callee"""
    cn = caller_names(prog)
    for _, u in call_sites(mode, prog):
        own = {str(d[1]) for d in u[3]}
        for x in duplicates(prog, u):
            if f'{u[1]}_{x}' in cn | own:
                return True
    return False


def alias_precondition_violated(mode, prog):
    """two actuals of an inlined call share their base variable and one of the two dummies is written by the callee, or a written
    dummy is bound to something that is not a variable / element / section: not standard-conforming Fortran — outside the property"""
    for c, u in call_sites(mode, prog):
        wd = written_dummies(u)
        acts = list(zip([str(d) for d in u[2]], c[2:]))
        for j, (d, a) in enumerate(acts):
            if d in wd and h(a) not in ('v', 'idx', 'sec'):
                return True
            if h(a) not in ('v', 'idx', 'sec'):
                continue
            for jj, (d2, a2) in enumerate(acts):
                if jj != j and h(a2) in ('v', 'idx', 'sec') and str(a2[1]) == str(a[1]) and (d in wd or d2 in wd):
                    if h(a) == 'idx' and h(a2) == 'idx' and dumps(a) != dumps(a2) and all(is_lit(s) for s in a[2:] + a2[2:]):
                        continue     # two different constant elements
                    return True
    return False


def known_hoisted_bounds(mode, prog):
    """(python only) an inlined callee has a local array whose declared bounds mention a variable"""
    us = [u for _, u in call_sites(mode, prog)]
    if mode == 'internal':
        # every internal procedure is processed (its declarations hoisted), called or not
        us += [u for u in units(prog) if str(u[1]) != str(prog[1])]
    for u in us:
        args = {str(a) for a in u[2]}
        for d in u[3]:
            if str(d[1]) not in args and any(ex_names(b[0]) | ex_names(b[1]) for b in d[4]):
                return True
    return False


def _lit_int(e):
    if h(e) == 'i':
        return int(str(e[1]))
    if h(e) == 'neg' and h(e[1]) == 'i':
        return -int(str(e[1][1]))
    return None


def known_section_zero(mode, prog):
    """(python only) an array actual is a section with a triplet whose lower bound is the literal 0"""
    for c, u in call_sites(mode, prog):
        for a in c[2:]:
            if h(a) == 'sec' and any(h(d) == 'rng' and _lit_int(d[1]) == 0 for d in a[2:]):
                return True
    return False


def known_array_mapping(mode, prog):
    """(python only, broad) an inlined call binds an array dummy to anything but a whole array declared with the same rank and the
    same literal lower bounds (and equal upper bounds where both are literals)"""
    sites = [(c, u, main_unit(prog)) for c, u in call_sites(mode, prog)]
    if mode == 'internal':
        # calls between internal procedures end up in the caller as well (inlined one member after the other)
        m = str(prog[1])
        for v in units(prog):
            if str(v[1]) == m:
                continue
            for c in all_stmts(v[4]):
                if h(c) == 'callsub':
                    u = unit_named(prog, str(c[1]))
                    if u is not None and str(u[1]) != m and len(u[2]) == len(c) - 2:
                        sites.append((c, u, v))
    for c, u, encl in sites:
        md = decl_map(encl)
        ud = decl_map(u)
        for d, a in zip(u[2], c[2:]):
            dd = ud.get(str(d))
            if dd is None or not dd[4]:
                continue
            if h(a) != 'v' or str(a[1]) not in md:
                return True
            ad = md[str(a[1])]
            if len(ad[4]) != len(dd[4]):
                return True
            for (alo, ahi), (dlo, dhi) in zip(ad[4], dd[4]):
                if _lit_int(alo) is None or _lit_int(alo) != _lit_int(dlo):
                    return True
                if _lit_int(ahi) is not None and _lit_int(dhi) is not None and _lit_int(ahi) != _lit_int(dhi):
                    return True
    return False


CLASSES = [('inline-name-capture', known_capture), ('inline-print-not-substituted', known_print),
           ('inline-actual-reevaluated', known_reeval), ('inline-fresh-name-clash', known_fresh_clash),
           ('inline-hoisted-array-bounds', known_hoisted_bounds), ('inline-array-argument-mapping', known_array_mapping)]
SCALAR_CLASSES = CLASSES[:4]


def covered(mode, prog):
    """Lean Covered: the part of the input language the Lean model `inlineProgram` follows — every inlined callee has scalar
    declarations only, no CALL / ASSOCIATE statement in its body, and every dummy it writes is bound to a variable or element"""
    sites = call_sites(mode, prog)
    if len(sites) != len(inlined_calls(mode, prog)):
        return False
    if mode == 'internal':
        for u in units(prog):
            if str(u[1]) != str(prog[1]) and any(h(s) == 'callsub' for s in all_stmts(u[4])):
                return False
    for c, u in sites:
        if any(d[4] for d in u[3]):
            return False
        if {str(a) for a in u[2]} - {str(d[1]) for d in u[3]}:
            return False
        if any(h(s) in ('callsub', 'assoc') for s in all_stmts(u[4])):
            return False
        wd = written_dummies(u)
        dov = {str(s[1]) for s in all_stmts(u[4]) if h(s) == 'do'}
        for d, a in zip(u[2], c[2:]):
            if str(d) in wd and h(a) not in ('v', 'idx'):
                return False
            if str(d) in dov and h(a) != 'v':
                return False
            if h(a) == 'sec':
                return False
    return True


def _norm_m1(e):
    """documented normalisation of the correspondence (expressions, both sides; same as C31): the exporter reads a product whose
    first factor is the literal -1 as a negation and such a product as a non-first term of a sum as a subtraction; substituting a
    negative literal actual for a dummy produces exactly these shapes.  R1 (-1)*x -> -x, R2 (-x)*y -> -(x*y), R3 a + (-x) -> a - x
    (exact identities of the FIR value semantics)."""
    if h(e) == 'bin' and str(e[1]) == 'mul' and h(e[2]) == 'neg':
        if dumps(e[2][1]) == '(i 1)':
            return [A('neg'), e[3]]
        return [A('neg'), [A('bin'), A('mul'), e[2][1], e[3]]]
    if h(e) == 'bin' and str(e[1]) == 'add' and h(e[3]) == 'neg':
        return [A('bin'), A('sub'), e[2], e[3][1]]
    return e


def strip_prog(prog):
    """normalisation of the correspondence: comment statements dropped (the transformation inserts marker comments), `_norm_m1`"""
    return fir.canon(fir.map_program(fir.canon(prog), fe=_norm_m1, fs=lambda ss: [s for s in ss if not is_comment(s)]))


# ---------------------------------------------------------------- the property

class C28(Prop):
    id = 'C28'
    title = 'Inlining preserves program behaviour'
    model_modules = ['LokiModel.C28.Model', 'LokiModel.C28.ParamModel', 'LokiModel.C28.Enc']
    props_module = 'LokiModel.Props.C28'
    findings_module = 'LokiModel.Findings.C28'
    driver = 'Drivers/C28.lean'
    theorems = ['inline_sound_partial', 'inline_body_sim_partial', 'param_inline_stmts_sound', 'param_inline_stmts_sound\'',
                'substM_evalE', 'param_inline_expr_sound']
    design_ref = 'DESIGN.md 4.F C28'
    level = 'proof'
    level_text = ('Proved in Lean (unbounded, all programs of the covered class / states / fuel): '
                  'inline_sound_partial — a finished FIR call (copy-in/copy-out) is reproduced, with the same fuel, by the inlined body '
                  'inlineBody u args run in the caller state: same output, same final cells of all variables except the callee locals; '
                  'hypotheses are two computable checks: callOKb (scalar-only callee, body of scalar assignments/DO/DO WHILE/IF/SELECT/'
                  'EXIT/CYCLE, written dummies bound to distinct variables occurring in no other actual, no capture, local names unused by '
                  'actuals, intents) and callStb (caller state typed at the actuals, hoisted locals present); '
                  'inline_body_sim_partial — the underlying simulation for any substitution map; '
                  'param_inline_stmts_sound(\') — replacing an integer PARAMETER by its literal preserves execStmts (reuse of the C31 '
                  'substitution simulation; PRINT mentioning the name excluded); substM_evalE, param_inline_expr_sound (expression level). '
                  '_partial: no PRINT / nested CALL / ASSOCIATE / array dummies / element actuals / renamed locals in the theorem; the '
                  'congruence lifting to the rest of the caller is not proved; only finished runs are matched.  Those parts, real and '
                  'logical PARAMETERs at statement level and function inlining are covered by correspondence + direct oracle.')
    level_note = ('The Lean model inlineProgram follows inline_subroutine_calls/map_call_to_procedure_body for callees with scalar '
                  'declarations (class Covered); inline_sound_partial is about inlineBody, the list this model (and, by correspondence, the '
                  'real code) puts in place of the call; array dummies (_map_unbound_dims) are NOT modelled: direct oracle + python-side '
                  'known classes only.  Class predicates over-approximate the failing families.')
    technique = 'Lean 4 theorems about a hand-written model of the transformation on FIR programs + correspondence with the real code'
    rule = ('cases: generated caller/callee pairs with scalar dummies (own generator with placed hazards), fir.gen_program programs '
            'biased to calls (callee names renamed apart with p=0.6), marked (`!$loki inline`) and internal-procedure mode, '
            'constant-parameter inlining on generated programs, templates with statement/contained functions (thorough); non-trivial = '
            'at least one call is inlined / one parameter replaced; distinct by request text')
    trusted_base = ['harness/fir.py (printer, exporter from Loki IR, reference interpreter)', 'gfortran 12.2 (thorough tier)']
    assumptions = ['FIR call semantics (copy-in/copy-out) equals Fortran by-reference passing for alias-free conforming programs']
    extra_obligations = ['oracle: original vs really inlined program on generated inputs']

    def classes(self):
        return [c for c, _ in CLASSES] + FUN_CLASSES + PARAM_CLASSES + SEC_CLASSES

    # ---- generation
    def gen(self, rng, tier):
        n_scalar = {'quick': 30, 'thorough': 220, 'search': 150}.get(tier, 30)
        n_fir = {'quick': 8, 'thorough': 80, 'search': 60}.get(tier, 8)
        n_int = {'quick': 4, 'thorough': 40, 'search': 30}.get(tier, 4)
        n_param = {'quick': 6, 'thorough': 40, 'search': 40}.get(tier, 6)
        n_in = 2 if tier == 'quick' else 3
        for j in range(n_scalar):
            prog = gen_scalar_program(rng)
            if prog is None:
                continue
            mode = 'internal' if rng.random() < 0.25 else 'marked'
            gf = tier == 'thorough' and j % 8 == 0
            yield Case([A('sub'), A(mode), prog, scalar_inputs(rng, n_in), A('gf' if gf else 'nogf')], stream='scalar-' + mode)
        for j in range(n_fir + n_int):
            mode = 'marked' if j < n_fir else 'internal'
            prog = fir.gen_program(rng, FIR_CFG)
            if rng.random() < 0.6:
                prog = rename_callees(prog)
            if mode == 'marked':
                prog = add_inline_pragmas(rng, prog)
            inputs = fir.gen_inputs(rng, prog, n_in)
            gf = tier == 'thorough' and j % 5 == 0
            yield Case([A('sub'), A(mode), prog, inputs, A('gf' if gf else 'nogf')], stream='fir-' + mode,
                       nontrivial=bool(inlined_calls(mode, prog)))
        for j in range(n_param):
            prog = gen_param_program(rng)
            inputs = fir.gen_inputs(rng, prog, n_in)
            gf = tier == 'thorough' and j % 5 == 0
            yield Case([A('param'), prog, inputs, A('gf' if gf else 'nogf')], stream='param',
                       nontrivial=any(h(d[5]) is not None for u in units(prog) for d in u[3]))
        # function inlining and section actuals: gfortran runs of the original text vs Loki's fgen of the transformed routine
        n_fun = {'quick': 3, 'thorough': 24, 'search': 12}.get(tier, 3)
        for j in range(n_fun):
            clash = ('upper', 'mixed', 'lower')[j % 3] if (tier == 'quick' or j % 2 == 0) else None
            yield Case(gen_fun_request(rng, clash=clash), stream='fun')
        n_sec = {'quick': 3, 'thorough': 16, 'search': 10}.get(tier, 3)
        for j in range(n_sec):
            yield Case(gen_sec_request(rng, force_diff=(j % 2 == 0)), stream='sec')

    # ---- real code
    def impl(self, req):
        if str(req[0]) in ('fun', 'sec'):
            return [A('result'), A('oracle-only')]
        kind, mode, prog, inputs, flag = decode(req)
        if kind == 'param':
            if any(h(d[5]) is not None and h(d[5]) not in ('i', 'r', 'b') for u in units(prog) for d in u[3]):
                return [A('result'), A('excluded')]
            try:
                tp, _ = real_apply('param', prog)
            except (TransformError, Refused) as e:
                return [A('error'), str(e)[:80]]
            return [A('result'), strip_prog(tp)]
        if not covered(mode, prog):
            return [A('result'), A('excluded')]
        cs = [A(c) for c, f in SCALAR_CLASSES if f(mode, prog)]
        if 'inline-name-capture' in [str(c) for c in cs]:
            return [A('result'), cs, A('captured')]
        try:
            tp, _ = real_apply(mode, prog)
        except (TransformError, Refused) as e:
            return [A('error'), str(e)[:80]]
        return [A('result'), cs, strip_prog(tp)]

    def canon_model(self, resp):
        if h(resp) == 'result' and h(resp[-1]) == 'program':
            return list(resp[:-1]) + [strip_prog(resp[-1])]
        return resp

    # ---- direct oracle
    def classify(self, mode, prog):
        for c, f in CLASSES:
            if f(mode, prog):
                return c
        return None

    def oracle(self, req):
        if str(req[0]) == 'fun':
            return fun_oracle(req)
        if str(req[0]) == 'sec':
            return sec_oracle(req)
        kind, mode, prog, inputs, flag = decode(req)
        if kind == 'param':
            cls = param_class(prog)
            what = 'inline_constant_parameters'
        else:
            if alias_precondition_violated(mode, prog):
                return []
            cls = self.classify(mode, prog)
            what = f'inlining ({mode})'
        try:
            tp, text = real_apply(mode, prog)
        except Refused:
            return []
        except TransformError as e:
            return [Failure(f'{what}: transformation or export of its result failed: {str(e)[:140]}', cls)]
        runs = []
        for inp in inputs:
            a = fir.interp(prog, inp)
            if a[0] != 'ok':
                continue
            b = fir.interp(tp, inp)
            d = fir.compare_results(a, b, undef_wild=False)
            if d:
                return [Failure(f'{what}: transformed program behaves differently (interpreter): {d}', cls)]
            runs.append(inp)
        if flag == 'gf' and runs:
            err = fir.gfortran_syntax_check(text)
            if err:
                return [Failure(f'{what}: gfortran rejects the transformed code printed by fgen: {err[:160]}', cls)]
            items = []
            for inp in runs:
                st = {}
                fir.interp(prog, inp, stats=st)
                if fir.exact_in_hardware(st):
                    items += [(prog, inp), (tp, inp)]
            res = fir.run_gfortran(items) if items else []
            for k in range(0, len(res), 2):
                if res[k][0] != 'ok':
                    continue
                d = fir.compare_results(res[k], res[k + 1])
                if d:
                    return [Failure(f'{what}: transformed program behaves differently (gfortran): {d}', cls)]
        return []

    def post(self, cases, impl_out, model_raw, oracle_fail):
        """theorem domain vs oracle: a covered program outside all classes must pass the oracle"""
        problems = []
        bad = {c.line for c, f in oracle_fail if f.cls is None and not f.error}
        n_dom = 0
        for c in cases:
            if str(c.req[0]) != 'sub':
                continue
            try:
                kind, mode, prog, inputs, flag = decode(c.req)
            except Exception:
                continue
            if covered(mode, prog) and self.classify(mode, prog) is None and not alias_precondition_violated(mode, prog):
                n_dom += 1
        return problems, dict(covered_outside_classes=n_dom, unclassified_failures=len(bad))


# ---------------------------------------------------------------- constant parameters

PARAM_CLASSES = ['param-print-not-substituted', 'param-nonliteral-initialiser', 'param-type-conversion']


def gen_param_program(rng):
    """a generated program with extra PARAMETER constants in the main unit: used in expressions, some defined through another
    parameter, some whose initial value has another type than the parameter"""
    prog = fir.gen_program(rng, PARAM_CFG)
    mu = main_unit(prog)
    new = []
    r = rng.random()
    new.append(_decl('cc1', 'int', param=fir.ilit(rng.randint(-3, 7))))
    if r < 0.25:
        new.append(_decl('cc2', 'int', param=BIN('add', V('cc1'), fir.ilit(2))))
    elif r < 0.4:
        new.append(_decl('cc2', 'real', param=fir.ilit(3)))
    else:
        new.append(_decl('cc2', 'real', param=fir.rlit(Fraction(rng.randint(-6, 9), 4))))
    ints = [str(d[1]) for d in mu[3] if str(d[2]) == 'int' and not d[4] and str(d[3]) in ('inout', 'out', 'none')
            and h(d[5]) is None and not str(d[1]).startswith('i')]
    extra = []
    if ints:
        x = rng.choice(ints)
        is_real = str(new[1][2]) == 'real'
        e2 = fir.CALL('int', BIN('mul', V('cc2'), fir.rlit(Fraction(1, 2)))) if is_real else V('cc2')
        extra.append([A('assign'), V(x), BIN('add', BIN('mul', V('cc1'), fir.ilit(2)), e2)])
        if is_real:
            extra.append([A('assign'), V(x), BIN('add', V(x), BIN('div', fir.ilit(7), V('cc2')))]) if rng.random() < 0.5 else None
        extra = [s for s in extra if s]
        extra.append([A('print'), V(x), V('cc1'), BIN('sub', fir.ilit(1), V('cc1'))])
    mu2 = [mu[0], mu[1], mu[2], list(mu[3]) + new, list(mu[4]) + extra]
    return fir.canon([A('program'), prog[1]] + [mu2 if str(u[1]) == str(prog[1]) else u for u in units(prog)])


def param_class(prog):
    for u in units(prog):
        pd = {str(d[1]): d for d in u[3] if h(d[5]) is not None}
        for s in all_stmts(u[4]):
            if h(s) == 'print' and any(ex_names(e) & set(pd) for e in s[1:]):
                return 'param-print-not-substituted'
        for d in pd.values():
            if h(d[5]) not in ('i', 'r', 'b'):
                return 'param-nonliteral-initialiser'
        for d in pd.values():
            ty = str(d[2])
            e = d[5]
            lit_ty = {'i': 'int', 'r': 'real', 'b': 'logical'}.get(h(e[1]) if h(e) == 'neg' else h(e))
            if lit_ty is not None and lit_ty != ty:
                return 'param-type-conversion'
    return None


# ---------------------------------------------------------------- functions (direct oracle only, thorough tier)

FUN_CLASSES = ['fun-result-conversion', 'fun-intrinsic-call']
SEC_CLASSES = ['inline-section-lower-zero']


def _class_listed(cls):
    """a class is generated on purpose only once it is listed as an open finding (otherwise the clean tree would report a
    VIOLATION for a defect that is merely not merged into known_findings.json yet)"""
    from ..core import load_known
    return any(k.get('property') == 'C28' and k.get('class') == cls and k.get('status', 'open') == 'open' for k in load_known())



def gen_fun_request(rng, clash=None):
    """`clash`: the function's local variable is spelled like a caller variable that is live across the call (in upper / mixed /
    lower case in the callee, lower case in the caller): exercises the a-priori renaming of clashing locals"""
    kind = rng.choice(('stmt', 'stmt', 'contained', 'elemental')) if clash is None else rng.choice(('contained', 'elemental'))
    a, b, c = rng.randint(-4, 6), rng.randint(1, 5), rng.randint(-3, 3)
    conv = clash is None and rng.random() < 0.2 and _class_listed('fun-result-conversion')
    variant = rng.randint(0, 3) if clash is None else rng.randint(0, 2)
    req = [A('fun'), A(kind), a, b, c, A('conv' if conv else 'same'), variant]
    if clash is not None:
        req.append(A(clash))
    return req


def fun_source(kind, a, b, c, conv, variant, clash='none'):
    """(module text, kernel name): integer function f(u, v) used inside larger expressions of subroutine kernel(k, x, r)"""
    fty = 'real' if conv else 'integer'
    loc = {'none': 't', 'upper': 'ZT', 'mixed': 'Zt', 'lower': 'zt'}[clash]
    body_expr = ['u + v * 2', 'u * v - 1', '(u - v) * 3', 'mod(u, 5) + v'][variant]
    use = [f'r(1) = f(k, {b}) * 2 + f({a}, k)', f'r(2) = 7 - f(k + ({c}), {b})', f'r(3) = f(f(k, 1), {b})',
           f'r(4) = r(1) / (f({b}, 1) * f({b}, 1) + 1) + int(x)']
    if kind == 'stmt':
        decl = [f'  {fty} :: f', '  integer :: u, v', f'  f(u, v) = {body_expr}']
        contains = []
    else:
        decl = []
        pre = 'elemental ' if kind == 'elemental' else ''
        contains = ['contains', f'  {pre}function f(u, v)', f'    {fty} :: f', '    integer, intent(in) :: u, v', f'    integer :: {loc}',
                    f'    {loc} = {body_expr}', f'    f = {loc}', '  end function f']
    if conv:
        use = [f'r(1) = int(f(k, {b}) / 2) + k', f'r(2) = int(f({a}, k) / 4 * 2)', 'r(3) = 0', 'r(4) = int(x)']
    pre_use = []
    if clash != 'none':
        decl = decl + ['  integer :: zt']
        pre_use = ['zt = 10 * k + 3']
        use = [use[0] + ' + zt', use[1], use[2] + ' - zt', use[3]]
    mod = ['module fmod', 'implicit none', 'contains', 'subroutine kernel(k, x, r)', '  integer, intent(in) :: k', '  real, intent(in) :: x',
           '  integer, intent(out) :: r(4)'] + decl + ['  ' + l for l in pre_use + use] + contains + ['end subroutine kernel', 'end module fmod']
    return '\n'.join(mod) + '\n'


def fun_oracle(req):
    import subprocess, tempfile, os
    kind, a, b, c, conv, variant = str(req[1]), int(str(req[2])), int(str(req[3])), int(str(req[4])), str(req[5]) == 'conv', int(str(req[6]))
    clash = str(req[7]) if len(req) > 7 else 'none'
    if kind not in ('stmt', 'contained', 'elemental') or clash not in ('none', 'upper', 'mixed', 'lower') or len(req) > 8 \
            or not 0 <= variant <= 3:
        raise ValueError('malformed request')
    cls = 'fun-result-conversion' if conv else 'fun-intrinsic-call' if (kind == 'contained' and variant == 3) else None
    src = fun_source(kind, a, b, c, conv, variant, clash)
    from loki import Sourcefile, fgen
    from loki.frontend import FP
    from loki.transformations.inline import inline_statement_functions, inline_functions, inline_elemental_functions
    sf = Sourcefile.from_source(src, frontend=FP)
    k = sf['kernel']
    try:
        if kind == 'stmt':
            inline_statement_functions(k)
        elif kind == 'elemental':
            inline_elemental_functions(k)
        else:
            inline_functions(k)
        text = fgen(sf.ir)
    except Exception as e:
        return [Failure(f'function inlining ({kind}) raised {type(e).__name__}: {str(e)[:120]}', cls)]
    drv = '\n'.join(['program p', 'use fmod', 'implicit none', 'integer :: r(4), k', 'do k = -3, 6', '  r = -777',
                     '  call kernel(k, 2.5 * k, r)', '  print *, r', 'end do', 'end program p']) + '\n'
    res = _compile_run([src, text], drv)
    if res[0][0] == 'compile-error':
        raise RuntimeError('harness bug: the generated original does not compile: ' + str(res[0][1])[:200])
    if res[0][0] != 'ok':
        return []
    if res[1][0] != 'ok':
        return [Failure(f'function inlining ({kind}): transformed code fails under gfortran ({res[1][0]}): {str(res[1][1])[:160]}', cls)]
    if res[0][1] != res[1][1]:
        return [Failure(f'function inlining ({kind}): transformed program prints different values', cls)]
    return []


# ---------------------------------------------------------------- array-section actuals (gfortran oracle: FIR has no section actuals)

def gen_sec_request(rng, force_diff=False):
    """call inner(a(s1:e1, s2:e2)) with explicit (non-zero) section lower bounds; caller and callee arrays with assorted declared
    lower bounds; the callee indexes its dummy element by element"""
    while True:
        l1, l2 = rng.choice((-1, 0, 1, 2)), rng.choice((-1, 0, 1, 2))
        if force_diff and l1 == l2:
            continue
        n1, n2 = rng.randint(2, 3), rng.randint(2, 3)
        s1, s2 = l1 + rng.randint(0, 2), l2 + rng.randint(0, 2)
        if (s1 == 0 or s2 == 0) and not _class_listed('inline-section-lower-zero'):
            continue          # a literal 0 lower bound is taken for "no lower bound" (truthiness test): class inline-section-lower-zero
        u1, u2 = s1 + n1 - 1 + rng.randint(0, 1), s2 + n2 - 1 + rng.randint(0, 1)
        cl1, cl2 = rng.choice((1, 1, 1, 0, 2, -1)), rng.choice((1, 1, 1, 0, 2, -1))
        mode = rng.choice(('internal', 'marked'))
        return [A('sec'), A(mode), l1, u1, l2, u2, s1, n1, s2, n2, cl1, cl2, rng.randint(0, 1)]


def sec_source(mode, l1, u1, l2, u2, s1, n1, s2, n2, cl1, cl2, variant):
    inner = ['subroutine inner(x)', f'  integer, intent(inout) :: x({cl1}:{cl1 + n1 - 1}, {cl2}:{cl2 + n2 - 1})', '  integer :: j, k',
             f'  do k = {cl2}, {cl2 + n2 - 1}', f'    do j = {cl1}, {cl1 + n1 - 1}', '      x(j, k) = x(j, k) + 10 * j + k', '    end do']
    if variant == 1:
        inner += [f'    x({cl1}, k) = x({cl1 + n1 - 1}, k) - 1']
    inner += ['  end do', 'end subroutine inner']
    call = f'  call inner(a({s1}:{s1 + n1 - 1}, {s2}:{s2 + n2 - 1}))'
    head = ['subroutine kernel(a)', '  implicit none', f'  integer, intent(inout) :: a({l1}:{u1}, {l2}:{u2})']
    if mode == 'internal':
        lines = head + [call, 'contains'] + ['  ' + l for l in inner] + ['end subroutine kernel']
    else:
        lines = head + ['  !$loki inline', call, 'end subroutine kernel'] + inner
    return '\n'.join(lines) + '\n'


def sec_driver(l1, u1, l2, u2):
    return '\n'.join(['program p', 'implicit none', f'integer :: a({l1}:{u1}, {l2}:{u2}), i, j', f'do j = {l2}, {u2}', f'  do i = {l1}, {u1}',
                      '    a(i, j) = 100 * i + j', '  end do', 'end do', 'call kernel(a)', 'print *, a', 'end program p']) + '\n'


def _compile_run(texts, driver):
    """gfortran-compile each text with the driver and run; returns list of ('ok', tokens) | ('compile-error', msg)"""
    import subprocess, tempfile, os
    outs = []
    with tempfile.TemporaryDirectory() as d:
        for j, t in enumerate(texts):
            f = os.path.join(d, f'p{j}.f90')
            with open(f, 'w') as fh:
                fh.write(t + '\n' + driver)
            p = subprocess.run([fir.GFORTRAN] + fir.GFORTRAN_FLAGS + ['-J', d, '-o', os.path.join(d, f'p{j}'), f],
                               stdout=subprocess.PIPE, stderr=subprocess.STDOUT, text=True, timeout=180, cwd=d)
            if p.returncode != 0:
                outs.append(('compile-error', p.stdout.strip()[:200]))
                continue
            q = subprocess.run([os.path.join(d, f'p{j}')], stdout=subprocess.PIPE, stderr=subprocess.STDOUT, text=True, timeout=60)
            outs.append(('ok' if q.returncode == 0 else 'run-error', q.stdout.split()))
    return outs


def sec_transform(req):
    from loki import Sourcefile, fgen
    from loki.frontend import FP
    from loki.transformations.inline import inline_internal_procedures, inline_marked_subroutines
    mode = str(req[1])
    pars = [int(str(x)) for x in req[2:13]]
    if len(req) != 13 or mode not in ('internal', 'marked'):
        raise ValueError('malformed request')
    src = sec_source(mode, *pars)
    sf = Sourcefile.from_source(src, frontend=FP)
    k = sf['kernel']
    if mode == 'internal':
        inline_internal_procedures(k)
    else:
        k.enrich(sf.all_subroutines)
        inline_marked_subroutines(k)
    return src, fgen(sf.ir), pars


def sec_class(pars):
    l1, u1, l2, u2, s1, n1, s2, n2 = pars[:8]
    if (s1 == 0 and l1 != 0) or (s2 == 0 and l2 != 0):
        return 'inline-section-lower-zero'
    return None


def sec_oracle(req):
    cls = None
    try:
        cls = sec_class([int(str(x)) for x in req[2:13]])
        src, text, pars = sec_transform(req)
    except ValueError:
        raise
    except Exception as e:
        return [Failure(f'inlining with a section actual raised {type(e).__name__}: {str(e)[:120]}', cls)]
    l1, u1, l2, u2 = pars[:4]
    res = _compile_run([src, text], sec_driver(l1, u1, l2, u2))
    if res[0][0] == 'compile-error':
        raise RuntimeError('harness bug: the generated original does not compile: ' + str(res[0][1])[:200])
    if res[0][0] != 'ok':
        return []
    if res[1][0] != 'ok':
        return [Failure(f'inlining with a section actual: transformed code fails under gfortran ({res[1][0]}): {str(res[1][1])[:120]}', cls)]
    if res[0][1] != res[1][1]:
        return [Failure('inlining with a section actual: transformed program computes different array contents (gfortran)', cls)]
    return []


PROP = C28()
READY = True
