"""C28 — inlining (subroutine calls, constant parameters, statement / contained functions) preserves program behaviour."""
import random as _random
from fractions import Fraction

from ..core import Prop, Case, Failure, REPO
from ..sexpr import A, dumps, loads
from .. import fir

INLINE = 'loki inline'


def h(x):
    return str(x[0]) if isinstance(x, list) and x else None


def is_pragma(s):
    return h(s) == 'nop' and str(s[1]) == 'pragma'


def is_comment(s):
    return h(s) == 'nop' and str(s[1]) == 'comment'


def is_inline_pragma(s):
    return is_pragma(s) and str(s[2]).startswith(INLINE)


def sub_lists(s):
    k = h(s)
    if k == 'do':
        return [s[5]]
    if k == 'while':
        return [s[2]]
    if k == 'if':
        return [s[2], s[3]]
    if k == 'select':
        return [c[1] for c in s[2]] + [s[3]]
    if k == 'assoc':
        return [s[2]]
    return []


def units(prog):
    return prog[2:]


def unit_named(prog, name):
    for u in units(prog):
        if str(u[1]) == name:
            return u
    return None


def main_unit(prog):
    return unit_named(prog, str(prog[1]))


def stmt_exprs(s):
    k = h(s)
    if k == 'assign':
        return [s[1], s[2]]
    if k == 'do':
        return [s[2], s[3]] + ([] if h(s[4]) is None else [s[4]])
    if k in ('while', 'if', 'select'):
        return [s[1]]
    if k == 'assoc':
        return [b[1] for b in s[1]]
    if k == 'callsub':
        return list(s[2:])
    if k == 'print':
        return list(s[1:])
    return []


def all_stmts(stmts):
    for s in stmts:
        yield s
        for l in sub_lists(s):
            yield from all_stmts(l)


def ex_names(e, acc=None):
    """all variable / array names mentioned by an expression (wire form)"""
    acc = set() if acc is None else acc
    if not isinstance(e, list):
        return acc
    k = h(e)
    if k == 'v':
        acc.add(str(e[1]))
    elif k in ('idx', 'sec'):
        acc.add(str(e[1]))
        for c in e[2:]:
            ex_names(c, acc)
    elif k == 'call':
        for c in e[2:]:
            ex_names(c, acc)
    elif k in ('i', 'r', 'b'):
        pass
    else:
        for c in e[1:]:
            ex_names(c, acc)
    return acc


def written_names(stmts):
    """names a statement list may write (assignment targets, DO variables, actuals of calls — conservative)"""
    w = set()
    for s in all_stmts(stmts):
        k = h(s)
        if k == 'assign':
            w.add(str(s[1][1]))
        elif k == 'do':
            w.add(str(s[1]))
        elif k == 'callsub':
            for a in s[2:]:
                if h(a) in ('v', 'idx', 'sec'):
                    w.add(str(a[1]))
    return w


def stmts_names(stmts):
    n = set()
    for s in all_stmts(stmts):
        for e in stmt_exprs(s):
            ex_names(e, n)
        if h(s) == 'do':
            n.add(str(s[1]))
        if h(s) == 'assoc':
            for b in s[1]:
                n.add(str(b[0]))
    return n


# ---------------------------------------------------------------- which calls get inlined

def marked_calls(stmts):
    """call statements of a list (recursively) that carry a `loki inline` pragma: the maximal run of pragma statements directly in
    front of the call contains one whose text starts with `loki inline` (what `pragmas_attached` + `is_loki_pragma` decide)"""
    run = []
    for s in stmts:
        if is_pragma(s):
            run.append(s)
            continue
        if h(s) == 'callsub' and any(is_inline_pragma(p) for p in run):
            yield s
        run = []
        for l in sub_lists(s):
            yield from marked_calls(l)


def inlined_calls(mode, prog):
    mu = main_unit(prog)
    if mode == 'marked':
        return list(marked_calls(mu[4]))
    names = {str(u[1]) for u in units(prog)} - {str(prog[1])}
    return [s for s in all_stmts(mu[4]) if h(s) == 'callsub' and str(s[1]) in names]


# ---------------------------------------------------------------- the real transformations

class TransformError(Exception):
    pass


class Refused(Exception):
    """the transformation declined (documented bail-out)"""


def _fix_ranges(sf):
    """work-around for the shared exporter: `_map_unbound_dims` builds subscripts of class `sym.Range`, the exporter only knows
    `sym.RangeIndex`; rebuild them as RangeIndex (same children)"""
    from loki.expression import symbols as sym, ExpressionRetriever
    from loki.ir import SubstituteExpressions, ExpressionFinder

    class FindRange(ExpressionFinder):
        retriever = ExpressionRetriever(lambda e: type(e) is sym.Range)   # pylint: disable=unidiomatic-typecheck

    for r in sf.all_subroutines:
        rs = FindRange(unique=False).visit(r.body)
        if rs:
            vmap = {x: sym.RangeIndex(x.children) for x in rs}
            r.body = SubstituteExpressions(vmap).visit(r.body)


def emit_internal(prog):
    """the main unit with every other unit as an internal procedure (CONTAINS)"""
    m = str(prog[1])
    lines = fir.emit_unit(main_unit(prog))
    end = lines.pop()
    lines.append('contains')
    for u in units(prog):
        if str(u[1]) != m:
            lines += ['  ' + l for l in fir.emit_unit(u)]
    lines.append(end)
    return '\n'.join(lines) + '\n'


def real_apply(mode, prog):
    """apply the real transformation to the program; returns (transformed program in wire form, fgen text).
    Errors of the harness printer / the frontend propagate; documented bail-outs raise Refused; other errors of the
    transformation, of fgen or of the export of the transformed IR raise TransformError."""
    from loki import fgen
    m = str(prog[1])
    if mode == 'internal':
        sf = fir.parse_fortran(emit_internal(prog))
    else:
        sf = fir.parse_fortran(fir.emit_fortran(prog, wrap_program=False))
    k = sf[m]
    try:
        if mode == 'marked':
            from loki.transformations.inline import inline_marked_subroutines
            k.enrich(sf.all_subroutines)
            inline_marked_subroutines(k)
        elif mode == 'internal':
            from loki.transformations.inline import inline_internal_procedures
            inline_internal_procedures(k)
        elif mode == 'param':
            from loki.transformations.inline import inline_constant_parameters
            for r in sf.all_subroutines:
                inline_constant_parameters(r, external_only=False)
    except RuntimeError as e:
        if 'Cannot resolve procedure call' in str(e):
            raise Refused(str(e)[:100]) from e
        raise TransformError(f'{type(e).__name__}: {str(e)[:120]}') from e
    except Exception as e:
        raise TransformError(f'{type(e).__name__}: {str(e)[:120]}') from e
    try:
        text = fgen(sf.ir)
        _fix_ranges(sf)
        tp = fir.export_unit(sf, main=m)
    except fir.Unsupported as e:
        raise TransformError(f'transformed IR is outside FIR: {e.kind}') from e
    except Exception as e:
        raise TransformError(f'fgen/export raised {type(e).__name__}: {str(e)[:120]}') from e
    return tp, text


# ---------------------------------------------------------------- request decoding

def decode(req):
    kind = str(req[0])
    if kind == 'sub':
        mode, prog, inputs = str(req[1]), req[2], req[3]
        flag = str(req[4]) if len(req) > 4 else 'nogf'
        if mode not in ('marked', 'internal'):
            raise ValueError('mode')
    elif kind == 'param':
        mode, prog, inputs = 'param', req[1], req[2]
        flag = str(req[3]) if len(req) > 3 else 'nogf'
    else:
        raise ValueError('malformed request')
    if h(prog) != 'program' or not isinstance(inputs, list) or flag not in ('gf', 'nogf') or len(prog) < 3:
        raise ValueError('malformed request')
    for u in prog[2:]:
        if h(u) != 'unit' or len(u) != 5 or not all(isinstance(x, list) for x in u[2:]):
            raise ValueError('malformed unit')
    if main_unit(prog) is None:
        raise ValueError('no main unit')
    return kind, mode, prog, inputs, flag
