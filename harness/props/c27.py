"""C27 — dependency queries (loop_carried_dependencies, read_after_write_vars) report every actual dependency.

Uses the machinery of c26.py: real IR with the real analysis attached, aligned with the FIR statements, and the
instrumented interpreter (element-level read/write events, spans of statements and loop iterations).
"""
from ..core import Prop, Case, Failure
from ..sexpr import A, dumps, loads
from .. import fir
from ..fir import _h, _is_none
from . import c26
from .c26 import (built, sym_of, enc_set, run_traced, seg_elems, kids_of, walk, loop_vars, print_vars, selector_vars,
                  call_nointent_vars, call_subscript_vars, vars_ex, classify_use, classify_def, decode_req, gen_programs)


def loops_of(b):
    return [al for al in b.all_nodes() if _h(al.stmt) in ('do', 'while')]


def irs_of(b):
    """[(aligned list, real tuple of nodes, owner)] : the routine body and the body of every loop (pre-order)"""
    out = [(b.tree, b.routine.body.body, None)]
    for al in loops_of(b):
        out.append((al.kids[0], al.node.body, al))
    return out


def assoc_map(unit):
    """associate name -> base variable (chains resolved) over the whole unit; value bindings map to themselves"""
    m = {}
    for s in walk(unit[4]):
        if _h(s) == 'assoc':
            for bnd in s[1]:
                e = bnd[1]
                if _h(e) in ('v', 'idx', 'sec'):
                    m[str(bnd[0])] = str(e[1])
    def res(x, n=0):
        while x in m and n < 20:
            x, n = m[x], n + 1
        return x
    return {k: res(k) for k in m}


def names_of(symset, amap):
    out = set()
    for s in symset:
        n, _ = sym_of(s)
        if n:
            out.add(amap.get(n, n))
    return out


def leaf_defs(b, al):
    return {n for n, _ in (sym_of(s) for s in al.node.defines_symbols) if n}


def classify_raw(b, ir, k, x, amap):
    """class of a missed read-after-write of x for inspection node number k (pre-order) of ir"""
    nodes = list(b.all_nodes(ir))
    stmts = [al.stmt for al in nodes]
    if x in {amap.get(v, v) for s in stmts for v in loop_vars(s)}:
        return 'loop-variable-not-defined'
    if b.enrich and x in {amap.get(v, v) for s in stmts for v in call_nointent_vars(b.prog, s)}:
        return 'call-no-intent'
    if x in {amap.get(v, v) for s in stmts for v in call_subscript_vars(s)}:
        return 'call-subscript-actual'
    if x in set(amap.values()):
        return 'raw-assoc-alias'
    node = nodes[k]
    p = node.parent
    while p is not None and p in nodes:
        if _h(p.stmt) == 'select':
            return 'raw-inside-select'      # the visitors never enter a MultiConditional: FindReads is never started
        p = p.parent
    if any(_h(q.stmt) in ('do', 'while') for q in ancestors(node, nodes)):
        # the point lies in a loop of the ir: reads of the next iteration / condition test come textually before it
        return 'raw-node-inside-loop'
    inside_select = lambda al: any(_h(q.stmt) == 'select' for q in ancestors(al, nodes))
    for al in nodes[k:]:
        if inside_select(al):
            continue
        leafish = not kids_of(al.stmt) or _h(al.stmt) == 'select'
        if leafish:
            cls = classify_use(b, al, x)
            if cls is not None and x not in b.names(al.node.uses_symbols, al.env):
                return cls
    if x in {v for s in stmts for v in selector_vars(s)}:
        return 'assoc-selector-reads'
    # candidate cleared by a write that is not a complete definition on every path
    for al in nodes[k:]:
        if inside_select(al):
            continue
        if _h(al.stmt) == 'select':
            if x in leaf_defs(b, al):
                return 'raw-select-clears'
            continue
        if kids_of(al.stmt) or x not in leaf_defs(b, al):
            continue
        anc = [_h(q.stmt) for q in ancestors(al, nodes)]
        if 'do' in anc or 'while' in anc:
            return 'raw-loop-clears'
        if not (_h(al.stmt) == 'assign' and _h(al.stmt[1]) == 'v'):
            return 'raw-partial-clears'
    return None


def ancestors(al, nodes):
    out, p = [], al.parent
    while p is not None and p in nodes:
        out.append(p)
        p = p.parent
    return out


CLASSES = ['loop-variable-not-defined', 'call-no-intent', 'call-subscript-actual', 'print-reads', 'assoc-selector-reads',
           'loop-variable-in-bounds', 'may-kill', 'raw-assoc-alias', 'raw-inside-select', 'raw-node-inside-loop', 'raw-loop-clears',
           'raw-select-clears', 'raw-partial-clears', 'assoc-expr-selector-crash']

HAND = [
    # probed (DESIGN 4.E R): loop_carried_dependencies is empty for  do i; if (i==1) x=0; y(i)=x; x=x+1; end do
    '''(deps false (program kernel (unit kernel (n y) ((decl n int in () none) (decl y int inout (((i 1) (v n))) none) (decl x int none () none) (decl i1 int none () none)) ((assign (v x) (i 5)) (do i1 (i 1) (v n) none ((if (bin eq (v i1) (i 1)) ((assign (v x) (i 0))) ()) (assign (idx y (v i1)) (v x)) (assign (v x) (bin add (v x) (i 1)))))))) (((n (i 3)) (y (i 0) (i 0) (i 0)))))''',
    # probed: x=1; <inspect>; do i=1,n; x=2; end do; z=x  with n = 0
    '''(deps false (program kernel (unit kernel (n z) ((decl n int in () none) (decl z int out () none) (decl x int none () none) (decl i1 int none () none)) ((assign (v x) (i 1)) (nop pragma "loki mark") (do i1 (i 1) (v n) none ((assign (v x) (i 2)))) (assign (v z) (v x))))) (((n (i 0)))))''',
]


class C27(Prop):
    id = 'C27'
    title = 'Dependency queries report every actual loop-carried or read-after-write value'
    model_modules = ['LokiModel.C27.Model']
    props_module = 'LokiModel.Props.C27'
    findings_module = 'LokiModel.Findings.C27'
    driver = 'Drivers/C27.lean'
    theorems = ['lcd_complete_partial', 'lcd_complete_while_partial', 'trS_doLoop_iterations', 'raw_complete_flat_partial']
    design_ref = 'DESIGN.md 4.E C27'
    level = 'proof'
    level_text = ('Theorems (Lean kernel; every program, fuel, state, loop, pair of iterations i < j of the instrumented run, variable): '
                  'lcd_complete_partial / lcd_complete_while_partial - a variable written in iteration i and read before being rewritten '
                  'in iteration j is in loop_carried_dependencies, outside the C26 class knownUL of the body and unless it is an inner DO '
                  'variable, for bodies without ASSOCIATE/CALL. Findings (non-gating): lcd_full_false and raw_full_false by executed '
                  'witnesses (conditional definition; possibly zero-trip loop clearing the candidate). read_after_write_vars '
                  '(FindWrites/FindReads: activation, candidate set, clearing, branch-wise union, MultiConditional as leaf) is modelled '
                  'and compared with the real function at every (ir, inspection node) pair of generated routines; positive theorem '
                  'raw_complete_flat_partial for straight-line irs (all nodes leaves: assignment, PRINT, EXIT, CYCLE, pragma): written '
                  'before the node and read before rewritten at/after it => reported, unless a PRINT reads it or a leaf after the node '
                  'defines it only partially. The iteration-tagged instrumented interpreter checks both real queries at every executed loop and at '
                  'every inspection point reached exactly once.')
    level_note = ('raw_complete for irs with compound statements is not proved (needs an invariant relating the single textual pass '
                  'of FindReads - activation counter, branch-wise candidate union - to the trace; the failing families are '
                  'characterised as decidable classes and by witness); ASSOCIATE/CALL only by correspondence + oracle.')
    technique = ('Lean 4 theorems about a hand-written model of the queries over the C26 model and the instrumented FIR semantics '
                 '+ correspondence with the real queries at every loop / inspection point + iteration-tagged execution oracle')
    rule = ('fir.gen_program under the C26 weight profiles, 3 sampled input sets per program; queries: loop_carried_dependencies '
            'of every DO / DO WHILE of the main unit; read_after_write_vars(ir, node) for ir = routine body and every loop body, '
            'node = every node inside ir; oracle evaluations = executed loops and (ir execution, inspection point) pairs in which the '
            'point is reached exactly once; distinct by request line')
    trusted_base = c26.C26.trusted_base
    assumptions = ['a dependency is judged at element granularity in the oracle, the queries answer at variable-name granularity',
                   'inspection points that an execution of the ir reaches more than once (inside an inner loop) are not judged']
    extra_obligations = ['oracle: iteration-tagged instrumented execution vs real query results']

    def classes(self):
        return CLASSES

    def shrink_candidates(self, req):
        return c26.shrink_request(req)

    def tables(self):
        return {'LokiModel/Generated/C26Tables.lean': c26.gen_tables()}

    def gen(self, rng, tier):
        for l in HAND:
            yield Case(loads(l), stream='hand')
        n = {'quick': 9, 'thorough': 280, 'search': 90}.get(tier, 9)
        nd = {'quick': 6, 'thorough': 100, 'search': 50}.get(tier, 6)
        for _ in range(nd):
            prog = c26.directed_program(rng)
            rc = rng.randint(1, 10 ** 6) if (rng.random() < 0.6 or 'assoc' in dumps(prog)) else 0
            if not c26.frontend_ok(prog, False, rc):
                continue
            yield Case([A('deps'), False, prog, c26.directed_inputs(rng, prog), rc], stream='directed')
        for name, prog in gen_programs(rng, n):
            enrich = rng.random() < 0.6
            rc = rng.randint(1, 10 ** 6) if rng.random() < 0.5 else 0
            if not c26.frontend_ok(prog, enrich, rc):
                continue
            inputs = fir.gen_inputs(rng, prog, 3)
            u = fir.find_unit(prog, fir.prog_main(prog))
            nontrivial = any(_h(s) in ('do', 'while') for s in walk(u[4]))
            yield Case([A('deps'), enrich, prog, inputs, rc], stream=name, nontrivial=nontrivial)

    def impl(self, req):
        from loki.analyse.dataflow_analysis import loop_carried_dependencies, read_after_write_vars
        enrich, prog, _, rc = decode_req(req, 'deps')
        b = built(prog, enrich, rc)
        if b.error:
            return [A('error'), A(b.error)]
        lcd = [enc_set(sym_of(s) for s in loop_carried_dependencies(al.node)) for al in loops_of(b)]
        raws = []
        for ir, real, _ in irs_of(b):
            raws.append([enc_set(sym_of(s) for s in read_after_write_vars(real, al.node)) for al in b.all_nodes(ir)])
        return [A('ok'), [A('lcd')] + lcd, [A('raw')] + raws]

    def oracle(self, req):
        from loki.analyse.dataflow_analysis import loop_carried_dependencies, read_after_write_vars
        enrich, prog, inputs, rc = decode_req(req, 'deps')
        b = built(prog, enrich, rc)
        if b.error:
            cls = 'assoc-expr-selector-crash' if c26.has_assoc_crash(prog) else None
            return [Failure(f'attach_dataflow_analysis raised {b.error} on a valid routine', cls)]
        amap = assoc_map(b.unit)
        index = b.bind(prog)
        sid_of = {id(al): sid for sid, al in index.items()}
        decls = {str(d[1]) for d in b.unit[3]}
        fails = {}
        self.n_eval = getattr(self, 'n_eval', 0)
        lcd_rep = {sid_of[id(al)]: names_of(loop_carried_dependencies(al.node), amap) for al in loops_of(b)}
        irs = irs_of(b)
        raw_rep = {}
        for inp in inputs:
            res, it = run_traced(prog, inp)
            if res[0] != 'ok':
                continue
            tr = it.trace
            # ---- loop-carried dependencies
            for sid, a, e, iters in it.loops:
                al = index.get(sid)
                if al is None:
                    continue
                self.n_eval += 1
                wacc, actual = set(), set()
                for (i0, i1) in iters:
                    W, R = seg_elems(tr, i0, i1)
                    actual |= {y for (y, off) in (R & wacc)}
                    wacc |= W
                for x in sorted(actual - lcd_rep[sid]):
                    if x not in decls:
                        continue
                    cls = None
                    if x not in b.names(al.node.uses_symbols, al.env):
                        cls = classify_use(b, al, x)
                    if cls is None and x not in b.names(al.node.defines_symbols, al.env):
                        cls = classify_def(b, al, x)
                    if cls is None and x in set(amap.values()):
                        cls = 'raw-assoc-alias'
                    fails.setdefault(('lcd', cls), f'{x}: a value written in one iteration of `{dumps(al.stmt)[:70]}` is read in a later one but {x} is not in loop_carried_dependencies')
            # ---- read after write across an inspection point
            by_sid = {}
            for sid, a, e in it.segs:
                by_sid.setdefault(sid, []).append((a, e))
            for j, (ir, real, owner) in enumerate(irs):
                if owner is None:
                    execs = [(0, len(tr))]
                else:
                    execs = []
                    for sid, a, e, iters in it.loops:
                        if sid == sid_of[id(owner)]:
                            off = 1 if _h(owner.stmt) == 'do' else 0
                            execs += [(i0 + off, i1) for (i0, i1) in iters]
                if not execs:
                    continue
                nodes = list(b.all_nodes(ir))
                for k, al in enumerate(nodes):
                    spans = by_sid.get(sid_of[id(al)], [])
                    for (a, e) in execs:
                        hit = [s for s in spans if a <= s[0] and s[1] <= e]
                        if len(hit) != 1:
                            continue
                        p = hit[0][0]
                        Wb, _ = seg_elems(tr, a, p)
                        _, Ra = seg_elems(tr, p, e)
                        actual = {y for (y, off) in (Wb & Ra)}
                        self.n_eval += 1
                        if not actual:
                            continue
                        if (j, k) not in raw_rep:
                            raw_rep[(j, k)] = names_of(read_after_write_vars(real, al.node), amap)
                        for x in sorted(actual - raw_rep[(j, k)]):
                            if x not in decls:
                                continue
                            cls = classify_raw(b, ir, k, x, amap)
                            fails.setdefault(('raw', cls), f'{x} is written before and read (before being rewritten) at/after inspection node #{k} `{dumps(al.stmt)[:50]}` of ir #{j} but is not in read_after_write_vars')
        return [Failure(what, cls) for (kind, cls), what in sorted(fails.items(), key=lambda kv: (kv[0][0], str(kv[0][1])))]

    def post(self, cases, impl_out, model_raw, oracle_fail):
        return [], {'oracle_query_evaluations': getattr(self, 'n_eval', 0)}


PROP = C27()
READY = True
