"""C22 — Scheduler processing visits each selected item once, in dependency order.

Request = (process <exported graph, order, file IRs, manifest, cfg> (project <generated Fortran project + config>)).
``gen`` writes the project to a mkdtemp dir, builds the real Scheduler, exports the abstraction the Lean model
works on (items, edges, nx.topological_sort order, definition trees, file order) and embeds it in the request;
``impl`` rebuilds the project from the request, runs the real ``Scheduler.process*`` with a probe transformation,
re-exports and refuses (``export-mismatch``) if the embedded abstraction is not the one the real code produces.
"""
import os
import shutil
import tempfile
from pathlib import Path

import networkx as nx

from loki import Scheduler, SchedulerConfig, Transformation, ProcessingStrategy, Pipeline
from loki.batch import (ProcedureItem, ModuleItem, TypeDefItem, InterfaceItem, ProcedureBindingItem,
                        ExternalItem, FileItem)
from loki.batch.item import get_all_import_map
from loki.frontend import REGEX, FP
from loki.ir import Import, CallStatement, TypeDef
from loki.module import Module
from loki.subroutine import Subroutine
from loki.types import ProcedureType, DerivedType
from loki.tools import as_tuple
import loki.logging as _ll

from ..core import Prop, Case, Failure
from ..sexpr import A, dumps

_ll.set_log_level(_ll.ERROR)

T, F = A('true'), A('false')
KINDS = {'proc': ProcedureItem, 'module': ModuleItem, 'typedef': TypeDefItem, 'iface': InterfaceItem,
         'binding': ProcedureBindingItem, 'file': FileItem}


def b(x):
    return T if x else F


def ob(x):
    return str(x) == 'true'


def ostr(x):
    """Option String on the wire: atom none / quoted string"""
    return A('none') if x is None else str(x)


def dstr(x):
    return None if isinstance(x, A) and str(x) == 'none' else str(x)


def field(req, key):
    for x in req[1:]:
        if isinstance(x, list) and x and isinstance(x[0], A) and str(x[0]) == key:
            return x[1:]
    raise KeyError(key)


# ------------------------------------------------------------------ project generation (ground truth)

def gen_project(rng, cyc_bias=0.15):
    """random call DAG over 3-10 routines placed in modules / as free routines in 2-5 files"""
    n = rng.randint(3, 10)
    nfiles = rng.randint(2, min(5, n))
    # monotone placement keeps the file graph acyclic; a few routines are displaced to create file cycles
    cuts = sorted(rng.sample(range(1, n), nfiles - 1)) if nfiles > 1 else []
    fidx = []
    k = 0
    for i in range(n):
        while k < len(cuts) and i >= cuts[k]:
            k += 1
        fidx.append(k)
    if rng.random() < cyc_bias:
        for _ in range(rng.randint(1, 2)):
            fidx[rng.randrange(n)] = rng.randrange(nfiles)
    # within a file: consecutive routines share a module or are free
    units = []      # (file, kind, name, [routines])
    nm = 0
    for f in range(nfiles):
        rs = [i for i in range(n) if fidx[i] == f]
        while rs:
            take = rng.randint(1, min(3, len(rs)))
            grp, rs = rs[:take], rs[take:]
            if rng.random() < 0.55:
                units.append([f, 'mod', f'm{nm}', grp])
                nm += 1
            else:
                for r in grp:
                    units.append([f, 'free', None, [r]])
    # header modules (variable + type only)
    nh = rng.randint(0, 2)
    for h in range(nh):
        f = rng.choice([nfiles + h, rng.randrange(nfiles)])
        units.append([f, 'mod', f'h{h}', []])
    modules = [u[2] for u in units if u[1] == 'mod']
    routines = []
    for i in range(n):
        calls = [j for j in range(i + 1, n) if rng.random() < min(0.6, 2.2 / max(1, n - i - 1) + 0.1)]
        ext = []
        if rng.random() < 0.15:
            ext.append('xgen0')
        if rng.random() < 0.1:
            ext.append('xext0')
        usev = [m for m in modules if rng.random() < 0.12]
        uset = [m for m in modules if rng.random() < 0.12]
        xmod = rng.random() < 0.06
        # internal procedures only in the last program unit of a file: the REGEX frontend lets a module whose routine
        # has a `contains` part swallow the following module of the same file (frontend/C21 territory, see notes)
        last_in_file = all(not (u[0] == fidx[i] and u[3] and max(u[3]) > i) for u in units) and \
            not any(u[0] == fidx[i] and not u[3] for u in units)
        member = rng.random() < 0.15 and last_in_file
        routines.append(dict(name=f'r{i}', calls=[f'r{j}' for j in calls], ext=ext, usev=usev, uset=uset,
                             xmod=xmod, member=member))
    return dict(units=units, routines=routines)


def gen_config(rng, proj):
    names = [r['name'] for r in proj['routines']]
    modules = [u[2] for u in proj['units'] if u[1] == 'mod']
    strict = rng.random() < 0.5
    dmode = rng.choice([None, 'idem', 'idem'])
    cfg = dict(strict=strict, dmode=dmode, ddisable=[], dignore=[], routines=[], seeds=['r0'])
    pool = names[1:] + modules
    if rng.random() < 0.2 and pool:
        cfg['ddisable'] = [rng.choice(pool)]
    if rng.random() < 0.25 and pool:
        cfg['dignore'] = [rng.choice(pool)]
    if rng.random() < 0.3 and len(names) > 2:
        cfg['seeds'].append(rng.choice(names[1:]))
    # seeds are given fully qualified: resolving bare names (`SGraph._get_seed_name`) is C21's subject (and picks a wrong
    # module for files with several modules when an earlier routine has internal procedures, see notes)
    home = home_of(proj)
    cfg['seeds'] = [f"{home[n] or ''}#{n}" for n in cfg['seeds']]
    for r in proj['routines']:
        ent = {}
        if r['name'] == 'r0' or rng.random() < 0.08:
            ent['role'] = 'driver'
        # (naming a routine's own module in its block/disable list also hides its calls to free routines from
        #  `targets`, because unimported callees are matched in the caller's scope; such configs are not generated)
        me = home_of(proj)[r['name']]
        cands = [x for x in r['calls'] + r['usev'] + r['uset'] if x != me]
        for key, p in (('block', 0.15), ('ignore', 0.2), ('disable', 0.1)):
            if cands and rng.random() < p:
                ent[key] = [rng.choice(cands)]
        if rng.random() < 0.2:
            ent['mode'] = rng.choice(['special', 'idem'])
        if ent:
            cfg['routines'].append([r['name'], ent])
    # unresolvable procedure calls make graph construction raise in strict mode: keep only generated ones there
    return cfg


def project_sexp(proj, cfg):
    units = [[u[0], A(u[1]), ostr(u[2]), [A(f'r{i}') for i in u[3]]] for u in proj['units']]
    rts = [[A(r['name']), [A(c) for c in r['calls']], [A(c) for c in r['ext']], [A(c) for c in r['usev']],
            [A(c) for c in r['uset']], b(r['xmod']), b(r['member'])] for r in proj['routines']]
    ents = []
    for name, ent in cfg['routines']:
        ents.append([A(name)] + [[A(k)] + ([v] if isinstance(v, str) else [A(x) for x in v])
                                 for k, v in sorted(ent.items())])
    return [A('project'), [A('units')] + units, [A('routines')] + rts,
            [A('config'), b(cfg['strict']), ostr(cfg['dmode']), [A(x) for x in cfg['ddisable']],
             [A(x) for x in cfg['dignore']], [A(x) for x in cfg['seeds']]] + ents]


def project_from_sexp(px):
    units = [[int(str(u[0])), str(u[1]), dstr(u[2]), [int(str(r)[1:]) for r in u[3]]] for u in field(px, 'units')]
    routines = [dict(name=str(r[0]), calls=[str(c) for c in r[1]], ext=[str(c) for c in r[2]],
                     usev=[str(c) for c in r[3]], uset=[str(c) for c in r[4]], xmod=ob(r[5]), member=ob(r[6]))
                for r in field(px, 'routines')]
    c = field(px, 'config')
    cfg = dict(strict=ob(c[0]), dmode=dstr(c[1]), ddisable=[str(x) for x in c[2]], dignore=[str(x) for x in c[3]],
               seeds=[str(x) for x in c[4]], routines=[])
    for e in c[5:]:
        ent = {}
        for kv in e[1:]:
            k = str(kv[0])
            ent[k] = str(kv[1]) if k in ('role', 'mode') else [str(x) for x in kv[1:]]
        cfg['routines'].append([str(e[0]), ent])
    return dict(units=units, routines=routines), cfg


def home_of(proj):
    """routine name -> module name or None"""
    h = {}
    for f, kind, name, rs in proj['units']:
        for i in rs:
            h[f'r{i}'] = name if kind == 'mod' else None
    return h


def routine_text(r, home, cfg):
    me = home[r['name']]
    lines = [f"subroutine {r['name']}(x)"]
    by_mod = {}
    for c in r['calls']:
        m = home.get(c)
        if m is not None and m != me:
            by_mod.setdefault(m, []).append(c)
    for m in r['usev']:
        if m != me:
            by_mod.setdefault(m, []).append(f'v_{m}')
    for m in r['uset']:
        if m != me:
            by_mod.setdefault(m, []).append(f't_{m}')
    for m, syms in by_mod.items():
        lines.append(f"  use {m}, only: {', '.join(syms)}")
    if r['xmod']:
        lines.append('  use xmod0, only: zz')
    lines.append('  implicit none')
    lines.append('  integer, intent(inout) :: x')
    for m in r['uset']:
        lines.append(f'  type(t_{m}) :: tv_{m}')
    for c in r['calls'] + r['ext']:
        lines.append(f'  call {c}(x)')
    for m in r['usev']:
        lines.append(f'  x = x + v_{m}')
    if r['member']:
        lines.append(f"  call {r['name']}_in(x)")
        lines += ['contains', f"  subroutine {r['name']}_in(y)", '    integer, intent(inout) :: y', '    y = y + 1',
                  f"  end subroutine {r['name']}_in"]
    lines.append(f"end subroutine {r['name']}")
    return '\n'.join(lines) + '\n'


def write_project(proj, cfg, d):
    home = home_of(proj)
    rmap = {r['name']: r for r in proj['routines']}
    files = {}
    for f, kind, name, rs in proj['units']:
        if kind == 'mod':
            txt = [f'module {name}', '  implicit none', f'  integer :: v_{name}', f'  type t_{name}', '    integer :: a',
                   f'  end type t_{name}']
            if rs:
                txt.append('contains')
                for i in rs:
                    txt.append(routine_text(rmap[f'r{i}'], home, cfg))
            txt.append(f'end module {name}')
            files.setdefault(f, []).append('\n'.join(txt) + '\n')
        else:
            for i in rs:
                files.setdefault(f, []).append(routine_text(rmap[f'r{i}'], home, cfg))
    for f, parts in files.items():
        (Path(d) / f'f{f}.F90').write_text('\n'.join(parts))


def make_config(cfg):
    default = {'role': 'kernel', 'expand': True, 'strict': cfg['strict'], 'enable_imports': True,
               'generated': ['xgen0']}
    if cfg['dmode'] is not None:
        default['mode'] = cfg['dmode']
    if cfg['ddisable']:
        default['disable'] = list(cfg['ddisable'])
    if cfg['dignore']:
        default['ignore'] = list(cfg['dignore'])
    routines = {}
    for name, ent in cfg['routines']:
        routines[name] = {k: (v if isinstance(v, str) else list(v)) for k, v in ent.items()}
    return SchedulerConfig.from_dict({'default': default, 'routines': routines})


# ------------------------------------------------------------------ abstraction function (export)

def base(name):
    return name.rsplit('/', 1)[-1]


def kind_of(item):
    cls = item.origin_cls if isinstance(item, ExternalItem) else type(item)
    for k, c in KINDS.items():
        if cls is c:
            return k
    raise ValueError(f'unexpected item class {cls}')


def dep_entries(item):
    """the (child name, match variants, module variants, parameter flag) entries `_get_children` works on"""
    out = []
    deps = item.dependencies
    if not deps:
        return out
    import_map = get_all_import_map(item.scope_ir)

    def variants(name, scope):
        name = name.lower()
        if scope is None:
            return [name]
        scope = str(scope).lower()
        return [f'{scope}#{name}', name] + ([scope] if scope else [])

    def match_name(sym):
        t = getattr(sym, 'type', None)
        if t and isinstance(t.dtype, (ProcedureType, DerivedType)):
            return t.dtype.name
        return str(sym)

    for d in deps:
        if isinstance(d, Import):
            mv = variants(d.module, None)
            out.append([d.module, F, mv, []])
            for s in d.symbols or ():
                out.append([s.name, b(bool(s.type.parameter)), variants(match_name(s), d.module), mv])
        elif isinstance(d, CallStatement):
            s = d.name
            if '%' in s.name:
                raise ValueError('type-bound call not generated')
            scope = import_map[s.name].module if s.name in import_map else item.scope_name
            out.append([s.name, F, variants(match_name(s), scope), []])
        elif isinstance(d, TypeDef):
            scope = import_map[d.name].module if d.name in import_map else item.scope_name
            out.append([d.name, F, variants(d.name, scope), []])
        else:
            raise ValueError(f'unexpected dependency node {type(d).__name__}')
    return out


def export_item(item, sched):
    ext = isinstance(item, ExternalItem)
    if ext:
        fname, irmod, irname, members, subs, scope, deps = '', False, '', [], [], None, []
        try:
            scope = item.scope_name
        except Exception:
            scope = None
    else:
        fi = sched.item_factory.get_or_create_file_item_from_source(item.source, sched.config)
        fname = base(fi.name)
        ir = item.transformation_ir
        irmod = isinstance(ir, Module)
        if not irmod and not isinstance(ir, Subroutine):
            raise ValueError(f'unexpected transformation_ir {type(ir)}')
        irname = ir.name.lower()
        members = [] if irmod else [r.name.lower() for r in ir.subroutines]
        subs = [[r.name.lower()] + [m.name.lower() for m in r.subroutines] for r in ir.subroutines] if irmod else []
        scope = item.scope_name
        deps = dep_entries(item)
    excl = [str(t).lower() for t in item.disable] + [str(t).lower() for t in item.block]
    return [item.name, A(kind_of(item)), b(ext), b(ext and item.is_generated), b(item.is_ignored), ostr(item.mode),
            ostr(item.role), fname, ostr(scope), b(irmod), irname, members, subs, excl, deps]


def def_tree(item, sched, pool, depth=0):
    if depth > 6:
        raise ValueError('definition tree too deep')
    out = []
    for c in item.create_definition_items(item_factory=sched.item_factory, config=sched.config):
        if c.name not in pool:
            pool[c.name] = export_item(c, sched)
        out.append([c.name] + def_tree(c, sched, pool, depth + 1))
    return out


def export(sched, man):
    """model-side view of the scheduler state"""
    sg = sched.sgraph
    pool = {}
    # attributes are read from the objects the traversal sees (what nx.topological_sort yields): for uncached
    # ExternalItems these are per-parent copies that may differ from the node object in sgraph.items (see COPIES)
    seen = {t.name: t for t in nx.topological_sort(sg._graph)}
    for it in sg.items:
        pool[it.name] = export_item(seen.get(it.name, it), sched)
    files = {}
    firs = []
    for it in sg.items:
        if isinstance(it, ExternalItem):
            continue
        fi = sched.item_factory.get_or_create_file_item_from_source(it.source, sched.config)
        if fi.name in files:
            continue
        files[fi.name] = [base(fi.name), ostr(fi.mode), ostr(fi.role)]
        src = fi.source
        firs.append([base(fi.name), [m.name.lower() for m in src.modules], [r.name.lower() for r in src.all_subroutines],
                     def_tree(fi, sched, pool)])
    order = [it.name for it in nx.topological_sort(sg._graph)]
    forder = []
    if man['filegraph']:
        flt = tuple(KINDS[k] for k in man['filter'])
        fg = sg.as_filegraph(sched.item_factory, sched.config, item_filter=flt, exclude_ignored=not man['procign'])
        try:
            forder = [[base(f.name) for f in nx.topological_sort(fg._graph)]]
        except nx.NetworkXUnfeasible:
            forder = [A('none')]
    else:
        forder = [[]]
    return [[A('files')] + list(files.values()), [A('pool')] + list(pool.values()),
            [A('nodes')] + [it.name for it in sg.items],
            [A('edges')] + [[a.name, c.name] for a, c in sg.dependencies],
            [A('order')] + order, [A('forder')] + forder, [A('firs')] + firs]


# ------------------------------------------------------------------ probe transformation and the real run

def make_probe(man):
    class Probe(Transformation):
        item_filter = tuple(KINDS[k] for k in man['filter'])
        reverse_traversal = man['reverse']
        traverse_file_graph = man['filegraph']
        process_ignored_items = man['procign']
        recurse_to_modules = man['recmod']
        recurse_to_procedures = man['recproc']
        recurse_to_internal_procedures = man['recint']
        renames_items = man.get('renames', False)
        creates_items = man.get('creates', False)

        def __init__(self):
            self.rec = []
            self._top = False

        def apply(self, source, **kwargs):
            self._top = True
            super().apply(source, **kwargs)

        def _r(self, meth, plan, irname, kw):
            item = kw.get('item')
            items = kw.get('items')
            self.rec.append([A(meth), A('p' if plan else 't'), irname.lower(),
                             base(item.name) if isinstance(item, FileItem) else item.name,
                             ostr(kw.get('role')), ostr(kw.get('mode')), [str(t) for t in as_tuple(kw.get('targets'))],
                             A('none') if items is None else [i.name for i in items], b(self._top)])
            self._top = False

        def transform_subroutine(self, routine, **kw):
            self._r('sub', False, routine.name, kw)

        def plan_subroutine(self, routine, **kw):
            self._r('sub', True, routine.name, kw)

        def transform_module(self, module, **kw):
            self._r('module', False, module.name, kw)

        def plan_module(self, module, **kw):
            self._r('module', True, module.name, kw)

        def transform_file(self, sourcefile, **kw):
            self._r('file', False, sourcefile.path.name, kw)

        def plan_file(self, sourcefile, **kw):
            self._r('file', True, sourcefile.path.name, kw)
    return Probe()


def decode_manifest(req):
    m = field(req, 'manifest')
    c = field(req, 'cfg')
    man = dict(filter=[str(k) for k in m[0]], reverse=ob(m[1]), filegraph=ob(m[2]), procign=ob(m[3]), recmod=ob(m[4]),
               recproc=ob(m[5]), recint=ob(m[6]))
    cf = dict(strict=ob(c[0]), mode=dstr(c[1]), plan=ob(c[2]))
    entry = str(field(req, 'entry')[0])
    return man, cf, entry


def build_scheduler(proj, cfg, plan):
    d = tempfile.mkdtemp(prefix='c22_')
    try:
        write_project(proj, cfg, d)
        conf = make_config(cfg)
        sched = Scheduler(paths=[d], config=conf, seed_routines=cfg['seeds'], full_parse=not plan,
                          frontend=REGEX if plan else FP, xmods=[d])
        return sched, d
    except Exception:
        shutil.rmtree(d, ignore_errors=True)
        raise


def real_run(sched, man, cf, entry):
    """run the real processing; returns (recorded calls, error sexp)"""
    probe = make_probe(man)
    strat = ProcessingStrategy.PLAN if cf['plan'] else ProcessingStrategy.SEQUENCE
    err = A('none')
    try:
        if entry == 'trafo':
            sched.process(probe, proc_strategy=strat)
        elif entry == 'pipeline':
            p = Pipeline()
            p.transformations.append(probe)
            sched.process(p, proc_strategy=strat)
        elif entry == 'mode':
            p = Pipeline()
            p.transformations.append(probe)
            sched.process_pipeline(p, proc_strategy=strat, mode=cf['mode'])
        else:
            raise ValueError(entry)
    except nx.NetworkXUnfeasible:
        err = A('unfeasible')
    except RuntimeError as e:
        msg = str(e)
        if 'Item is marked as external' not in msg:
            raise
        err = [A('external'), msg.split(' to ', 1)[1].split(':', 1)[0]]
    return probe.rec, err


def copies(sched):
    """names of graph nodes whose node object and the object yielded by the traversal disagree on is_ignored"""
    sg = sched.sgraph
    seen = {t.name: t for t in nx.topological_sort(sg._graph)}
    return sorted(it.name for it in sg.items if it.name in seen and seen[it.name] is not it
                  and seen[it.name].is_ignored != it.is_ignored)


def real_filegraph(sched, man):
    flt = tuple(KINDS[k] for k in man['filter'])
    fg = sched.sgraph.as_filegraph(sched.item_factory, sched.config, item_filter=flt,
                                   exclude_ignored=not man['procign'])
    return [A('fg'), [base(f.name) for f in fg.items], sorted({(base(a.name), base(c.name)) for a, c in fg.dependencies})]


_memo = {}


def run_case(req):
    """(response sexp, detail dict for the oracle); memoised on the request line"""
    key = dumps(req)
    if key in _memo:
        return _memo[key]
    man, cf, entry = decode_manifest(req)
    proj, cfg = project_from_sexp([A('project')] + field(req, 'project'))
    sched, d = build_scheduler(proj, cfg, cf['plan'])
    try:
        rec, err = real_run(sched, man, cf, entry)
        exp = export(sched, man)
        resp = [A('ok'), [A('error'), err], [A('calls')] + rec]
        if man['filegraph']:
            fg = real_filegraph(sched, man)
            resp.append([fg[0], fg[1], [list(e) for e in fg[2]]])
        D = dict(rec=rec, err=err, exp=exp, proj=proj, cfg=cfg, man=man, cf=cf, copies=copies(sched))
        cls = {f.cls for f in check_property(D)}
        resp.append([A('known')] + [b(k in cls) for k in ('filegraph-cyclic', 'filegraph-mode-by-file',
                                                          'recurse-file-mode', 'filegraph-ignored-parent')])
        embedded = [x for x in req[1:] if isinstance(x, list) and str(x[0]) in
                    ('files', 'pool', 'nodes', 'edges', 'order', 'forder', 'firs')]
        if dumps(embedded) != dumps(exp):
            resp = [A('error'), A('export-mismatch')]
        out = (resp, D)
    finally:
        shutil.rmtree(d, ignore_errors=True)
    if len(_memo) > 4000:
        _memo.clear()
    _memo[key] = out
    return out


def make_request(proj, cfg, man, cf, entry):
    sched, d = build_scheduler(proj, cfg, cf['plan'])
    try:
        exp = export(sched, man)
    finally:
        shutil.rmtree(d, ignore_errors=True)
    return [A('process')] + exp + [
        [A('manifest'), [A(k) for k in man['filter']], b(man['reverse']), b(man['filegraph']), b(man['procign']),
         b(man['recmod']), b(man['recproc']), b(man['recint'])],
        [A('cfg'), b(cf['strict']), ostr(cf['mode']), b(cf['plan'])],
        [A('entry'), A(entry)],
        project_sexp(proj, cfg)]


def tail_fields(proj, cfg, man, cf, entry):
    return [[A('manifest'), [A(k) for k in man['filter']], b(man['reverse']), b(man['filegraph']), b(man['procign']),
             b(man['recmod']), b(man['recproc']), b(man['recint'])],
            [A('cfg'), b(cf['strict']), ostr(cf['mode']), b(cf['plan'])],
            [A('entry'), A(entry)],
            project_sexp(proj, cfg)]


def build_request(proj, cfg, man, cf, entry):
    return [A('build')] + tail_fields(proj, cfg, man, cf, entry)


def run_build(req):
    """(build ...) request: construct the scheduler and export it; None or the exception"""
    man, cf, entry = decode_manifest(req)
    proj, cfg = project_from_sexp([A('project')] + field(req, 'project'))
    d = tempfile.mkdtemp(prefix='c22_')
    try:
        write_project(proj, cfg, d)       # a malformed (shrunk) project fails here, outside the real code
        conf = make_config(cfg)
        try:
            sched = Scheduler(paths=[d], config=conf, seed_routines=cfg['seeds'], full_parse=not cf['plan'],
                              frontend=REGEX if cf['plan'] else FP, xmods=[d])
            export(sched, man)
        except (RuntimeError, nx.NetworkXUnfeasible):
            return None
        except Exception as e:  # pylint: disable=broad-except
            return e
    finally:
        shutil.rmtree(d, ignore_errors=True)
    return None


# ------------------------------------------------------------------ independent statement of the property (oracle)

class View:
    """items/edges of the exported graph as plain dicts"""

    def __init__(self, exp):
        f = {str(x[0]): x[1:] for x in exp}
        self.files = {x[0]: dict(name=x[0], mode=dstr(x[1]), role=dstr(x[2])) for x in f['files']}
        self.pool = {}
        for x in f['pool']:
            self.pool[x[0]] = dict(name=x[0], kind=str(x[1]), ext=ob(x[2]), gen=ob(x[3]), ign=ob(x[4]), mode=dstr(x[5]),
                                   role=dstr(x[6]), file=x[7], scope=dstr(x[8]), irmod=ob(x[9]), irname=x[10])
        self.nodes = list(f['nodes'])
        self.edges = [(a, c) for a, c in f['edges']]
        self.firs = {x[0]: x for x in f['firs']}

    def parents(self):
        """definition item -> chain of enclosing definition items (from the exported definition trees)"""
        par = {}

        def walk(t, chain):
            par[t[0]] = chain
            for c in t[1:]:
                walk(c, chain + [t[0]])
        for fir in self.firs.values():
            for t in fir[3]:
                walk(t, [])
        return par


def expected_targets(proj, cfg, rname):
    """ground truth: names a routine depends on (imported modules and symbols, called routines), minus the ones its
    disable/block lists name (by name, by module, or as module#name)"""
    home = home_of(proj)
    r = next(x for x in proj['routines'] if x['name'] == rname)
    me = home[rname]
    ent = dict(cfg['routines']).get(rname, {})
    excl = set(ent.get('disable', cfg['ddisable'])) | set(ent.get('block', []))
    deps = []   # (name, scope)
    for c in r['calls']:
        m = home.get(c)
        if m is not None and m != me:
            deps += [(m, None), (c, m)]
        else:
            deps.append((c, m if m is not None else ''))
    for m in r['usev']:
        if m != me:
            deps += [(m, None), (f'v_{m}', m)]
    for m in r['uset']:
        if m != me:
            deps += [(m, None), (f't_{m}', m)]
        else:
            deps.append((f't_{m}', m))
    if r['xmod']:
        deps += [('xmod0', None), ('zz', 'xmod0')]
    for c in r['ext']:
        deps.append((c, me if me is not None else ''))
    bad = set()
    for name, scope in deps:
        keys = {name} | ({scope, f'{scope}#{name}'} if scope else set()) | ({f'#{name}'} if scope == '' else set())
        if keys & excl:
            bad.add(name)
    return {n for n, _ in deps} - bad


def definitely_ignored(proj, cfg):
    """ground truth: routines every caller of which lists them (by name, module, or module#name) in its effective
    `ignore` list (routine-level list, else the default one) and that are not seeds.  Whatever the order in which
    `_add_children` stamps `is_ignored` (last writer wins), such a routine ends up ignored."""
    home = home_of(proj)
    ents = dict(cfg['routines'])
    seeds = {s.split('#')[-1] for s in cfg['seeds']}
    callers = {}
    for r in proj['routines']:
        for c in r['calls']:
            callers.setdefault(c, []).append(r['name'])
    out = set()
    for name, cs in callers.items():
        if name in seeds:
            continue
        keys = {name} | ({home[name], f'{home[name]}#{name}'} if home.get(name) else {f'#{name}'})
        if all(keys & set(ents.get(c, {}).get('ignore', cfg['dignore'])) for c in cs):
            out.add(name)
    return out


def file_has_topo(nodes, edges):
    g = nx.DiGraph()
    g.add_nodes_from(nodes)
    g.add_edges_from(edges)
    return nx.is_directed_acyclic_graph(g)


def check_property(D):
    """[Failure] — the statement of C22 evaluated on the recorded call sequence of the real run"""
    V = View(D['exp'])
    man, cf, rec, err = D['man'], D['cf'], D['rec'], D['err']
    fails = []
    items = [V.pool[n] for n in V.nodes]

    def kind_ok(it):
        return not man['filter'] or it['kind'] in man['filter']

    def ign_ok(it):
        return man['procign'] or not it['ign']

    def mode_ok(it):
        return cf['mode'] is None or it['ext'] or it['kind'] in ('typedef', 'iface') or it['mode'] == cf['mode']

    calls = [dict(meth=str(c[0]), plan=str(c[1]) == 'p', ir=c[2], item=c[3], role=dstr(c[4]), mode=dstr(c[5]),
                  targets=list(c[6]), items=None if isinstance(c[7], A) else list(c[7]), top=ob(c[8])) for c in rec]
    top = [c for c in calls if c['top']]
    if D.get('copies'):
        fails.append(Failure(f"external items {D['copies']} exist in several copies (one per caller, not cached) that disagree on "
                             f"is_ignored; the traversal sees the copy of the caller that completes the in-degree, sgraph.items "
                             f"another one, so whether strict mode raises depends on the visiting order", 'external-copy-attrs'))
    for c in calls:
        if c['plan'] != cf['plan']:
            fails.append(Failure(f"{c['meth']} call for {c['item']} used the {'plan' if c['plan'] else 'transform'} method"))
    if not man['filegraph']:
        selected = [it for it in items if not it['ext'] and kind_ok(it) and ign_ok(it) and mode_ok(it)]
        blocking = [it for it in items if it['ext'] and cf['strict'] and kind_ok(it) and ign_ok(it)
                    and not (cf['plan'] and it['gen'])]
        names = [c['item'] for c in top]
        if len(set(names)) != len(names):
            fails.append(Failure(f'items processed more than once: {sorted(n for n in set(names) if names.count(n) > 1)}'))
        sel = {it['name'] for it in selected}
        if blocking:
            if isinstance(err, A):
                fails.append(Failure(f"strict mode: external item {blocking[0]['name']} selected but no error raised"))
            if not set(names) <= sel:
                fails.append(Failure(f'processed items that are not selected: {sorted(set(names) - sel)}'))
        else:
            if not isinstance(err, A) or str(err) != 'none':
                fails.append(Failure(f'processing raised {dumps(err)} though no selected external item exists'))
            elif set(names) != sel:
                fails.append(Failure(f'processed {sorted(names)} but selected items are {sorted(sel)}'))
        pos = {n: i for i, n in enumerate(names)}
        for a, c in V.edges:
            if a in pos and c in pos and ((pos[a] > pos[c]) != man['reverse']):
                fails.append(Failure(f"dependency {a} -> {c} processed in the wrong order (reverse={man['reverse']})"))
                break
        for c in top:
            it = V.pool[c['item']]
            if c['role'] != it['role'] or c['mode'] != it['mode']:
                fails.append(Failure(f"{c['item']}: got role/mode {c['role']}/{c['mode']}, item has {it['role']}/{it['mode']}"))
            if (c['meth'] == 'module') != it['irmod'] or c['ir'] != it['irname']:
                fails.append(Failure(f"{c['item']}: applied to {c['meth']} {c['ir']}, transformation_ir is {it['irname']}"))
            if it['kind'] == 'proc':
                want = expected_targets(D['proj'], D['cfg'], it['irname'])
                if set(c['targets']) != want or len(set(c['targets'])) != len(c['targets']):
                    fails.append(Failure(f"{c['item']}: targets {c['targets']} but non-blocked dependencies are {sorted(want)}"))
            elif c['targets']:
                fails.append(Failure(f"{c['item']}: targets {c['targets']} for an item without dependencies"))
        for c in calls:
            it = V.pool[c['item']]
            if c['mode'] != it['mode']:
                fails.append(Failure(f"{c['meth']} call for {c['item']} got mode {c['mode']}, item has {it['mode']}"))
    else:
        base_sel = [it for it in items if not it['ext'] and kind_ok(it) and ign_ok(it)]
        selected = [it for it in base_sel if mode_ok(it)]
        sel = {it['name'] for it in selected}
        want_files = []
        for it in selected:
            if it['file'] not in want_files:
                want_files.append(it['file'])
        fedges = {(V.pool[a]['file'], V.pool[c]['file']) for a, c in V.edges
                  if a in sel and c in sel and V.pool[a]['file'] != V.pool[c]['file']}
        # what the code looks at instead: files of the mode-blind selection whose own mode matches
        code_files = {it['file'] for it in base_sel
                      if cf['mode'] is None or V.files[it['file']]['mode'] == cf['mode']}
        bedges = {(V.pool[a]['file'], V.pool[c]['file']) for a, c in V.edges
                  if a in {i['name'] for i in base_sel} and c in {i['name'] for i in base_sel}
                  and V.pool[a]['file'] != V.pool[c]['file']}
        cyclic = not file_has_topo({it['file'] for it in base_sel}, bedges)
        mode_cls = 'filegraph-mode-by-file' if (cf['mode'] is not None and code_files != set(want_files)) else None
        visited = [c['item'] for c in top]
        if not isinstance(err, A) or str(err) != 'none':
            fails.append(Failure(f'file-graph processing raised {dumps(err)}: the files of the selected items '
                                 f'{sorted(want_files)} depend on each other cyclically, none is processed',
                                 'filegraph-cyclic' if (str(err) == 'unfeasible' and cyclic) else None))
            return fails
        if len(set(visited)) != len(visited):
            fails.append(Failure(f'files processed more than once: {visited}'))
        if set(visited) != set(want_files):
            fails.append(Failure(f'mode {cf["mode"]}: processed files {sorted(visited)} but the files containing selected '
                                 f'items are {sorted(want_files)}', mode_cls))
        pos = {n: i for i, n in enumerate(visited)}
        for fa, fb in sorted(fedges):
            if fa in pos and fb in pos and ((pos[fa] > pos[fb]) != man['reverse']):
                fails.append(Failure(f"file {fa} depends on {fb} but is processed in the wrong order (reverse={man['reverse']})"))
                break
        par = V.parents()
        for c in top:
            fnode = V.files[c['item']]
            if c['meth'] != 'file' or c['ir'] != c['item']:
                fails.append(Failure(f"file item {c['item']} applied to {c['meth']} {c['ir']}"))
            if c['role'] != fnode['role'] or c['mode'] != fnode['mode'] or c['targets']:
                fails.append(Failure(f"file {c['item']}: role/mode/targets {c['role']}/{c['mode']}/{c['targets']}"))
            mine = {it['name'] for it in items if not it['ext'] and it['file'] == c['item'] and ign_ok(it)}
            got = set(c['items'] or [])
            if not mine <= got:
                hidden = sorted(mine - got)
                cls = 'filegraph-ignored-parent' if all(
                    any(V.pool[p]['ign'] for p in par.get(h, [])) and not man['procign'] for h in hidden) else None
                fails.append(Failure(f"file {c['item']}: graph items {hidden} missing from the items passed to the "
                                     f"transformation (enclosing definition item is ignored)", cls))
        # ignored items are not handed to the transformation unless it processes ignored items: neither in `items`
        # nor as the item of a per-item recursion call (ground truth: the config's ignore lists; plus Loki's own flag)
        if not man['procign']:
            gt = definitely_ignored(D['proj'], D['cfg'])

            def is_ign(name):
                it = V.pool.get(name)
                return (it is not None and it['kind'] == 'proc' and name.split('#')[-1] in gt) or \
                    (it is not None and it['ign'])
            for c in top:
                bad = sorted(n for n in (c['items'] or []) if is_ign(n))
                if bad:
                    fails.append(Failure(f"file {c['item']}: ignored items {bad} are passed in `items` although "
                                         f"process_ignored_items is not set"))
                    break
            bad = sorted({c['item'] for c in calls if not c['top'] and is_ign(c['item'])})
            if bad:
                fails.append(Failure(f"file-graph recursion: transformation applied to ignored items {bad} although "
                                     f"process_ignored_items is not set"))
        # recursion from files: every selected procedure of a processed file gets one call, with its own attributes
        if man['recproc']:
            for it in selected:
                if it['kind'] != 'proc' or it['file'] not in pos:
                    continue
                mine = [c for c in calls if c['meth'] == 'sub' and c['item'] == it['name']]
                if len(mine) != 1:
                    cls = 'filegraph-ignored-parent' if (not mine and not man['procign'] and any(
                        V.pool[p]['ign'] for p in par.get(it['name'], []))) else None
                    fails.append(Failure(f"file-graph recursion: procedure {it['name']} got {len(mine)} calls", cls))
        for c in calls:
            if c['top'] or c['item'] not in V.pool:
                continue
            it = V.pool[c['item']]
            if c['mode'] != it['mode']:
                fails.append(Failure(f"file-graph recursion: {c['meth']} call for {c['item']} got the file's mode "
                                     f"{c['mode']}, the item's mode is {it['mode']}", 'recurse-file-mode'))
                break
        for c in calls:
            if c['top'] or c['item'] not in V.pool or c['meth'] != 'sub':
                continue
            it = V.pool[c['item']]
            want = expected_targets(D['proj'], D['cfg'], it['irname'])
            if c['role'] != it['role'] or set(c['targets']) != want:
                fails.append(Failure(f"file-graph recursion: {c['item']} got role {c['role']} targets {c['targets']}; "
                                     f"item has role {it['role']}, dependencies {sorted(want)}"))
    return fails


# ------------------------------------------------------------------ the property object

FILTERS = [['proc'], ['proc'], [], ['proc', 'module'], ['proc', 'module', 'typedef'], ['module', 'typedef'], ['typedef']]


def force_ignored_sibling(rng, proj, cfg):
    """make some called routine that shares its file with another routine ignored by *all* its callers;
    returns its name or None"""
    fidx = {}
    for f, _kind, _name, rs in proj['units']:
        for i in rs:
            fidx[f'r{i}'] = f
    seeds = {s.split('#')[-1] for s in cfg['seeds']}
    called = {c for r in proj['routines'] for c in r['calls']}
    cands = [n for n in sorted(called) if n not in seeds and
             any(m != n and fidx[m] == fidx[n] for m in fidx)]
    if not cands:
        return None
    victim = rng.choice(cands)
    ents = dict(cfg['routines'])
    for r in proj['routines']:
        if victim in r['calls']:
            ent = ents.setdefault(r['name'], {})
            ent['ignore'] = sorted(set(ent.get('ignore', [])) | {victim})
            for key in ('block', 'disable'):
                if victim in ent.get(key, []):
                    ent[key] = [x for x in ent[key] if x != victim]
                    if not ent[key]:
                        del ent[key]
    cfg['routines'] = [[k, v] for k, v in ents.items()]
    cfg['ddisable'] = [x for x in cfg['ddisable'] if x != victim]
    return victim


def gen_manifest(rng):
    return dict(filter=rng.choice(FILTERS), reverse=rng.random() < 0.4, filegraph=rng.random() < 0.4,
                procign=rng.random() < 0.35, recmod=rng.random() < 0.5, recproc=rng.random() < 0.5,
                recint=rng.random() < 0.4)


class C22(Prop):
    id = 'C22'
    title = 'Scheduler processing visits each selected item once, in dependency order'
    model_modules = ['LokiModel.C22.Model']
    props_module = 'LokiModel.Props.C22'
    driver = 'Drivers/C22.lean'
    theorems = ['C22_sfilter_spec', 'C22_once', 'C22_external_strict', 'C22_order_ok', 'C22_order_index',
                'C22_call_attrs', 'C22_targets_eq', 'C22_filegraph_spec', 'C22_filegraph_once',
                'C22_filegraph_order', 'C22_filegraph_mode_partial', 'C22_filegraph_mode_known',
                'C22_filegraph_mode_full_false', 'C22_filegraph_total_full_false', 'C22_filegraph_total_partial', 'C22_call_mode_full_false',
                'C22_call_mode_partial', 'C22_file_items_full_false']
    design_ref = 'DESIGN.md 4.D C22'
    level_text = ('Lean theorems for ALL item graphs, all orders satisfying the contract of nx.topological_sort (IsTopo, '
                  're-checked on every real run by the verified Boolean isTopo), all manifests and configurations, about a model '
                  'of SFilter, process_transformation, as_filegraph and the apply* dispatch. Full strength for item-graph '
                  'traversals: C22_sfilter_spec (SFilter yields exactly the selected items plus, in strict mode, externals of a '
                  'selected kind), C22_once (no error => the scheduler calls exactly the selected items, each once, in traversal '
                  'order), C22_external_strict (error iff a selected-kind external exists in strict mode and it is not a generated '
                  'item in plan mode; calls made before are a prefix; the first such item is named), C22_order_ok / _index (callers '
                  'before callees, reversed in reverse mode), C22_call_attrs (every call, recursion included, carries role, mode, '
                  'targets of its item; plan_* iff plan mode), C22_targets_eq (targets = dependency names minus disable/block '
                  'matches, no duplicates). File graph: C22_filegraph_spec (nodes/edges of as_filegraph characterised), '
                  'C22_filegraph_once and C22_filegraph_order for every topological order of the file graph. The unchanged code '
                  'violates four full statements, each refuted by a replayed witness (…_full_false) with a decidable class: '
                  'cyclic file graph (C22_filegraph_total_partial: outside KnownCyclic the verified Kahn sort yields an order, and _once/_order hold for every order), mode decided by the file item '
                  '(C22_filegraph_mode_partial for mode=None, C22_filegraph_mode_known outside KnownFileMode), file mode passed when '
                  'recursing from a file (C22_call_mode_partial: holds for item-graph traversals), ignored definition item hiding '
                  'its children from `items` (refutation and class only). The model is tied to the code by running the real '
                  'Scheduler on generated multi-file projects with a probe transformation (all manifest flags, PLAN and SEQUENCE, '
                  'process / Pipeline / process_pipeline(mode)) and diffing the recorded call sequence, the file graph and the '
                  'four class memberships with the Lean driver.')
    level_note = ('The graph, item attributes, IR nesting (module routines, internal procedures), definition-item trees and the '
                  'per-dependency name variants matched against disable/block are exported from the real objects (abstraction '
                  'function in harness/props/c22.py) and not verified; dependency names are matched without fnmatch patterns and '
                  'without derived-type members; interfaces / type-bound procedures are in the model but not generated; Kahn '
                  'sort in the model is proved sound (kahn_sound) but not complete (stuck => no order exists is only checked per run); renames_items / '
                  'creates_items only trigger re-discovery after the loop and are exercised, not modelled; dict-of-pipelines '
                  'entry (propagate_and_separate_modes) is not covered.')
    technique = 'Lean 4 theorems about a hand-written model + correspondence with the real Scheduler through a probe transformation'
    rule = ('random call DAGs over 3-10 routines in modules / free routines over 2-5 files (monotone placement, 15% displaced to '
            'create file cycles), header modules with variables/types, externals (generated / unresolved / missing module), '
            'internal procedures; random config (strict, default mode, disable/ignore/block lists, per-routine role and mode, '
            'extra seeds); per project several manifests (item filter, reverse, file graph, process_ignored_items, '
            'recurse_to_modules/procedures/internal_procedures) x {PLAN with REGEX, SEQUENCE with full FP parse} x entry '
            '{process(trafo), process(Pipeline), process_pipeline(mode)}; non-trivial = at least 3 graph items; distinct by request line')
    trusted_base = ['harness/props/c22.py export() (abstraction of the real Scheduler state) and Probe recording',
                    'harness/props/c22.py check_property / expected_targets (direct oracle from generator ground truth)',
                    'Lean driver evaluation of model definitions', 'networkx.topological_sort satisfies its contract (checked per run)']
    assumptions = ['item names and file names are pairwise different within a graph (networkx hashes nodes by name)',
                   'all names lower case; disable/block/ignore entries are plain names (no fnmatch patterns, no % members)',
                   'transformation methods of the probe do not modify the graph during the traversal']
    extra_obligations = ['oracle: once / order / role, mode, targets / file graph statement on every recorded real run',
                         'correspondence of the four Known* class predicates (Lean) with the harness classifiers']

    def gen(self, rng, tier):
        nproj = {'quick': 22, 'thorough': 260, 'search': 90}.get(tier, 22)
        per = {'quick': 5, 'thorough': 7, 'search': 5}.get(tier, 5)
        for _ in range(nproj):
            proj = gen_project(rng)
            cfg = gen_config(rng, proj)
            victim = force_ignored_sibling(rng, proj, cfg) if rng.random() < 0.4 else None
            for k in range(per):
                man = gen_manifest(rng)
                plan = rng.random() < 0.6
                if victim is not None and k < 2:
                    # an ignored routine shares its file with a processed one: file graph with recursion, with (k=1) and
                    # without (k=0) process_ignored_items, either direction, either strategy
                    man.update(filegraph=True, recproc=True, procign=(k == 1))
                    if 'proc' not in man['filter'] and man['filter']:
                        man['filter'] = ['proc'] + man['filter']
                mode = None
                entry = rng.choice(['trafo', 'trafo', 'pipeline'])
                if rng.random() < 0.25:
                    entry, mode = 'mode', rng.choice(['idem', 'special'])
                cf = dict(strict=cfg['strict'], mode=mode, plan=plan)
                try:
                    try:
                        req = make_request(proj, cfg, man, cf, entry)
                    except nx.NetworkXUnfeasible:
                        # full_parse=True: Scheduler.__init__ itself dies in _parse_items on a cyclic file graph;
                        # such projects can only be processed in planning mode (REGEX, no full parse)
                        cf = dict(cf, plan=True)
                        plan = True
                        req = make_request(proj, cfg, man, cf, entry)
                except RuntimeError:
                    # graph construction itself refuses the project (strict mode, unresolved call): not C22's subject
                    break
                except Exception:
                    # the real code crashed while building / exporting the scheduler state: hand the project to
                    # impl/oracle as a `build` request so that the run ends in a VIOLATION with a replay, not in exit 2
                    yield Case(build_request(proj, cfg, man, cf, entry), stream='build')
                    break
                nodes = field(req, 'nodes')
                stream = ('file' if man['filegraph'] else 'item') + ('-plan' if plan else '-seq') + ('-mode' if mode else '')
                yield Case(req, stream=stream, nontrivial=len(nodes) >= 3)

    def impl(self, req):
        if str(req[0]) == 'build':
            e = run_build(req)
            return [A('ok'), A('built')] if e is None else [A('error'), A('build-exception'), type(e).__name__]
        return run_case(req)[0]

    def canon_model(self, resp):
        if isinstance(resp, list) and resp and str(resp[0]) == 'ok':
            out = []
            for x in resp:
                if isinstance(x, list) and x and str(x[0]) == 'fg':
                    x = [x[0], x[1], [list(e) for e in sorted({tuple(e) for e in x[2]})]]
                out.append(x)
            return out
        return resp

    def oracle(self, req):
        if str(req[0]) == 'build':
            e = run_build(req)
            return [] if e is None else [Failure(f'building the Scheduler / exporting its graph raised {type(e).__name__}: {str(e)[:200]}')]
        return check_property(run_case(req)[1])

    def classes(self):
        return ['filegraph-cyclic', 'filegraph-mode-by-file', 'recurse-file-mode', 'filegraph-ignored-parent',
                'external-copy-attrs']


PROP = C22()
READY = True
