"""C36 — Fortran-to-Python transpilation preserves behaviour.

Three request families (all decoded strictly from the request line, so a replay needs nothing else):

* ``(prog <fir program> <cfg> (inputs…))`` — a generated routine of the transpilable subset (scalars, explicit-shape
  arrays, DO / DO WHILE, IF / ELSE IF / ELSE, MIN MAX ABS REAL, + - * / **).  Oracle: the REAL ``FortranPythonTransformation``
  writes the Python module, the module is executed on every input set and compared with the independent FIR
  interpreter (``harness/fir.py``), thorough tier: also with gfortran.
* ``(expr <E tree> <env>)`` — a tree of real Loki expression nodes.  Correspondence: ``pygen`` tokens vs the Lean model
  ``printPy``; CPython's own parser reads the text back and must give the meaning tree; oracle: ``eval`` of the text in
  Python vs the Fortran value of the tree.
* ``(range s e st)`` — the loop header ``visit_Loop`` prints for ``DO v = s, e, st`` evaluated by Python vs the DO sequence.
"""
import ast
import itertools
import os
import random as _random
import shutil
import tempfile
from fractions import Fraction
from pathlib import Path

from ..core import Prop, Case, Failure, WORK
from ..sexpr import A, dumps, loads
from .. import fir
from ..fir import I, R, V, IDX, BIN, NEG, NOT, CALL, NONE, ilit, rlit


def h(x):
    return str(x[0]) if isinstance(x, list) and x and not isinstance(x[0], list) else ''


# ====================================================================== generator of transpilable routines
#
# One unit `kernel(n, m, …)`.  Everything is defined before the random part starts (prologue), so the random part may
# read any variable.  Integer values stay small by construction (no products of two variables inside loops, literals
# ≤ 9) and are checked by running the reference interpreter on the inputs (`validate`).

TGEN_DEFAULT = dict(
    max_stmts=10, max_depth=3, expr_depth=3,
    p_lower=0.0,        # an array gets a lower bound other than 1
    p_step=0.0,         # a DO loop gets a step other than 1 / absent
    p_intdiv=0.0,       # integer / integer
    p_mod=0.0,          # MOD(i, k)
    p_int=0.0,          # INT(x)
    p_r2i=0.0,          # integer scalar = real expression
    p_negpow=0.0,       # integer ** negative literal
    p_nested=0.0,       # an array element inside a subscript (indirect addressing)
    p_long=0.0,         # keep a statement whose text is longer than LONG_GEN characters
    p_local_int=0.15,   # a local array is of integer type (class py-local-int-array)
    clamp_subscripts=True,   # subscripts may be min(max(e, lo), hi)
    int_calls=True,     # ABS / MIN / MAX inside integer expressions
    p_nary=0.35,        # a MIN / MAX call has 3 or 4 arguments
    p_pow=0.15,         # ** with exponent 2 or 3
    p_while=0.1,
    p_local_arrays=0.5,
    max_rank=3,
)


LONG_GEN = 190      # generated statements are kept below this estimated length …
LONG_CLASS = 230    # … and a statement estimated longer than this puts the program in class py-long-line (pygen wraps at 300)


def est_len(s, depth=0):
    """estimated length of the Python line for a simple statement / header: Fortran text of the expressions plus
    ` - 1` per subscript plus indentation"""
    es = [e for e in (s[1:3] if h(s) == 'assign' else [s[1]] if h(s) in ('if', 'while') else []) if h(e)]
    n = 2 * depth + 8
    for e in es:
        n += len(fir.emit_ex(e)) + 4 * sum(len(x) - 2 for x in _subs(e))
    return n


def _subs(e):
    if isinstance(e, list) and h(e):
        if h(e) == 'idx':
            yield e
        for c in e[1:]:
            if isinstance(c, list):
                yield from _subs(c)


def max_est_len(stmts, depth=0):
    m = 0
    for s in stmts:
        m = max(m, est_len(s, depth))
        k = h(s)
        if k == 'do':
            m = max(m, max_est_len(s[5], depth + 1))
        elif k == 'while':
            m = max(m, max_est_len(s[2], depth + 1))
        elif k == 'if':
            m = max(m, max_est_len(s[2], depth + 1), max_est_len(s[3], depth + 1))
    return m


class TGen:
    def __init__(self, rng, cfg):
        self.rng = rng
        self.cfg = dict(TGEN_DEFAULT, **(cfg or {}))
        self.decls = []          # wire decls in order
        self.args = []
        self.ty = {}             # name -> ty
        self.dims = {}           # name -> [(lo_ex, hi_ex, lo_int, extent)] ; extent = int or 'n'/'m'
        self.intent = {}
        self.loopvars = []       # active (var, extent, start_offset)
        self.nstmts = 0
        self.wcount = 0
        self.in_sub = 0

    # ---- declarations
    def declare(self, name, ty, intent='none', dims=()):
        wd = [[lo, hi] for lo, hi, _, _ in dims]
        self.decls.append([A('decl'), A(name), A(ty), A(intent), wd, NONE])
        self.ty[name] = ty
        self.dims[name] = list(dims)
        self.intent[name] = intent
        if intent != 'none':
            self.args.append(name)

    def mkdim(self, syms):
        rng = self.rng
        lo = 1
        if rng.random() < self.cfg['p_lower']:
            lo = rng.choice((0, -1, 2))
        if syms and rng.random() < 0.5:
            s = rng.choice(syms)
            hi = V(s) if lo == 1 else BIN('add', V(s), ilit(lo - 1)) if lo > 1 else BIN('sub', V(s), I(1 - lo))
            return (ilit(lo), hi, lo, s)
        e = rng.randint(1, 4)
        return (ilit(lo), ilit(lo + e - 1), lo, e)

    def build(self):
        rng, cfg = self.rng, self.cfg
        syms = []
        if rng.random() < 0.8:
            syms.append('n')
            if rng.random() < 0.4:
                syms.append('m')
        for s in syms:
            self.declare(s, 'int', 'in')
        counters = {'int': 0, 'real': 0, 'logical': 0}

        def fresh(ty, arr):
            counters[ty] += 0
            base = {('int', False): 'k', ('real', False): 'x', ('logical', False): 'p',
                    ('int', True): 'a', ('real', True): 'b'}[(ty, arr)]
            k = 1
            while f'{base}{k}' in self.ty:
                k += 1
            return f'{base}{k}'
        # dummy scalars
        for _ in range(rng.randint(2, 5)):
            ty = rng.choice(('int', 'int', 'real', 'real', 'logical'))
            self.declare(fresh(ty, False), ty, rng.choice(('in', 'inout', 'inout', 'out')))
        # dummy arrays
        for _ in range(rng.randint(1, 3)):
            ty = rng.choice(('int', 'real', 'real'))
            rank = rng.choice([r for r in (1, 1, 2, 2, 3) if r <= cfg['max_rank']])
            self.declare(fresh(ty, True), ty, rng.choice(('in', 'inout', 'inout', 'out')),
                         [self.mkdim(syms) for _ in range(rank)])
        # locals (always one integer and one real, so that every statement kind has a target)
        for ty in ['int', 'real'] + [rng.choice(('int', 'real', 'logical')) for _ in range(rng.randint(0, 2))]:
            self.declare(fresh(ty, False), ty)
        if rng.random() < cfg['p_local_arrays']:
            ty = 'int' if rng.random() < cfg['p_local_int'] else 'real'
            self.declare(fresh(ty, True), ty, 'none', [self.mkdim(syms) for _ in range(rng.choice((1, 2)))])
        for v in ('i1', 'i2', 'i3'):
            self.declare(v, 'int')
        body = []
        # prologue: define every local / intent(out) variable
        for name in list(self.ty):
            if name in ('i1', 'i2', 'i3') or self.intent[name] in ('in', 'inout'):
                continue
            if not self.dims[name]:
                body.append([A('assign'), V(name), self.literal(self.ty[name])])
            else:
                body.append(self.fill(name))
        target = rng.randint(max(2, cfg['max_stmts'] // 3), cfg['max_stmts'])
        while self.nstmts < target:
            s = self.stmt(0)
            body.extend(s[1:] if h(s) == 'seq' else [s])
        unit = [A('unit'), A('kernel'), [A(a) for a in self.args], self.decls, body]
        return fir.canon([A('program'), A('kernel'), unit])

    def fill(self, name):
        """loop nest assigning every element of array `name`"""
        dims = self.dims[name]
        vs = ['i1', 'i2', 'i3'][:len(dims)]
        val = self.literal(self.ty[name])
        if self.ty[name] == 'int':
            val = BIN('add', val, V(vs[0]))
        s = [A('assign'), IDX(name, *[V(v) for v in vs]), val]
        for v, (lo, hi, _, _) in reversed(list(zip(vs, dims))):
            s = [A('do'), A(v), lo, hi, NONE, [s]]
        return s

    # ---- expressions
    def literal(self, ty):
        rng = self.rng
        if ty == 'int':
            return ilit(rng.randint(-9, 9))
        if ty == 'real':
            return rlit(Fraction(rng.randint(-24, 24), 8))
        return fir.Bl(rng.random() < 0.5)

    def scalars(self, ty, writable=False):
        out = []
        for x, t in self.ty.items():
            if t != ty or self.dims[x]:
                continue
            if x in ('i1', 'i2', 'i3') or x.startswith('w'):
                if not writable and any(x == lv[0] for lv in self.loopvars):
                    out.append(x)
                continue
            if writable and (self.intent[x] == 'in' or x in ('n', 'm')):
                continue
            out.append(x)
        return out

    def arrays(self, ty, writable=False):
        return [x for x, t in self.ty.items() if t == ty and self.dims[x]
                and not (writable and self.intent[x] == 'in')]

    def subscript(self, dim):
        """an in-bounds subscript expression for a dimension (lo_ex, hi_ex, lo, extent)"""
        rng = self.rng
        lo_ex, hi_ex, lo, ext = dim
        cands = [lv for lv in self.loopvars if lv[1] == ext]
        if cands and rng.random() < 0.8:
            v, _, _ = rng.choice(cands)            # loop runs 1..extent: index v + (lo - 1)
            if lo == 1:
                return V(v)
            return BIN('add', V(v), ilit(lo - 1)) if lo > 1 else BIN('sub', V(v), I(1 - lo))
        r = rng.random()
        if r < 0.4:
            return lo_ex
        if r < 0.6:
            return hi_ex
        if isinstance(ext, int) and r < 0.8:
            return ilit(lo + rng.randrange(ext))
        if not self.cfg['clamp_subscripts']:
            return lo_ex if rng.random() < 0.5 else hi_ex
        nested = rng.random() < self.cfg['p_nested']
        if not nested:
            self.in_sub += 1
        e = self.iexpr(1)
        if not nested:
            self.in_sub -= 1
        return CALL('min', CALL('max', e, lo_ex), hi_ex)

    def elem(self, name):
        return IDX(name, *[self.subscript(d) for d in self.dims[name]])

    def iexpr(self, d):
        rng, cfg = self.rng, self.cfg
        if d <= 0 or rng.random() < 0.3:
            r = rng.random()
            sc = self.scalars('int')
            ar = self.arrays('int') if not self.in_sub else []
            if r < 0.35 or not (sc or ar):
                return ilit(rng.randint(0, 9) if rng.random() < 0.8 else rng.randint(-9, -1))
            if r < 0.8 and sc or not ar:
                return V(rng.choice(sc))
            return self.elem(rng.choice(ar))
        r = rng.random()
        if r < cfg['p_intdiv']:
            den = ilit(rng.choice((2, 3, 4, -2, 5))) if rng.random() < 0.6 or not cfg['int_calls'] \
                else BIN('add', CALL('abs', self.iexpr(d - 1)), I(1))
            return BIN('div', self.iexpr(d - 1), den)
        r = rng.random()
        if r < cfg['p_mod']:
            r2 = rng.random()
            v = self.iexpr(0)
            posv = BIN('add', BIN('mul', v, v), I(rng.randint(1, 3)))            # strictly positive
            second = ilit(rng.choice((2, 3, 5, 7))) if r2 < 0.5 else BIN('mul', I(rng.choice((2, 3))), posv) if r2 < 0.75 \
                else BIN('div', BIN('add', posv, I(12)), I(rng.choice((2, 3)))) if r2 < 0.9 else posv
            return CALL('mod', self.iexpr(d - 1), second)
        r = rng.random()
        if r < cfg['p_int']:
            return CALL('int', self.rexpr(d - 1))
        r = rng.random()
        if r < cfg['p_negpow']:
            return BIN('pow', I(rng.choice((1, 2, 3))), ilit(-rng.choice((1, 2))))
        r = rng.random()
        if r < cfg['p_pow'] and not self.loopvars:
            return BIN('pow', CALL('min', CALL('max', self.iexpr(d - 1), ilit(-9)), I(9)), I(rng.choice((2, 3))))
        r = rng.random()
        if r < 0.35:
            return BIN(rng.choice(('add', 'sub')), self.iexpr(d - 1), self.iexpr(d - 1))
        if r < 0.5:
            return BIN('mul', ilit(rng.randint(2, 4)) if rng.random() < 0.5 else ilit(-rng.randint(1, 3)), self.iexpr(d - 1)) \
                if rng.random() < 0.5 else BIN('mul', self.iexpr(d - 1), ilit(rng.randint(2, 3)))
        if r < 0.6 or not cfg['int_calls']:
            return NEG(self.iexpr(d - 1)) if r < 0.75 else BIN('sub', self.iexpr(d - 1), self.iexpr(d - 1))
        if r < 0.7:
            return CALL('abs', self.iexpr(d - 1))
        if r < 0.85:
            return CALL(rng.choice(('min', 'max')), *[self.iexpr(d - 1) for _ in range(self.nargs())])
        return BIN('sub', self.iexpr(d - 1), BIN('sub', self.iexpr(d - 1), self.iexpr(d - 1)))

    def rexpr(self, d):
        rng = self.rng
        if d <= 0 or rng.random() < 0.3:
            r = rng.random()
            sc = self.scalars('real')
            ar = self.arrays('real') if not self.in_sub else []
            if r < 0.3 or not (sc or ar):
                return rlit(Fraction(rng.randint(0, 24), 8))
            if r < 0.75 and sc or not ar:
                return V(rng.choice(sc))
            return self.elem(rng.choice(ar))
        r = rng.random()
        if r < 0.3:
            return BIN(rng.choice(('add', 'sub')), self.rexpr(d - 1), self.rexpr(d - 1))
        if r < 0.4:
            return BIN('mul', rlit(Fraction(rng.choice((1, 2, 4, 12, -4, 16)), 8)), self.rexpr(d - 1))
        if r < 0.5:
            return BIN('div', self.rexpr(d - 1), rng.choice((rlit(2), rlit(4), rlit(Fraction(1, 2)), I(2), I(8))))
        if r < 0.58:
            return CALL('real', self.iexpr(d - 1))
        if r < 0.68:
            return BIN(rng.choice(('add', 'mul', 'sub')), self.rexpr(d - 1), self.iexpr(0))      # mixed mode
        if r < 0.75:
            return NEG(self.rexpr(d - 1))
        if r < 0.83:
            return CALL('abs', self.rexpr(d - 1))
        if r < 0.93:
            # MIN / MAX are variadic; all arguments must have one type in Fortran, integer values enter through REAL(…)
            return CALL(rng.choice(('min', 'max')), *[self.rexpr(d - 1) if k == 0 or rng.random() < 0.7
                                                      else CALL('real', self.iexpr(d - 1)) for k in range(self.nargs())])
        if not self.loopvars and self.rng.random() < self.cfg['p_pow'] * 3:
            return BIN('pow', CALL('min', CALL('max', self.rexpr(d - 1), rlit(-4)), rlit(4)), I(2))
        return BIN('sub', self.rexpr(d - 1), BIN('add', self.rexpr(d - 1), self.rexpr(d - 1)))

    def nargs(self):
        """number of arguments of a MIN / MAX call: 2, or 3-4 with probability p_nary"""
        return self.rng.choice((3, 3, 4)) if self.rng.random() < self.cfg['p_nary'] else 2

    def lexpr(self, d):
        rng = self.rng
        if d <= 0 or rng.random() < 0.45:
            r = rng.random()
            sc = self.scalars('logical')
            if r < 0.25 and sc:
                return V(rng.choice(sc))
            op = rng.choice(fir.CMPS)
            if rng.random() < 0.6:
                return BIN(op, self.iexpr(1), self.iexpr(1))
            return BIN(op, self.rexpr(1), self.rexpr(1) if rng.random() < 0.7 else self.iexpr(1))
        r = rng.random()
        if r < 0.4:
            return BIN('and', self.lexpr(d - 1), self.lexpr(d - 1))
        if r < 0.8:
            return BIN('or', self.lexpr(d - 1), self.lexpr(d - 1))
        return NOT(self.lexpr(d - 1))

    def expr(self, ty, d=None):
        d = self.cfg['expr_depth'] if d is None else d
        return {'int': self.iexpr, 'real': self.rexpr, 'logical': self.lexpr}[ty](d)

    # ---- statements
    def block(self, depth, lo=1, hi=3):
        out = []
        for _ in range(self.rng.randint(lo, hi)):
            s = self.stmt(depth)
            out.extend(s[1:] if h(s) == 'seq' else [s])
        return out

    def stmt(self, depth):
        for _ in range(20):
            n0 = self.nstmts
            s = self.stmt1(depth)
            if max_est_len(s[1:] if h(s) == 'seq' else [s]) <= LONG_GEN or self.rng.random() < self.cfg['p_long']:
                return s
            self.nstmts = n0
        self.nstmts += 1
        x = self.rng.choice(self.scalars('real', writable=True))
        return [A('assign'), V(x), self.rexpr(1)]

    def stmt1(self, depth):
        rng, cfg = self.rng, self.cfg
        self.nstmts += 1
        r = rng.random()
        compound = depth < cfg['max_depth']
        if compound and r < 0.16:
            return self.do_loop(depth)
        if compound and r < 0.30:
            c = self.lexpr(2)
            thn = self.block(depth + 1)
            r2 = rng.random()
            if r2 < 0.4:
                els = []
            elif r2 < 0.8:
                els = self.block(depth + 1)
            else:
                els = [[A('if'), self.lexpr(1), self.block(depth + 1, 1, 2), self.block(depth + 1, 0, 2)]]
            return [A('if'), c, thn, els]
        if compound and r < 0.30 + 0.14 * cfg['p_while'] * 10 * 0.5 and not self.loopvars:
            return self.while_loop(depth)
        # assignments
        r = rng.random()
        if r < 0.45:
            ty = rng.choice(('int', 'int', 'real', 'real', 'logical'))
            tg = self.scalars(ty, writable=True)
            if tg:
                x = rng.choice(tg)
                if ty == 'int' and rng.random() < cfg['p_r2i']:
                    return [A('assign'), V(x), self.rexpr(2)]
                if ty == 'int' and self.loopvars:
                    # inside loops integers must not grow: no self reference except bounded accumulation
                    return [A('assign'), V(x), self.bounded(self.iexpr(2))]
                if ty == 'real' and rng.random() < 0.2:
                    return [A('assign'), V(x), self.iexpr(2)]               # integer → real conversion
                return [A('assign'), V(x), self.bounded(self.expr(ty)) if ty == 'int' else self.expr(ty)]
        ty = rng.choice(('int', 'real', 'real'))
        tg = self.arrays(ty, writable=True)
        if tg:
            x = rng.choice(tg)
            rhs = self.bounded(self.iexpr(2)) if ty == 'int' else self.rexpr(2)
            if ty == 'int' and rng.random() < 0.15:
                rhs = self.rexpr(1)          # real → integer array element (numpy converts on store)
            return [A('assign'), self.elem(x), rhs]
        x = rng.choice(self.scalars('real', writable=True) + self.scalars('int', writable=True))
        return [A('assign'), V(x), self.rexpr(2) if self.ty[x] == 'real' else self.bounded(self.iexpr(2))]

    def bounded(self, e):
        """keep stored integers small: min(max(e, -99), 99), sometimes in variadic form min(max(e, -99, -120), 99, 120)"""
        if self.rng.random() < self.cfg['p_nary']:
            return CALL('min', CALL('max', e, ilit(-99), ilit(-120)), I(99), I(120))
        return CALL('min', CALL('max', e, ilit(-99)), I(99))

    def do_loop(self, depth):
        rng, cfg = self.rng, self.cfg
        free = [v for v in ('i1', 'i2', 'i3') if all(v != lv[0] for lv in self.loopvars)]
        if not free:
            self.nstmts -= 1
            return self.stmt(self.cfg['max_depth'])
        v = free[0]
        exts = [d[3] for x in self.dims for d in self.dims[x]] or [3]
        ext = rng.choice(exts)
        hi = V(ext) if isinstance(ext, str) else I(ext)
        lo, step = I(1), NONE
        if rng.random() < cfg['p_step']:
            st = rng.choice((2, 3, -1, -1, -2, -3))
            step = ilit(st)
            if st < 0:
                lo, hi = hi, lo
        elif rng.random() < 0.15:
            step = I(1)
        elif rng.random() < 0.1:
            lo = I(2)                          # shortened range (zero-trip when the extent is 1)
        self.loopvars.append((v, ext, 0))
        body = self.block(depth + 1)
        self.loopvars.pop()
        return [A('do'), A(v), lo, hi, step, body]

    def while_loop(self, depth):
        rng = self.rng
        self.wcount += 1
        w = f'w{self.wcount}'
        self.declare(w, 'int')
        k = rng.randint(1, 4)
        c = BIN('lt', V(w), I(k))
        if rng.random() < 0.4:
            c = BIN('and', c, self.lexpr(1))
        self.loopvars.append((w, None, 0))
        body = [[A('assign'), V(w), BIN('add', V(w), I(1))]] + self.block(depth + 1)
        self.loopvars.pop()
        return [A('seq'), [A('assign'), V(w), I(0)], [A('while'), c, body]]


def gen_routine(rng, cfg=None, tries=30, k_inputs=3):
    """(prog, inputs) with every input set running without error, exactly, in the reference interpreter"""
    for _ in range(tries):
        g = TGen(rng, cfg)
        prog = g.build()
        try:
            inputs = fir.gen_inputs(rng, prog, k_inputs, max_extent=4)
        except Exception:
            continue
        ok = True
        for inp in inputs:
            stats = {}
            res = fir.interp(prog, inp, stats=stats)
            if res[0] != 'ok' or not fir.exact_in_hardware(stats) or stats.get('max_int', 0) >= 2 ** 28:
                ok = False
                break
        if ok:
            return prog, inputs
    raise RuntimeError('generator could not produce a valid routine')


# ====================================================================== static types and class predicates (FIR side)

def unit_of(prog):
    return fir.find_unit(prog, fir.prog_main(prog))


def decl_map(prog):
    return {str(d[1]): fir.decl_fields(d) for d in unit_of(prog)[3]}


def ex_type(e, dm):
    """static type of a FIR expression: 'int' | 'real' | 'logical'"""
    k = h(e)
    if k == 'i':
        return 'int'
    if k == 'r':
        return 'real'
    if k == 'b':
        return 'logical'
    if k in ('v', 'idx', 'sec'):
        return dm[str(e[1])][1]
    if k == 'neg':
        return ex_type(e[1], dm)
    if k == 'not':
        return 'logical'
    if k == 'bin':
        op = str(e[1])
        if op in fir.CMPS or op in ('and', 'or'):
            return 'logical'
        a, b = ex_type(e[2], dm), ex_type(e[3], dm)
        if op == 'pow':
            return a
        return 'real' if 'real' in (a, b) else 'int'
    if k == 'call':
        f = str(e[1])
        if f == 'real':
            return 'real'
        if f == 'int':
            return 'int'
        ts = [ex_type(a, dm) for a in e[2:]]
        return 'real' if 'real' in ts else 'int'
    raise ValueError(f'ex_type {e}')


def sub_exprs(e):
    if isinstance(e, list) and h(e):
        yield e
        for c in e[1:]:
            if isinstance(c, list):
                yield from sub_exprs(c)


def all_stmts(stmts):
    for s in stmts:
        yield s
        k = h(s)
        if k == 'do':
            yield from all_stmts(s[5])
        elif k == 'while':
            yield from all_stmts(s[2])
        elif k == 'if':
            yield from all_stmts(s[2])
            yield from all_stmts(s[3])


def stmt_exprs(s):
    k = h(s)
    if k == 'assign':
        return [s[1], s[2]]
    if k == 'do':
        return [e for e in (s[2], s[3], s[4]) if h(e)]
    if k in ('while', 'if'):
        return [s[1]]
    return []


def all_exprs(prog):
    for s in all_stmts(unit_of(prog)[4]):
        for e in stmt_exprs(s):
            yield from sub_exprs(e)


def const_int(e):
    if h(e) == 'i':
        return int(str(e[1]))
    if h(e) == 'neg' and h(e[1]) == 'i':
        return -int(str(e[1][1]))
    return None


def known_int_quotient(prog):
    """Lean: KnownIntQuot (static form) — a `/` whose operands are both of integer type"""
    dm = decl_map(prog)
    return any(h(e) == 'bin' and str(e[1]) == 'div' and ex_type(e[2], dm) == 'int' and ex_type(e[3], dm) == 'int'
               for e in all_exprs(prog))


def known_unmapped_intrinsic(prog):
    """a call of an intrinsic outside FortranPythonTransformation's intrinsic_map that pygen prints unchanged (MOD),
    or the INT cast (PyCodeMapper.map_cast raises KeyError('int'))"""
    return any(h(e) == 'call' and str(e[1]) in ('mod', 'int') for e in all_exprs(prog))


def known_loop_step(prog):
    """Lean: KnownPyRangeStep (static over-approximation) — a DO step that is not absent, 1 or -1"""
    for s in all_stmts(unit_of(prog)[4]):
        if h(s) == 'do' and h(s[4]):
            c = const_int(s[4])
            if c is None or c not in (1, -1):
                return True
    return False


def known_lower_bound(prog):
    """an array whose declared lower bound is not the literal 1 is subscripted (shift_to_zero_indexing subtracts 1)"""
    dm = decl_map(prog)
    bad = {x for x, f in dm.items() if any(const_int(lo) != 1 for lo, hi in f[3])}
    return any(h(e) == 'idx' and str(e[1]) in bad for e in all_exprs(prog))


def known_real_to_int_scalar(prog):
    """a scalar integer variable is assigned an expression of real type (Python keeps the float)"""
    dm = decl_map(prog)
    return any(h(s) == 'assign' and h(s[1]) == 'v' and dm[str(s[1][1])][1] == 'int' and ex_type(s[2], dm) == 'real'
               for s in all_stmts(unit_of(prog)[4]))


def known_neg_int_pow(prog):
    """Lean: KnownNegPow (static form) — integer ** negative literal"""
    dm = decl_map(prog)
    return any(h(e) == 'bin' and str(e[1]) == 'pow' and ex_type(e[2], dm) == 'int'
               and (const_int(e[3]) or 0) < 0 for e in all_exprs(prog))


def known_nested_subscript(prog):
    """an array element occurs inside a subscript of an array element (shift_to_zero_indexing does not shift the inner one)"""
    return any(h(e) == 'idx' and any(h(x) == 'idx' for c in e[2:] for x in sub_exprs(c)) for e in all_exprs(prog))


def known_local_int_array(prog):
    """a local (non-dummy) array of integer or logical type: pygen creates it with `np.ndarray(order="F", shape=…)`, i.e. float64"""
    return any(f[3] and f[2] == 'none' and f[1] != 'real' for f in decl_map(prog).values())


def known_empty_block(prog):
    """a DO / DO WHILE / IF whose body (or a non-final branch) has no executable statement: pygen prints no `pass`"""
    exe = lambda ss: any(h(s) != 'nop' for s in ss)
    for s in all_stmts(unit_of(prog)[4]):
        k = h(s)
        if k == 'do' and not exe(s[5]) or k == 'while' and not exe(s[2]):
            return True
        if k == 'if' and (not exe(s[2]) or (s[3] and not exe(s[3]))):
            return True
    return False


def known_long_line(prog):
    """a statement whose generated Python line may exceed pygen's line width of 300 (the continuation it inserts is not
    valid Python)"""
    return max_est_len(unit_of(prog)[4]) > LONG_CLASS


PROG_CLASSES = [
    ('py-nested-subscript', known_nested_subscript),
    ('py-unmapped-intrinsic', known_unmapped_intrinsic),
    ('py-integer-quotient', known_int_quotient),
    ('py-loop-step', known_loop_step),
    ('py-lower-bound', known_lower_bound),
    ('py-real-to-int-scalar', known_real_to_int_scalar),
    ('py-negative-int-power', known_neg_int_pow),
    ('py-local-int-array', known_local_int_array),
    ('py-long-line', known_long_line),
    ('py-empty-block', known_empty_block),
]


def classify_prog(prog):
    for name, pred in PROG_CLASSES:
        if pred(prog):
            return name
    return None


# ====================================================================== real transformation → Python module → run

_SCRATCH = None


def scratch():
    global _SCRATCH
    if _SCRATCH is None:
        WORK.mkdir(exist_ok=True)
        _SCRATCH = Path(tempfile.mkdtemp(prefix=f'c36_{os.getpid()}_', dir=str(WORK)))
        import atexit
        atexit.register(lambda: shutil.rmtree(_SCRATCH, ignore_errors=True))
    return _SCRATCH


def transpile_py(prog, invert=False):
    """the text FortranPythonTransformation writes for the main unit of `prog` (printed by the harness's own Fortran
    printer, parsed by the Loki frontend)"""
    from loki.transformations.transpile import FortranPythonTransformation
    src = fir.emit_fortran(prog, wrap_program=False)
    sf = fir.parse_fortran(src)
    routine = sf.routines[0]
    t = FortranPythonTransformation(invert_indices=invert)
    t.apply(source=routine, path=scratch())
    text = t.py_path.read_text()
    t.py_path.unlink()
    return text, t.mod_name


def np_inputs(prog, inp):
    """positional arguments of the generated function (scalar intent(out) dummies are not parameters) and the list of
    returned scalar names"""
    import numpy as np
    shapes = fir.main_shapes(prog, inp)
    given = {str(r[0]): [fir.decode_val(v) for v in r[1:]] for r in inp}
    args, names, rets = [], [], []
    for x, ty, intent, bs in shapes:
        if bs is None:
            if intent in ('inout', 'out'):
                rets.append(x)
            if intent == 'out':
                continue
            v = given[x][0]
            args.append(float(v) if ty == 'real' else (bool(v) if ty == 'logical' else int(v)))
            names.append(x)
        else:
            shape = tuple(max(0, hi - lo + 1) for lo, hi in bs)
            dt = {'int': np.int32, 'real': np.float64, 'logical': np.bool_}[ty]
            if x in given:
                flat = [float(v) if ty == 'real' else v for v in given[x]]
                arr = np.array(flat, dtype=dt).reshape(shape, order='F')
                arr = np.asfortranarray(arr)
            else:
                arr = np.full(shape, -777, dtype=dt, order='F')
            args.append(arr)
            names.append(x)
    return args, names, rets, shapes


def to_exact(v):
    """a Python/numpy result value as bool / int / Fraction (exact) with its kind"""
    import numpy as np
    if isinstance(v, (bool, np.bool_)):
        return 'logical', bool(v)
    if isinstance(v, (int, np.integer)):
        return 'int', int(v)
    if isinstance(v, (float, np.floating)):
        return 'real', Fraction(float(v))
    raise TypeError(f'unexpected result value {v!r}')


def run_py(text, mod_name, prog, inp, invert=False):
    """execute the generated module on one input set; result in the structure of fir.interp"""
    ns = {}
    try:
        exec(compile(text, f'<{mod_name}.py>', 'exec'), ns)
    except SyntaxError as e:
        return ('error', f'generated Python does not compile: {e}')
    args, names, rets, shapes = np_inputs(prog, inp)
    import numpy as np
    # invert_indices: the function indexes row-major, i.e. it expects the transposed view of the Fortran array
    call_args = [a.T if invert and isinstance(a, np.ndarray) else a for a in args]
    with np.errstate(all='ignore'):
        try:
            out = ns[mod_name](*call_args)
        except Exception as e:     # noqa: the generated code may raise anything
            return ('error', f'{type(e).__name__}: {e}')
    if len(rets) == 1 and not isinstance(out, tuple):
        out = (out,)
    if len(rets) == 0:
        out = ()
    if not isinstance(out, tuple) or len(out) != len(rets):
        return ('error', f'returned {out!r} for scalars {rets}')
    retd = dict(zip(rets, out))
    final = {}
    argd = dict(zip(names, args))
    for x, ty, intent, bs in shapes:
        if bs is None:
            if x in retd:
                final[x] = [retd[x]]
            else:
                final[x] = [argd[x]]
        else:
            final[x] = list(argd[x].flatten(order='F'))
    return ('ok', final, [])


def compare_py(ref, got, prog):
    """None or a description: `ref` from fir.interp, `got` from run_py.  Integers and logicals exactly (and of integer /
    bool type), reals exactly as rationals."""
    if ref[0] != 'ok':
        return None if got[0] != 'ok' else None
    if got[0] != 'ok':
        return f'reference finished, generated Python failed: {got[1]}'
    dm = decl_map(prog)
    for x, vals in ref[1].items():
        ty = dm[x][1]
        gv = got[1][x]
        if len(gv) != len(vals):
            return f'{x}: {len(gv)} values for {len(vals)}'
        for k, (a, b) in enumerate(zip(vals, gv)):
            if a is None:
                continue
            try:
                kind, bx = to_exact(b)
            except TypeError as e:
                return f'{x}[{k}]: {e}'
            if ty == 'real':
                if kind == 'logical' or Fraction(bx) != Fraction(a):
                    return f'final value of {x}[{k}]: Fortran {a}, Python {b!r}'
            elif ty == 'int':
                if kind != 'int' or bx != a:
                    return f'final value of integer {x}[{k}]: Fortran {a}, Python {b!r}'
            else:
                if kind != 'logical' or bx != a:
                    return f'final value of logical {x}[{k}]: Fortran {a}, Python {b!r}'
    return None


# ====================================================================== expression family (real PyCodeMapper on Loki trees)

from ..feval import feval, EvalError, tdiv, same_value     # noqa: E402
from .. import exprs as X                                   # noqa: E402


def pyprint(tree):
    from loki.backend.pygen import PyCodeMapper
    return PyCodeMapper()(tree)


_PYOPS = {'+': 'plus', '-': 'minus', '*': 'star', '/': 'slash', '**': 'dstar', '(': 'lp', ')': 'rp',
          '==': 'eq', '!=': 'ne', '<': 'lt', '<=': 'le', '>': 'gt', '>=': 'ge'}
_PYNAMES = {'True': 'tru', 'False': 'fls', 'not': 'not', 'and': 'and', 'or': 'or'}


def pytokenize(text):
    """Python tokens of an expression text as the wire atoms of the Lean type `PTok` (CPython's own tokeniser)"""
    import io
    import tokenize
    out = []
    for t in tokenize.generate_tokens(io.StringIO(text).readline):
        if t.type in (tokenize.NEWLINE, tokenize.NL, tokenize.ENDMARKER):
            continue
        if t.type == tokenize.NUMBER:
            if t.string.isdigit():
                out.append(A(f'num:{int(t.string)}'))
            else:
                out.append([A('rnum'), t.string])
        elif t.type == tokenize.NAME:
            out.append(A(_PYNAMES[t.string]) if t.string in _PYNAMES else [A('id'), t.string])
        elif t.type == tokenize.OP and t.string in _PYOPS:
            out.append(A(_PYOPS[t.string]))
        else:
            raise ValueError(f'unexpected Python token {t.string!r}')
    return out


def den_text(x):
    """fully parenthesised Python text of the meaning tree `den t` of an E tree (mirror of Lean `den`: n-ary nodes fold left,
    a negative constant is the negation of its magnitude) — written by the harness, independent of pygen"""
    k = str(x[0])
    if k in ('ilit', 'pyint'):
        n = int(str(x[1]))
        return f'(-({-n}))' if n < 0 else f'({n})'
    if k == 'rlit':
        return f'({str(x[1])})'
    if k == 'blit':
        return '(True)' if str(x[1]) == 'true' else '(False)'
    if k == 'var':
        return str(x[1]).lower()
    if k in ('sum', 'prod', 'land', 'lor'):
        kids = x[2:] if k in ('sum', 'prod') else x[1:]
        op = {'sum': '+', 'prod': '*', 'land': 'and', 'lor': 'or'}[k]
        acc = den_text(kids[0])
        for c in kids[1:]:
            acc = f'({acc} {op} {den_text(c)})'
        return acc
    if k == 'quot':
        return f'({den_text(x[2])} / {den_text(x[3])})'
    if k == 'pow':
        return f'({den_text(x[2])} ** {den_text(x[3])})'
    if k == 'cmp':
        return f'({den_text(x[2])} {X.CMP_INV[str(x[1])]} {den_text(x[3])})'
    if k == 'lnot':
        return f'(not {den_text(x[1])})'
    raise ValueError(k)


def py_shadow(x, env):
    """Python mirror of Lean `evalPy ∘ den` with exact rationals: value ('i', n) | ('r', q) | ('b', v); raises EvalError"""
    k = str(x[0])
    num = lambda v: v[1] if v[0] in 'ir' else (_ for _ in ()).throw(EvalError('bool operand'))
    if k in ('ilit', 'pyint'):
        return ('i', int(str(x[1])))
    if k == 'rlit':
        return ('r', Fraction(str(x[1])))
    if k == 'blit':
        return ('b', str(x[1]) == 'true')
    if k == 'var':
        v = env[str(x[1]).lower()]
        return ('b', v) if isinstance(v, bool) else ('i', v) if isinstance(v, int) else ('r', Fraction(v))
    if k in ('sum', 'prod'):
        kids = [py_shadow(c, env) for c in x[2:]]
        acc = kids[0]
        num(acc)
        for c in kids[1:]:
            t = 'i' if acc[0] == 'i' and c[0] == 'i' else 'r'
            acc = (t, num(acc) + num(c) if k == 'sum' else num(acc) * num(c))
        return acc
    if k == 'quot':
        a, b = py_shadow(x[2], env), py_shadow(x[3], env)
        if num(b) == 0:
            raise EvalError('division by zero')
        return ('r', Fraction(num(a)) / Fraction(num(b)))
    if k == 'pow':
        a, b = py_shadow(x[2], env), py_shadow(x[3], env)
        if b[0] != 'i' or a[0] == 'b':
            raise EvalError('pow operand')
        if b[1] >= 0:
            if b[1] > 64:
                raise EvalError('big exponent')
            return (a[0], a[1] ** b[1])
        if a[1] == 0:
            raise EvalError('zero to negative power')
        return ('r', 1 / Fraction(a[1]) ** (-b[1]))
    if k == 'cmp':
        a, b = num(py_shadow(x[2], env)), num(py_shadow(x[3], env))
        op = str(x[1])
        return ('b', {'eq': a == b, 'ne': a != b, 'lt': a < b, 'le': a <= b, 'gt': a > b, 'ge': a >= b}[op])
    if k == 'lnot':
        v = py_shadow(x[1], env)
        if v[0] != 'b':
            raise EvalError('not')
        return ('b', not v[1])
    if k in ('land', 'lor'):
        kids = x[1:]
        acc = py_shadow(kids[0], env)
        for c in kids[1:]:
            if acc[0] != 'b':
                raise EvalError('logical')
            if acc[1] == (k == 'lor'):
                continue                      # short circuit: the right operand is not evaluated
            acc = py_shadow(c, env)
            if acc[0] != 'b':
                raise EvalError('logical')
        return acc
    raise ValueError(k)


def py_env(env):
    """Python values of a valuation; names in both cases (the transformation lower-cases a routine before pygen sees it)"""
    out = {}
    for k, v in env.items():
        out[k] = out[k.upper()] = v if isinstance(v, (bool, int)) else float(v)
    return out


class _TooLarge(Exception):
    pass


_BINOPS = {ast.Add: lambda a, b: a + b, ast.Sub: lambda a, b: a - b, ast.Mult: lambda a, b: a * b, ast.Div: lambda a, b: a / b}
_CMPOPS = {ast.Eq: lambda a, b: a == b, ast.NotEq: lambda a, b: a != b, ast.Lt: lambda a, b: a < b, ast.LtE: lambda a, b: a <= b,
           ast.Gt: lambda a, b: a > b, ast.GtE: lambda a, b: a >= b}


def _walk(node, env):
    """evaluate a CPython AST node by node with CPython's own operators (same values as `eval`), except that an integer power
    that would have more than 4096 bits is refused (`a**b**c` printed for `(a**b)**c` can be astronomically large)"""
    if isinstance(node, ast.Expression):
        return _walk(node.body, env)
    if isinstance(node, ast.Constant):
        return node.value
    if isinstance(node, ast.Name):
        return env[node.id]
    if isinstance(node, ast.UnaryOp):
        v = _walk(node.operand, env)
        return -v if isinstance(node.op, ast.USub) else (not v) if isinstance(node.op, ast.Not) else +v
    if isinstance(node, ast.BinOp):
        a, b = _walk(node.left, env), _walk(node.right, env)
        if isinstance(node.op, ast.Pow):
            if isinstance(a, int) and isinstance(b, int) and not isinstance(a, bool) and not isinstance(b, bool) \
                    and b > 0 and abs(a) > 1 and a.bit_length() * b > 4096:
                raise _TooLarge()
            return a ** b
        return _BINOPS[type(node.op)](a, b)
    if isinstance(node, ast.BoolOp):
        v = _walk(node.values[0], env)
        for n in node.values[1:]:
            if isinstance(node.op, ast.And) and not v or isinstance(node.op, ast.Or) and v:
                return v
            v = _walk(n, env)
        return v
    if isinstance(node, ast.Compare):
        left = _walk(node.left, env)
        for op, c in zip(node.ops, node.comparators):
            right = _walk(c, env)
            if not _CMPOPS[type(op)](left, right):
                return False
            left = right
        return True
    raise TypeError(type(node).__name__)


def cpy_eval(text, env):
    """CPython's value of an expression text: ('i', n) | ('r', Fraction) | ('b', v) | ('err', name)"""
    try:
        v = _walk(ast.parse(text, mode='eval'), py_env(env))
    except (ZeroDivisionError, OverflowError, TypeError) as e:
        return ('err', type(e).__name__)
    except _TooLarge:
        return ('err', 'toolarge')
    if isinstance(v, bool):
        return ('b', v)
    if isinstance(v, int):
        return ('i', v)
    if isinstance(v, complex):
        return ('err', 'complex')
    if isinstance(v, float):
        if v != v or v in (float('inf'), float('-inf')):
            return ('err', 'nan')
        return ('r', Fraction(v))
    return ('err', type(v).__name__)


def enc_tagged(v):
    if v[0] == 'i':
        return [A('i'), v[1]]
    if v[0] == 'r':
        return [A('r'), v[1].numerator, v[1].denominator]
    if v[0] == 'b':
        return [A('b'), bool(v[1])]
    return A('err')


def enc_fval(v):
    if isinstance(v, bool):
        return [A('b'), v]
    if isinstance(v, int):
        return [A('i'), v]
    return [A('r'), Fraction(v).numerator, Fraction(v).denominator]


def dec_env(vars_):
    env = {}
    for row in vars_:
        if not isinstance(row, list) or len(row) != 2:
            raise ValueError('malformed env')
        env[str(row[0]).lower()] = fir.decode_val(row[1])
    return env


def enc_env(env):
    return [[A(k), fir.encode_val(v)] for k, v in sorted(env.items())]


def rlits(x):
    out = []
    if isinstance(x, list) and x:
        if str(x[0]) == 'rlit':
            out.append(str(x[1]))
        for c in x[1:]:
            out.extend(rlits(c))
    return out


def subtrees(x):
    if isinstance(x, list) and x and not isinstance(x[0], list):
        yield x
        for c in x[1:]:
            if isinstance(c, list):
                yield from subtrees(c)


def known_expr(x, env):
    """Python mirror of Lean `KnownPyExpr env (den t)` → class name or None"""
    for s in subtrees(x):
        k = str(s[0])
        if k in ('quot', 'pow'):
            try:
                a = feval(X.from_sexp(s[2], X.VARTYPES), env)
                b = feval(X.from_sexp(s[3], X.VARTYPES), env)
            except (EvalError, ZeroDivisionError):
                continue
            ai = isinstance(a, int) and not isinstance(a, bool)
            bi = isinstance(b, int) and not isinstance(b, bool)
            if k == 'quot' and ai and bi:
                return 'py-integer-quotient'
            if k == 'pow' and ai and bi and b < 0:
                return 'py-negative-int-power'
    return None


def ast_sem(node):
    """semantic tuple tree (the `S` of harness/exprs.py) of a CPython AST"""
    if isinstance(node, ast.Expression):
        return ast_sem(node.body)
    if isinstance(node, ast.Constant):
        v = node.value
        if isinstance(v, bool):
            return ('bool', v)
        if isinstance(v, int):
            return ('int', v)
        if isinstance(v, float):
            return ('real', repr(v))
        raise ValueError('constant')
    if isinstance(node, ast.Name):
        return ('var', node.id.lower())
    if isinstance(node, ast.UnaryOp):
        if isinstance(node.op, ast.USub):
            return ('neg', ast_sem(node.operand))
        if isinstance(node.op, ast.Not):
            return ('not', ast_sem(node.operand))
        raise ValueError('unary')
    if isinstance(node, ast.BinOp):
        op = {ast.Add: 'add', ast.Sub: 'sub', ast.Mult: 'mul', ast.Div: 'div', ast.Pow: 'pow'}[type(node.op)]
        return (op, ast_sem(node.left), ast_sem(node.right))
    if isinstance(node, ast.BoolOp):
        op = 'and' if isinstance(node.op, ast.And) else 'or'
        acc = ast_sem(node.values[0])
        for v in node.values[1:]:
            acc = (op, acc, ast_sem(v))
        return acc
    if isinstance(node, ast.Compare):
        if len(node.ops) != 1:
            raise ValueError('chained comparison')
        op = {ast.Eq: 'eq', ast.NotEq: 'ne', ast.Lt: 'lt', ast.LtE: 'le', ast.Gt: 'gt', ast.GtE: 'ge'}[type(node.ops[0])]
        return ('cmp', op, ast_sem(node.left), ast_sem(node.comparators[0]))
    raise ValueError(type(node).__name__)


def expr_shape_class(x):
    """classes of *programmatic* tree shapes (the frontend never builds them) that pygen prints with another meaning"""
    for s in subtrees(x):
        k = str(s[0])
        if k == 'pow' and str(s[2][0]) == 'pow' and str(s[2][1]) == 'false':
            return 'py-power-of-power'
        if k == 'pow' and str(s[2][0]) == 'ilit' and int(str(s[2][1])) < 0:
            return 'py-negative-literal-base'
    return None


def has_big_exponent(x, env, limit=30):
    """some `**` has an exponent of magnitude > limit (or one that cannot be evaluated): the harness evaluators (`feval`, the
    guarded CPython walk) refuse such powers while the Lean model computes them, so these trees are not generated"""
    for s in subtrees(x):
        if str(s[0]) == 'pow':
            try:
                e = py_shadow(s[3], env)
            except (EvalError, ZeroDivisionError):
                return True
            if e[0] != 'i' or abs(e[1]) > limit:
                return True
    return False


def variants(env, n=2):
    """deterministic further valuations for the syntactic comparison"""
    rng = _random.Random(repr(sorted(env.items())))
    return [env] + [X.gen_valuation(rng) for _ in range(n)]


# ====================================================================== loop header family

def loop_header_range(s, e, st):
    """the `range(…)` text `PyCodegen.visit_Loop` prints for literal bounds"""
    from loki.backend.pygen import pygen
    from loki.expression import symbols as sym
    from loki.ir import Loop
    lit = lambda n: sym.IntLiteral(n) if n >= 0 else sym.Product((-1, sym.IntLiteral(-n)))
    bounds = sym.LoopRange((lit(s), lit(e), None if st is None else lit(st)))
    text = pygen(Loop(variable=X.var('i'), bounds=bounds, body=()))
    head = text.splitlines()[0].strip()
    if not (head.startswith('for i in ') and head.endswith(':')):
        raise ValueError(f'unexpected loop header {head!r}')
    return head[len('for i in '):-1]


def fortran_do(s, e, st):
    n = max(0, tdiv(e - s + st, st))
    return [s + k * st for k in range(n)]


# ====================================================================== the property

def gen_tables():
    import pymbolic.primitives as pmbl
    from loki.backend.pygen import PyCodeMapper
    from loki.expression import symbols as sym
    import re
    mp = PyCodeMapper.multiplicative_primitives
    b = lambda v: 'true' if v else 'false'
    src = (Path(os.environ.get('LOKI_REPO', '/repo')) / 'loki/transformations/transpile/fortran_python.py').read_text()
    m = re.search(r'intrinsic_map\s*=\s*(\{.*?\})', src, re.S)
    imap = ast.literal_eval(m.group(1)) if m else {}
    pairs = ', '.join(f'("{k}", "{v}")' for k, v in imap.items())
    return '\n'.join([
        '/-! GENERATED by harness/props/c36.py from /repo and pymbolic — do not edit. -/',
        'namespace LokiModel.C36.Tables',
        '/-- is `Product` / `Quotient` in `PyCodeMapper.multiplicative_primitives` (forces parentheses around a denominator of that class) -/',
        f'def pyMpProduct : Bool := {b(any(issubclass(sym.Product, c) for c in mp))}',
        f'def pyMpQuotient : Bool := {b(any(issubclass(sym.Quotient, c) for c in mp))}',
        "/-- `FortranPythonTransformation`'s intrinsic_map (Fortran name, Python name) -/",
        f'def intrinsicMap : List (String × String) := [{pairs}]',
        'end LokiModel.C36.Tables']) + '\n'


CLASS_CFGS = [
    ('py-integer-quotient', dict(p_intdiv=0.25)),
    ('py-unmapped-intrinsic', dict(p_mod=0.15)),
    ('py-unmapped-intrinsic', dict(p_int=0.15)),
    ('py-loop-step', dict(p_step=0.7)),
    ('py-lower-bound', dict(p_lower=0.5)),
    ('py-real-to-int-scalar', dict(p_r2i=0.5)),
    ('py-negative-int-power', dict(p_negpow=0.15)),
    ('py-nested-subscript', dict(p_nested=0.5)),
    ('py-long-line', dict(p_long=1.0, expr_depth=5)),
]


class C36(Prop):
    id = 'C36'
    title = 'Fortran-to-Python transpilation preserves behaviour'
    model_modules = ['LokiModel.C36.Model']
    props_module = 'LokiModel.Props.C36'
    findings_module = 'LokiModel.Findings.C36'
    driver = 'Drivers/C36.lean'
    theorems = ['py_eval_eq_S', 'py_eval_eq_partial', 'py_int_quotient_differs', 'pyrange_eq_doSeq_nostep',
                'pyrange_eq_doSeq_divisible', 'pyrange_eq_doSeq_unit', 'pyrange_eq_doSeq_partial', 'py_index_shift']
    design_ref = 'DESIGN.md 4.F C36'
    level = 'proof'
    level_text = (
        'Theorems (Lean kernel, all trees / valuations / integers): py_eval_eq_partial — for every meaning tree and valuation outside '
        'the two decidable expression classes (integer/integer quotient, integer to a negative integer power) CPython\'s value of the '
        'tree (true division, float results, short-circuit and/or) is the Fortran value; py_int_quotient_differs — inside the first '
        'class the values always differ; pyrange_eq_doSeq_nostep/_unit/_divisible — the range(s, e+st, st) header printed by '
        'PyCodegen.visit_Loop visits the DO sequence for absent step, step ±1 and every step dividing e-s (other steps: class '
        'py-loop-step, decidable, witness in Findings); py_index_shift — the generated subscript i-1 is the 0-based position iff the '
        'declared lower bound is 1. _partial because the step "the text pygen prints is read by Python as that tree" is not proved: '
        'the Lean printer model printPy is compared token for token with the real PyCodeMapper and CPython\'s own parser (ast) reads '
        'every printed text back on every run. Whole routines (statements, declarations, argument passing) are covered by the direct '
        'oracle only: the really generated Python module is executed and compared with the reference interpreter (which is compared '
        'with the Lean FIR semantics on the same programs, and with gfortran in the thorough tier).')
    level_note = ('No Lean model of FortranPythonTransformation at statement level (declarations, numpy array creation, argument/return '
                  'convention, line wrapping): oracle only. Floats are exact rationals in model and oracle; generated inputs are dyadic '
                  'and the generator keeps every intermediate exact, so rounding never decides a comparison. with_dace is not covered.')
    technique = ('Lean 4 theorems about a hand-written expression/loop-header model + token correspondence with the real PyCodeMapper '
                 '+ execution of the really generated Python modules against an independent interpreter')
    rule = ('prog: routines from a type-directed generator of the transpilable subset (scalars, arrays rank 1-3, DO, DO WHILE, IF/ELSE IF, '
            'MIN MAX ABS REAL, mixed mode), 3 dyadic input sets each, plain and invert_indices; per known class a biased configuration; '
            'expr: random Loki trees (frontend shaped and programmatic) with valuations, kept when every intermediate is exact; '
            'range: all (s,e,st) of a box; non-trivial = outside every known class; distinct by request line')
    trusted_base = ['harness/fir.py reference interpreter (compared with Lean Fir.Sem and gfortran on the same programs)',
                    'harness/feval.py', 'CPython (exec of the generated module, ast, tokenize)', 'numpy']
    assumptions = ['reals are exact rationals; integer overflow is not modelled (generated values stay below 2^28)',
                   'the generated function is called like the Loki tests call it: Python int/float/bool scalars, Fortran-ordered numpy arrays '
                   '(int32 / float64), scalar intent(out) dummies are returned']
    extra_obligations = ['oracle: generated Python module vs reference interpreter on every input set',
                         'CPython ast of every printed expression has the Fortran value of the tree',
                         'reference interpreter vs Lean FIR semantics on every generated routine',
                         'reference interpreter vs gfortran (thorough tier)']

    def tables(self):
        return {'LokiModel/Generated/C36Tables.lean': gen_tables()}

    def classes(self):
        return sorted({c for c, _ in PROG_CLASSES} | {'py-power-of-power', 'py-negative-literal-base'})

    # ---------------------------------------------------------------- generation
    def gen(self, rng, tier):
        self._tier = tier
        n_prog = {'quick': 28, 'thorough': 320, 'search': 120}.get(tier, 28)
        n_cls = {'quick': 1, 'thorough': 8, 'search': 3}.get(tier, 1)
        n_expr = {'quick': 250, 'thorough': 3000, 'search': 1000}.get(tier, 250)
        R = {'quick': 4, 'thorough': 8, 'search': 6}.get(tier, 4)
        for k in range(n_prog):
            prog, inputs = gen_routine(rng)
            mode = 'invert' if k % 4 == 3 else 'plain'
            cls = classify_prog(prog)
            yield Case([A('prog'), A(mode), prog] + inputs, stream='prog-' + mode, nontrivial=cls is None)
        for cls, cfg in CLASS_CFGS:
            done = 0
            for _ in range(n_cls * 12):
                if done >= n_cls:
                    break
                prog, inputs = gen_routine(rng, cfg)
                if classify_prog(prog) != cls:
                    continue
                done += 1
                yield Case([A('prog'), A('plain'), prog] + inputs, stream='prog-class', nontrivial=False)
        made = 0
        attempts = 0
        while made < n_expr and attempts < n_expr * 6:
            attempts += 1
            r = rng.random()
            programmatic = rng.random() < 0.25
            if r < 0.35:
                x = X.gen_arith(rng, rng.randint(1, 4), 'real', programmatic)
            elif r < 0.6:
                x = X.gen_arith(rng, rng.randint(1, 4), 'int', programmatic)
            else:
                x = X.gen_logical(rng, rng.randint(1, 3), programmatic)
            x = loads(dumps(x))
            env = X.gen_valuation(rng)
            if has_big_exponent(x, env):
                continue
            cls = known_expr(x, env)
            if cls is not None and rng.random() < 0.8:
                continue                                    # keep most cases outside the classes
            try:
                sh = py_shadow(x, env)
            except EvalError:
                sh = ('err',)
            cp = cpy_eval(den_text(x), env)
            try:
                feval(X.from_sexp(x, X.VARTYPES), env)
            except (EvalError, ZeroDivisionError):
                if sh[0] != 'err':
                    continue        # feval refuses exponents > 48 (harness limit, see notes/FIR.md); the Lean model computes them
            if sh[0] == 'err' and cp[0] == 'err':
                pass
            elif sh != cp:
                continue                                    # an intermediate float is not exact: not comparable with the rational model
            made += 1
            yield Case([A('expr'), x, enc_env(env), [[t, Fraction(t).numerator, Fraction(t).denominator] for t in sorted(set(rlits(x)))]],
                       stream='expr-prog' if programmatic else 'expr',
                       nontrivial=cls is None and sh[0] != 'err' and expr_shape_class(x) is None)
        for s in range(-R, R + 1):
            for e in range(-R, R + 1):
                for st in [None] + [c for c in range(-R, R + 1) if c != 0]:
                    ref = fortran_do(s, e, 1 if st is None else st)
                    yield Case([A('range'), s, e, A('none') if st is None else st], stream='range', nontrivial=bool(ref))

    # ---------------------------------------------------------------- decoding
    @staticmethod
    def dec_prog(req):
        if len(req) < 4 or str(req[1]) not in ('plain', 'invert'):
            raise ValueError('malformed prog request')
        prog, inputs = req[2], req[3:]
        if h(prog) != 'program' or not all(isinstance(i, list) for i in inputs):
            raise ValueError('malformed prog request')
        unit_of(prog)[4]
        return str(req[1]) == 'invert', prog, inputs

    @staticmethod
    def dec_expr(req):
        if len(req) != 4:
            raise ValueError('malformed expr request')
        x = req[1]
        X.from_sexp(x, X.VARTYPES)
        return x, dec_env(req[2])

    # ---------------------------------------------------------------- real code → canonical response
    def impl(self, req):
        op = str(req[0])
        if op == 'prog':
            _, prog, inputs = self.dec_prog(req)
            return [A('ok')] + [fir.result_to_sexp(fir.interp(prog, inp)) for inp in inputs]
        if op == 'expr':
            x, env = self.dec_expr(req)
            tree = X.from_sexp(x, X.VARTYPES)
            toks = pytokenize(pyprint(tree))
            try:
                fv = enc_fval(feval(tree, env))
            except (EvalError, ZeroDivisionError):
                fv = A('err')
            return [A('ok'), [A('tok')] + toks, [A('py'), enc_tagged(cpy_eval(den_text(x), env))], [A('f'), fv],
                    [A('known'), known_expr(x, env) is not None]]
        if op == 'range':
            s, e = int(str(req[1])), int(str(req[2]))
            st = None if str(req[3]) == 'none' else int(str(req[3]))
            try:
                return [A('ok')] + list(eval(loop_header_range(s, e, st), {'range': range}))
            except ValueError:
                return [A('error'), A('valueerror')]
        raise ValueError(op)

    # ---------------------------------------------------------------- direct oracle
    def oracle(self, req):
        op = str(req[0])
        if op == 'prog':
            return self.oracle_prog(req)
        if op == 'expr':
            return self.oracle_expr(req)
        if op == 'range':
            s, e = int(str(req[1])), int(str(req[2]))
            st = None if str(req[3]) == 'none' else int(str(req[3]))
            got = list(eval(loop_header_range(s, e, st), {'range': range}))
            ref = fortran_do(s, e, 1 if st is None else st)
            if got != ref:
                cls = 'py-loop-step' if st is not None and abs(st) >= 2 and (e - s) % st != 0 else None
                return [Failure(f'DO i = {s}, {e}, {st} visits {ref}; the generated {loop_header_range(s, e, st)} visits {got}', cls)]
            return []
        raise ValueError(op)

    def oracle_prog(self, req):
        invert, prog, inputs = self.dec_prog(req)
        cls = classify_prog(prog)
        try:
            text, mod = transpile_py(prog, invert)
        except Exception as e:      # noqa: anything the transformation raises is a failure of the property
            return [Failure(f'FortranPythonTransformation raised {type(e).__name__}: {str(e)[:160]}', cls)]
        for k, inp in enumerate(inputs):
            stats = {}
            ref = fir.interp(prog, inp, stats=stats)
            if ref[0] != 'ok' or not fir.exact_in_hardware(stats):
                continue
            if any(v is None for x, vs in ref[1].items() if len(vs) == 1 for v in vs):
                continue            # a scalar dummy is left undefined (only in shrunk requests): nothing to compare
            got = run_py(text, mod, prog, inp, invert)
            d = compare_py(ref, got, prog)
            if d:
                return [Failure(f'input set {k}: {d}', cls)]
        return []

    def oracle_expr(self, req):
        x, env = self.dec_expr(req)
        tree = X.from_sexp(x, X.VARTYPES)
        text = pyprint(tree)
        # (a) the text, as CPython parses and evaluates it, has the value of the fully parenthesised meaning tree (Python
        # semantics on both sides: only the parenthesisation is judged here)
        try:
            compile(text, '<expr>', 'eval')
        except SyntaxError as e:
            return [Failure(f'pygen text {text!r} is not a Python expression: {e}', expr_shape_class(x))]
        canon = den_text(x)
        for ev in variants(env):
            want, got = cpy_eval(canon, ev), cpy_eval(text, ev)
            if want[0] == 'err':
                continue
            same = want == got or (want[0] == got[0] == 'r' and abs(want[1] - got[1]) <= abs(want[1]) * Fraction(1, 10 ** 9))
            if not same:
                return [Failure(f'{text!r} has Python value {got}, the meaning tree {canon!r} has {want} under {ev}',
                                expr_shape_class(x))]
        # (b) CPython's value of the text vs the Fortran value
        try:
            want = feval(tree, env)
        except (EvalError, ZeroDivisionError):
            return []
        got = cpy_eval(text, env)
        wt = ('b', want) if isinstance(want, bool) else ('i', want) if isinstance(want, int) else ('r', Fraction(want))
        ok = got == wt
        if not ok and got[0] == 'r' and wt[0] == 'r':
            ok = abs(got[1] - wt[1]) <= abs(wt[1]) * Fraction(1, 10 ** 12)       # inexact intermediates (replayed / shrunk requests)
        if not ok:
            return [Failure(f'{text!r}: Python gives {got}, Fortran {wt} under {env}', known_expr(x, env))]
        return []

    def shrink_candidates(self, req):
        if str(req[0]) == 'expr':
            for y in X.shrink_E(req[1]):
                yield [req[0], y, req[2], [[t, Fraction(t).numerator, Fraction(t).denominator] for t in sorted(set(rlits(y)))]]
        elif str(req[0]) == 'prog':
            yield from shrink_prog(req)

    # ---------------------------------------------------------------- cross-checks
    def post(self, cases, impl_out, model_raw, oracle_fail):
        problems, cov = [], {}
        failed = {c.line for c, f in oracle_fail if not f.error}
        # a tree outside the expression classes with a Fortran value must pass the oracle (theorem domain vs oracle)
        n_dom = 0
        for c in cases:
            if str(c.req[0]) == 'expr' and c.stream == 'expr' and c.nontrivial:
                n_dom += 1
                if c.line in failed:
                    problems.append(f'a frontend-shaped tree outside the classes fails the oracle: {c.line[:200]}')
        cov['expr_in_theorem_domain_passing'] = n_dom
        progs = [c for c in cases if str(c.req[0]) == 'prog']
        cov['routines'] = len(progs)
        cov['routines_outside_classes'] = sum(1 for c in progs if c.nontrivial)
        if getattr(self, '_tier', 'quick') == 'thorough' and progs and os.path.exists(fir.GFORTRAN):
            items = []
            for c in progs:
                _, prog, inputs = self.dec_prog(c.req)
                items.append((prog, inputs[0]))
            res = fir.run_gfortran(items)
            bad = 0
            for (prog, inp), r in zip(items, res):
                stats = {}
                ref = fir.interp(prog, inp, stats=stats)
                if fir.exact_in_hardware(stats) and fir.compare_results(ref, r) is not None:
                    bad += 1
                    problems.append('reference interpreter and gfortran disagree: ' + str(fir.compare_results(ref, r))[:200])
            cov['gfortran_agreements'] = len(items) - bad
        return problems[:5], cov


def shrink_prog(req):
    """structure-preserving smaller routines: drop one statement of a body (any depth), drop input sets"""
    head, prog, inputs = req[:2], req[2], req[3:]
    if len(inputs) > 1:
        for k in range(len(inputs)):
            yield head + [prog] + inputs[:k] + inputs[k + 1:]
    u = prog[2]

    def drops(stmts):
        for k in range(len(stmts)):
            yield stmts[:k] + stmts[k + 1:]
            s = stmts[k]
            kind = h(s)
            slots = {'do': [5], 'while': [2], 'if': [2, 3]}.get(kind, [])
            for j in slots:
                for v in drops(s[j]):
                    yield stmts[:k] + [s[:j] + [v] + s[j + 1:]] + stmts[k + 1:]
                if kind == 'if' and s[j]:
                    yield stmts[:k] + s[j] + stmts[k + 1:]
    for body in drops(u[4]):
        yield head + [[prog[0], prog[1], u[:4] + [body]]] + inputs


PROP = C36()
READY = True
