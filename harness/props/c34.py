"""C34 — call-signature rewrites preserve behaviour: sequence-association resolution, duplicate-argument removal
(both modelled on FIR, with theorems), explicit argument shapes, derived-type argument expansion and type-bound call
flattening (generated Fortran call trees, original vs really transformed, compiled and run by gfortran)."""
import os
import random as _random
import shutil
import subprocess
import tempfile
from fractions import Fraction

from ..core import Prop, Case, Failure, REPO
from ..sexpr import A, dumps, loads
from .. import fir
from ..fir import I, V, IDX, SEC, AT, RNG, BIN, CALL, NONE, ilit

# known-finding classes (Python mirrors of the Lean `Known…` definitions in LokiModel/C34/Model.lean)
K_SEQ_RANK = 'seq-multirank-dummy-offset'         # KnownSeqRank
K_SEQ_SHORT = 'seq-section-shorter-than-dummy'    # KnownSeqShort
K_SEQ_KW = 'seq-keyword-arguments-duplicated'     # KnownSeqKw (source kind)
K_DD_INTENT = 'dedup-kept-dummy-intent-in'        # KnownDedupIntent
K_DD_DECL = 'dedup-removed-name-in-declaration'   # KnownDedupDecl
K_DD_ALIAS = 'dedup-aliased-dummy-written'        # precondition class (non-conforming original), not a finding
K_SH_LB = 'shape-lower-bound-imported'            # KnownShapeLb
K_SH_CAP = 'shape-symbol-captured'                # KnownShapeCapture
K_DT_LB = 'dtype-member-lower-bound-lost'         # KnownDtLb
K_DT_CLASH = 'dtype-expanded-name-clash'          # KnownDtClash
K_TB_PASS = 'tbound-pass-not-first'               # KnownTbPass
K_TB_NOPASS = 'tbound-nopass'                     # KnownTbNopass
ALL_CLASSES = [K_SEQ_RANK, K_SEQ_SHORT, K_SEQ_KW, K_DD_INTENT, K_DD_DECL, K_SH_LB, K_SH_CAP, K_DT_LB, K_DT_CLASH,
               K_TB_PASS, K_TB_NOPASS]


def h(x):
    return str(x[0]) if isinstance(x, list) and x else None


def units(prog):
    return prog[2:]


def unit_map(prog):
    return {str(u[1]): u for u in units(prog)}


def decl_of(u, x):
    for d in u[3]:
        if str(d[1]) == x:
            return d
    return None


def is_comment(s):
    return h(s) == 'nop' and str(s[1]) == 'comment'


def norm_prog(prog):
    """normalisation of the correspondence: comment nops dropped"""
    return fir.canon(fir.map_program(fir.canon(prog), fs=lambda ss: [s for s in ss if not is_comment(s)]))


def sub_lists(s):
    k = h(s)
    if k == 'do':
        return [s[5]]
    if k == 'while':
        return [s[2]]
    if k == 'if':
        return [s[2], s[3]]
    if k == 'select':
        return [c[1] for c in s[2]] + [s[3]]
    if k == 'assoc':
        return [s[2]]
    return []


def all_calls(ss):
    """call statements in FindNodes order (pre-order)"""
    out = []
    for s in ss:
        if h(s) == 'callsub':
            out.append(s)
        for l in sub_lists(s):
            out += all_calls(l)
    return out


# ---------------------------------------------------------------- interpreter with array-section actual arguments

class SecInterp(fir.Interp):
    """reference interpreter extended by array sections as actual arguments (what the resolved calls contain): the
    elements of the section in array element order are copied in and out (F2018 15.5.2.4: a non-contiguous section
    passed to an explicit-shape dummy is passed through a contiguous temporary); the section is established when
    the call starts.  A dummy longer than the section has its remaining elements undefined (`strict`), which is how
    a too short section shows."""

    def __init__(self, prog, stats=None):
        super().__init__(prog, stats)
        self._sec = {}
        self.short = []          # (callee, dummy size, section size) of calls whose section is shorter than the dummy

    def _sec_offsets(self, st, a):
        x = str(a[1])
        if st.loc(x) is not None:
            raise fir._Fail()
        c = st.cell(x)
        if c is None or c.bounds is None:
            raise fir._Fail()
        shape = self.sec_shape(st, c.bounds, a[2:])
        offs = []
        for p in fir._positions(shape):
            idx = self.eval_sec(st, (), c.bounds, a[2:], p)
            offs.append(fir._offset(c.bounds, idx))
        return x, offs

    def actual_data(self, st, a, where=None):
        if h(a) == 'sec':
            x, offs = self._sec_offsets(st, a)
            self._sec[id(a)] = (x, offs)
            c = st.cell(x)
            return [c.data[o] for o in offs]
        return super().actual_data(st, a, where)

    def write_back(self, st, a, vals, where=None):
        if h(a) == 'sec':
            x, offs = self._sec.get(id(a)) or self._sec_offsets(st, a)
            c = st.cell(x)
            for o, v in zip(offs, vals):
                c.data[o] = v
            return
        return super().write_back(st, a, vals, where)


def sec_interp(prog, inputs, fuel=100000):
    return SecInterp(prog).run_main(inputs, fuel)


# ---------------------------------------------------------------- real transformations on FIR programs

class TransformError(Exception):
    pass


def _parse(prog):
    sf = fir.parse_fortran(fir.emit_fortran(prog, wrap_program=False))
    try:
        fir.export_unit(sf, main=fir.prog_main(prog))
    except fir.Unsupported as e:
        raise ValueError(f'request program is outside FIR after parsing: {e.kind}') from e
    rs = list(sf.routines)
    for r in rs:
        r.enrich(rs)
    return sf


_CACHE = {}


def _cached(kind, prog, fn):
    key = kind + dumps(prog)
    if key not in _CACHE:
        if len(_CACHE) > 64:
            _CACHE.clear()
        try:
            _CACHE[key] = ('ok', fn(prog))
        except Exception as e:      # noqa
            _CACHE[key] = ('exc', e)
    tag, val = _CACHE[key]
    if tag == 'exc':
        raise val
    return val


def _real_seq(prog):
    from loki import fgen
    from loki.transformations.sanitise.sequence_associations import do_resolve_sequence_association
    sf = _parse(prog)
    try:
        for r in sf.routines:
            do_resolve_sequence_association(r)
        text = fgen(sf.ir)
    except Exception as e:
        raise TransformError(f'{type(e).__name__}: {str(e)[:120]}') from e
    return fir.export_unit(sf, main=fir.prog_main(prog)), text


def _real_dedup(prog):
    from loki import fgen
    from loki.transformations.routine_signatures import remove_duplicate_args_from_calls
    sf = _parse(prog)
    try:
        for r in sf.routines:
            remove_duplicate_args_from_calls(r)
        text = fgen(sf.ir)
    except Exception as e:
        raise TransformError(f'{type(e).__name__}: {str(e)[:120]}') from e
    return fir.export_unit(sf, main=fir.prog_main(prog)), text


def real_seq(prog):
    return _cached('seq', prog, _real_seq)


def real_dedup(prog):
    return _cached('dedup', prog, _real_dedup)


# ---------------------------------------------------------------- generator pieces for the FIR kinds

def _lit(e):
    if h(e) == 'i':
        return int(str(e[1]))
    if h(e) == 'neg' and h(e[1]) == 'i':
        return -int(str(e[1][1]))
    return None


def _decl(name, ty, intent='none', dims=(), param=None):
    return [A('decl'), A(name), A(ty), A(intent), [list(d) for d in dims], NONE if param is None else param]


def _one(ty):
    return I(1) if ty == 'int' else fir.rlit(Fraction(1, 2))


def _acc(ty, r, e):
    """r = r (+) e, kept small / exact"""
    if ty == 'int':
        return [A('assign'), V(r), CALL('mod', BIN('add', V(r), e), I(1000))]
    return [A('assign'), V(r), BIN('add', BIN('mul', V(r), fir.rlit(Fraction(1, 2))), e)]


def make_seq_leaf(rng, name, ty, rank):
    """leaf callee `name(m, c, r)` with an explicit-shape array dummy of the given rank"""
    variant = rng.choice('ABC')
    zero_based = rank == 1 and rng.random() < 0.3
    if rank == 1:
        dims = [[I(0), BIN('sub', V('m'), I(1))]] if zero_based else [[ilit(1), V('m')]]
    else:
        dims = [[ilit(1), V('m')], [ilit(1), I(2)]]
    lo1, hi1 = dims[0]
    decls = [_decl('m', 'int', 'in'), _decl('c', ty, 'in' if variant == 'B' else 'inout', dims),
             _decl('r', ty, 'inout'), _decl('i1', 'int'), _decl('i2', 'int')]

    def el(i, j=None):
        return IDX('c', i) if rank == 1 else IDX('c', i, j if j is not None else I(1))

    def loop1(body):
        return [A('do'), A('i1'), lo1, hi1, NONE, body]
    if variant == 'A':
        inner = [[A('assign'), el(V('i1'), V('i2')), BIN('add', el(V('i1'), V('i2')), _one(ty))]]
        st = loop1(inner)
        if rank == 2:
            st = [A('do'), A('i2'), I(1), I(2), NONE, [st]]
        body = [st, _acc(ty, 'r', el(lo1))]
    elif variant == 'B':
        inner = [_acc(ty, 'r', el(V('i1'), V('i2')))]
        st = loop1(inner)
        if rank == 2:
            st = [A('do'), A('i2'), I(1), I(2), NONE, [st]]
        body = [st]
    else:
        last = el(hi1, I(2))
        body = [[A('assign'), last, BIN('add', el(lo1), _one(ty))], [A('print'), el(lo1)], _acc(ty, 'r', last)]
    return [A('unit'), A(name), [A('m'), A('c'), A('r')], decls, body]


def _main_arrays(u):
    out = []
    for d in u[3]:
        name, ty, intent, dims, param = fir.decl_fields(d)
        if dims and ty in ('int', 'real') and intent != 'in' and not name.startswith('z'):
            out.append((name, ty, dims))
    return out


def _ensure_decl(u, name, ty):
    if decl_of(u, name) is None:
        u[3].append(_decl(name, ty))


def add_seq_calls(rng, base, inputs):
    """append 1-3 calls with an array ELEMENT actual bound to an array dummy (sequence association) to the main unit,
    together with their leaf callees; the result must run on every input set (else retry / give up)"""
    for attempt in range(8):
        prog = loads(dumps(base))
        u = prog[2]
        arrs = _main_arrays(u)
        if not arrs:
            return base, 0
        extra, new_units = [], []
        n_calls = rng.randint(1, 3)
        for k in range(n_calls):
            name, ty, dims = rng.choice(arrs)
            rank = 2 if (len(dims) >= 2 and rng.random() < 0.3) else 1
            leaf = f'leaf{k + 1}'
            new_units.append(make_seq_leaf(rng, leaf, ty, rank))
            subs, room, sym = [], None, False
            for j, (lo, hi) in enumerate(dims):
                l, hh = _lit(lo), _lit(hi)
                if l is not None and hh is not None:
                    s = l if rng.random() < 0.4 else rng.randint(l, hh)
                    subs.append(ilit(s))
                    if j == 0:
                        room = hh - s + 1
                else:
                    sym = True
                    subs.append(lo if rng.random() < 0.7 else hi)
            if room is None:
                cnt = V(str(dims[0][1][1])) if (_lit(dims[0][0]) == 1 and h(dims[0][1]) == 'v' and h(subs[0]) == 'i'
                                                and rng.random() < 0.5) else I(1)
            else:
                cnt = I(rng.randint(1, max(1, min(3, room + (1 if rng.random() < 0.15 else 0)))))
            r = f't9{k + 1}'
            _ensure_decl(u, r, ty)
            extra.append([A('assign'), V(r), I(0) if ty == 'int' else fir.rlit(Fraction(0))])
            call = [A('callsub'), A(leaf), cnt, IDX(name, *subs), V(r)]
            wrap = rng.random()
            if wrap < 0.2:
                extra.append([A('if'), BIN('eq', V(r), V(r)), [call], []])
            elif wrap < 0.35:
                _ensure_decl(u, 'i1', 'int')
                extra.append([A('do'), A('i1'), I(1), I(2), NONE, [call]])
            else:
                extra.append(call)
            extra.append([A('print'), V(r)])
        u[4] = list(u[4]) + extra
        prog = fir.canon(prog[:3] + new_units + prog[3:])
        if all(fir.interp(prog, inp)[0] == 'ok' for inp in inputs):
            return prog, n_calls
    return base, 0


def make_dup_leaf(rng, name, pat, ty):
    """leaf callee for a call with duplicated actual arguments; returns (unit, function building the actual list)"""
    if pat == 'arr':            # (m, c, d, r): two read-only views of the same array
        inout_d = rng.random() < 0.3
        decls = [_decl('m', 'int', 'in'), _decl('c', ty, 'in', [[ilit(1), V('m')]]),
                 _decl('d', ty, 'inout' if inout_d else 'in', [[ilit(1), V('m')]]), _decl('r', ty, 'inout'), _decl('i1', 'int')]
        body = [[A('do'), A('i1'), I(1), V('m'), NONE,
                 [_acc(ty, 'r', BIN('sub', IDX('c', V('i1')), IDX('d', BIN('sub', BIN('add', V('m'), I(1)), V('i1')))))]]]
        return [A('unit'), A(name), [A('m'), A('c'), A('d'), A('r')], decls, body], 'arr'
    if pat == 'arr3':           # three views
        decls = [_decl('c', ty, 'in', [[ilit(1), I(1)]]), _decl('m', 'int', 'in'), _decl('d', ty, 'in', [[ilit(1), V('m')]]),
                 _decl('e', ty, 'in', [[I(0), I(0)]]), _decl('r', ty, 'inout')]
        body = [_acc(ty, 'r', BIN('add', IDX('c', I(1)), BIN('sub', IDX('d', V('m')), IDX('e', I(0)))))]
        return [A('unit'), A(name), [A('c'), A('m'), A('d'), A('e'), A('r')], decls, body], 'arr3'
    if pat == 'scal':           # (y, z, r): the same scalar (or expression) twice
        decls = [_decl('y', ty, 'in'), _decl('z', ty, 'in'), _decl('r', ty, 'inout')]
        body = [[A('if'), BIN('eq', V('y'), V('z')), [_acc(ty, 'r', BIN('add', V('y'), V('z')))], [_acc(ty, 'r', V('z'))]]]
        return [A('unit'), A(name), [A('y'), A('z'), A('r')], decls, body], 'scal'
    if pat in ('lit', 'litdecl'):   # (m, k, c, r): literal passed twice; `litdecl`: the removed name k is used in a declaration
        bound = V('k') if pat == 'litdecl' else V('m')
        decls = [_decl('m', 'int', 'in'), _decl('k', 'int', 'in'), _decl('c', ty, 'inout', [[ilit(1), bound]]),
                 _decl('r', ty, 'inout')]
        body = [[A('assign'), IDX('c', V('k')), BIN('add', IDX('c', V('m')), _one(ty))], _acc(ty, 'r', IDX('c', V('k')))]
        return [A('unit'), A(name), [A('m'), A('k'), A('c'), A('r')], decls, body], pat
    if pat == 'intent':         # kept dummy intent(in) and unreferenced, removed one written: conforming original
        decls = [_decl('c', ty, 'in', [[ilit(1), I(1)]]), _decl('d', ty, 'inout', [[ilit(1), I(1)]]), _decl('r', ty, 'inout')]
        body = [[A('assign'), IDX('d', I(1)), BIN('add', IDX('d', I(1)), _one(ty))], _acc(ty, 'r', IDX('d', I(1)))]
        return [A('unit'), A(name), [A('c'), A('d'), A('r')], decls, body], 'intent'
    raise ValueError(pat)


def add_dup_calls(rng, base, inputs, special=None):
    for attempt in range(8):
        prog = loads(dumps(base))
        u = prog[2]
        arrs = _main_arrays(u)
        extra, new_units = [], []
        n_calls = rng.randint(1, 2)
        for k in range(n_calls):
            pats = ['scal', 'scal', 'lit'] + (['arr', 'arr', 'arr3'] if arrs else [])
            pat = rng.choice(pats)
            if special and k == 0:
                pat = special if (arrs or special in ('scal', 'lit', 'litdecl')) else 'scal'
            ty = rng.choice(('int', 'real'))
            name = None
            if pat in ('arr', 'arr3', 'lit', 'litdecl', 'intent'):
                if not arrs:
                    pat = 'scal'
                else:
                    name, ty, dims = rng.choice(arrs)
            leaf = f'dup{k + 1}'
            unit, kind = make_dup_leaf(rng, leaf, pat, ty)
            new_units.append(unit)
            r = f't9{k + 1}'
            _ensure_decl(u, r, ty)
            extra.append([A('assign'), V(r), I(0) if ty == 'int' else fir.rlit(Fraction(0))])
            if kind == 'arr':
                args = [I(1), V(name), V(name), V(r)]
            elif kind == 'arr3':
                args = [V(name), I(1), V(name), V(name), V(r)]
            elif kind == 'scal':
                s = f't8{k + 1}'
                _ensure_decl(u, s, ty)
                extra.append([A('assign'), V(s), I(3) if ty == 'int' else fir.rlit(Fraction(3, 2))])
                e = V(s) if rng.random() < 0.6 else BIN('add', V(s), _one(ty))
                args = [e, loads(dumps(e)), V(r)]
            elif kind in ('lit', 'litdecl'):
                args = [I(1), I(1), V(name), V(r)]
            else:
                args = [V(name), V(name), V(r)]
            call = [A('callsub'), A(leaf)] + args
            extra.append(call)
            if rng.random() < 0.3:       # a second call with the same duplication pattern (documented as supported)
                extra.append(loads(dumps(call)))
            extra.append([A('print'), V(r)])
        u[4] = list(u[4]) + extra
        prog = fir.canon(prog[:3] + new_units + prog[3:])
        if all(fir.interp(prog, inp)[0] == 'ok' for inp in inputs):
            return prog, n_calls
    return base, 0


# ---------------------------------------------------------------- Python mirrors of the Lean class predicates (C34/Model.lean)

def ex_names(e):
    if not isinstance(e, list):
        return []
    k = h(e)
    if k == 'v':
        return [str(e[1])]
    if k in ('idx', 'sec'):
        return [str(e[1])] + [x for c in e[2:] for x in ex_names(c)]
    if k == 'call':
        return [x for c in e[2:] for x in ex_names(c)]
    if k in ('i', 'r', 'b'):
        return []
    return [x for c in e[1:] for x in ex_names(c)]


def stmts_names(ss):
    out = []
    for s in ss:
        k = h(s)
        if k == 'assign':
            out += ex_names(s[1]) + ex_names(s[2])
        elif k == 'do':
            out += [str(s[1])] + ex_names(s[2]) + ex_names(s[3]) + ex_names(s[4])
        elif k in ('while', 'if', 'select'):
            out += ex_names(s[1])
        elif k == 'assoc':
            out += [x for b in s[1] for x in ex_names(b[1])]
        elif k == 'callsub':
            out += [x for a in s[2:] for x in ex_names(a)]
        elif k == 'print':
            out += [x for a in s[1:] for x in ex_names(a)]
        for l in sub_lists(s):
            out += stmts_names(l)
    return out


def assoc_names(ss):
    out = []
    for s in ss:
        if h(s) == 'assoc':
            out += [str(b[0]) for b in s[1]]
        for l in sub_lists(s):
            out += assoc_names(l)
    return out


def undeclared_use(u):
    """Lean: undeclaredUse"""
    declared = {str(d[1]) for d in u[3]} | set(assoc_names(u[4]))
    used = stmts_names(u[4]) + [x for d in u[3] for b in d[4] for x in ex_names(b[0]) + ex_names(b[1])]
    return any(x not in declared for x in used)


def known_dedup_left(tp):
    """Lean: KnownDedupLeft"""
    return any(undeclared_use(u) for u in units(tp))


def _target(a):
    return [str(a[1])] if h(a) in ('v', 'idx', 'sec') else []


def written_in(prog, ss):
    """Lean: writtenIn"""
    um = unit_map(prog)
    out = []
    for s in ss:
        k = h(s)
        if k == 'assign':
            out += _target(s[1])
        elif k == 'do':
            out.append(str(s[1]))
        elif k == 'callsub':
            g = um.get(str(s[1]))
            if g is None:
                out += [x for a in s[2:] for x in ex_names(a)]
            else:
                for d, a in zip(g[2], s[2:]):
                    dd = decl_of(g, str(d))
                    if dd is not None and str(dd[3]) != 'in':
                        out += _target(a)
        for l in sub_lists(s):
            out += written_in(prog, l)
    return out


def ex_eq(a, b):
    """Lean: beqEx (wire forms are canonical)"""
    return dumps(a) == dumps(b)


def group_args(dummies, args):
    """Lean: groupArgs"""
    gs = []
    for d, a in zip(dummies, args):
        for g in gs:
            if ex_eq(g[0], a):
                g[1].append(str(d))
                break
        else:
            gs.append([a, [str(d)]])
    return gs


def dedup_groups(prog):
    """[(callee unit, groups)] for every call of the ORIGINAL program whose callee is known"""
    um = unit_map(prog)
    out = []
    for u in units(prog):
        for c in all_calls(u[4]):
            g = um.get(str(c[1]))
            if g is not None:
                out.append((g, group_args(g[2], c[2:])))
    return out


def known_dedup_intent(prog):
    """Lean: KnownDedupIntent on some call of the program"""
    for g, gs in dedup_groups(prog):
        w = set(written_in(prog, g[4]))
        for _, ds in gs:
            if len(ds) >= 2:
                d0 = decl_of(g, ds[0])
                if d0 is not None and str(d0[3]) == 'in' and any(r in w for r in ds[1:]):
                    return True
    return False


def dedup_alias_written(prog):
    """Lean: DedupAliasWritten on some call of the program (precondition of the transformation, Fortran's aliasing rule)"""
    for g, gs in dedup_groups(prog):
        w = set(written_in(prog, g[4]))
        if any(len(ds) >= 2 and any(r in w for r in ds) for _, ds in gs):
            return True
    return False


def has_dups(prog):
    return any(len(ds) >= 2 for g, gs in dedup_groups(prog) for _, ds in gs)


def seq_sites(prog):
    """[(caller, callee, dummy, actual)] for every element actual bound to an array dummy (Lean: seqArg rewrites it)"""
    um = unit_map(prog)
    out = []
    for u in units(prog):
        for c in all_calls(u[4]):
            g = um.get(str(c[1]))
            if g is None:
                continue
            for d, a in zip(g[2], c[2:]):
                if h(a) != 'idx':
                    continue
                dx, dd = decl_of(u, str(a[1])), decl_of(g, str(d))
                if dx is None or dd is None or not dx[4] or not dd[4] or len(a) <= 2:
                    continue
                out.append((u, g, dd, a, dx))
    return out


def known_seq_rank(prog):
    """Lean: KnownSeqRank at some rewritten actual"""
    for u, g, dd, a, dx in seq_sites(prog):
        k = len(dd[4])
        if k >= 2 and not all(ex_eq(d[0], s) for d, s in list(zip(dx[4], a[2:]))[:k - 1]):
            return True
    return False


class _ShortProbe(SecInterp):
    """records, for every call with a section actual, dummy size vs section size (Lean: KnownSeqShort n len)"""

    def exec_call(self, f, s, st):
        u = self.units.get(str(s[1]))
        r = super().exec_call(f, s, st)
        return r

    def enter_unit(self, u, get_data, msg):
        cs, decls, args = super().enter_unit(u, get_data, msg)
        for k, x in enumerate(args):
            c = cs.cell(x)
            if c is not None and c.bounds is not None:
                try:
                    n = len(get_data(k, x))
                except Exception:
                    continue
                if n < len(c.data):
                    self.short.append((str(u[1]), len(c.data), n))
        return cs, decls, args


def known_seq_short(tp, inputs):
    """Lean: KnownSeqShort — in some run of the transformed program a dummy array is longer than the data passed to it"""
    for inp in inputs:
        it = _ShortProbe(tp)
        try:
            it.run_main(inp, 100000)
        except Exception:
            pass
        if it.short:
            return True
    return False


# ---------------------------------------------------------------- requests

def decode(req):
    kind = h(req)
    if kind in ('seq', 'dedup'):
        if len(req) != 4 or h(req[1]) != 'program' or not isinstance(req[2], list) or not isinstance(req[2][0] if req[2] else [], list):
            raise ValueError('malformed request')
        prog, inputs, flag = req[1], req[2], str(req[3])
        if len(prog) < 3 or any(h(u) != 'unit' or len(u) != 5 for u in prog[2:]):
            raise ValueError('malformed program')
        return kind, prog, inputs, flag
    if kind == 'src':
        if len(req) != 4 or not isinstance(req[2], list):
            raise ValueError('malformed request')
        return kind, str(req[1]), req[2], str(req[3])
    raise ValueError('unknown request kind')
