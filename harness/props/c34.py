"""C34 — call-signature rewrites preserve behaviour: sequence-association resolution, duplicate-argument removal
(both modelled on FIR, with theorems), explicit argument shapes, derived-type argument expansion and type-bound call
flattening (generated Fortran call trees, original vs really transformed, compiled and run by gfortran)."""
import os
import random as _random
import shutil
import subprocess
import tempfile
from fractions import Fraction

from ..core import Prop, Case, Failure, REPO
from ..sexpr import A, dumps, loads
from .. import fir
from ..fir import I, V, IDX, SEC, AT, RNG, BIN, CALL, NONE, ilit

# known-finding classes (Python mirrors of the Lean `Known…` definitions in LokiModel/C34/Model.lean)
K_SEQ_RANK = 'seq-multirank-dummy-offset'         # KnownSeqRank
K_SEQ_SHORT = 'seq-section-shorter-than-dummy'    # KnownSeqShort
K_SEQ_KW = 'seq-keyword-arguments-duplicated'     # KnownSeqKw (source kind)
K_DD_INTENT = 'dedup-kept-dummy-intent-in'        # KnownDedupIntent
K_DD_ALIAS = 'dedup-aliased-dummy-written'        # precondition class (non-conforming original), not a finding
K_SH_LB = 'shape-lower-bound-imported'            # KnownShapeLb
K_SH_CAP = 'shape-symbol-captured'                # KnownShapeCapture
K_DT_LB = 'dtype-member-lower-bound-lost'         # KnownDtLb
K_DT_CLASH = 'dtype-expanded-name-clash'          # KnownDtClash
K_TB_PASS = 'tbound-pass-not-first'               # KnownTbPass
K_TB_NOPASS = 'tbound-nopass'                     # KnownTbNopass


def h(x):
    return str(x[0]) if isinstance(x, list) and x else None


def units(prog):
    return prog[2:]


def unit_map(prog):
    return {str(u[1]): u for u in units(prog)}


def decl_of(u, x):
    for d in u[3]:
        if str(d[1]) == x:
            return d
    return None


def is_comment(s):
    return h(s) == 'nop' and str(s[1]) == 'comment'


def norm_prog(prog):
    """normalisation of the correspondence: comment nops dropped"""
    return fir.canon(fir.map_program(fir.canon(prog), fs=lambda ss: [s for s in ss if not is_comment(s)]))


def sub_lists(s):
    k = h(s)
    if k == 'do':
        return [s[5]]
    if k == 'while':
        return [s[2]]
    if k == 'if':
        return [s[2], s[3]]
    if k == 'select':
        return [c[1] for c in s[2]] + [s[3]]
    if k == 'assoc':
        return [s[2]]
    return []


def all_calls(ss):
    """call statements in FindNodes order (pre-order)"""
    out = []
    for s in ss:
        if h(s) == 'callsub':
            out.append(s)
        for l in sub_lists(s):
            out += all_calls(l)
    return out


# ---------------------------------------------------------------- interpreter with array-section actual arguments

class SecInterp(fir.Interp):
    """reference interpreter extended by array sections as actual arguments (what the resolved calls contain): the
    elements of the section in array element order are copied in and out (F2018 15.5.2.4: a non-contiguous section
    passed to an explicit-shape dummy is passed through a contiguous temporary); the section is established when
    the call starts.  A dummy longer than the section has its remaining elements undefined (`strict`), which is how
    a too short section shows."""

    def __init__(self, prog, stats=None):
        super().__init__(prog, stats)
        self._sec = {}
        self.short = []          # (callee, dummy size, section size) of calls whose section is shorter than the dummy

    def _sec_offsets(self, st, a):
        x = str(a[1])
        if st.loc(x) is not None:
            raise fir._Fail()
        c = st.cell(x)
        if c is None or c.bounds is None:
            raise fir._Fail()
        shape = self.sec_shape(st, c.bounds, a[2:])
        offs = []
        for p in fir._positions(shape):
            idx = self.eval_sec(st, (), c.bounds, a[2:], p)
            offs.append(fir._offset(c.bounds, idx))
        return x, offs

    def actual_data(self, st, a, where=None):
        if h(a) == 'sec':
            x, offs = self._sec_offsets(st, a)
            self._sec[id(a)] = (x, offs)
            c = st.cell(x)
            return [c.data[o] for o in offs]
        return super().actual_data(st, a, where)

    def write_back(self, st, a, vals, where=None):
        if h(a) == 'sec':
            x, offs = self._sec.get(id(a)) or self._sec_offsets(st, a)
            c = st.cell(x)
            for o, v in zip(offs, vals):
                c.data[o] = v
            return
        return super().write_back(st, a, vals, where)


def sec_interp(prog, inputs, fuel=100000):
    return SecInterp(prog).run_main(inputs, fuel)


# ---------------------------------------------------------------- real transformations on FIR programs

class TransformError(Exception):
    pass


def _parse(prog):
    sf = fir.parse_fortran(fir.emit_fortran(prog, wrap_program=False))
    try:
        fir.export_unit(sf, main=fir.prog_main(prog))
    except fir.Unsupported as e:
        raise ValueError(f'request program is outside FIR after parsing: {e.kind}') from e
    rs = list(sf.routines)
    for r in rs:
        r.enrich(rs)
    return sf


_CACHE = {}
_TEXT0 = {}     # fgen text of the untransformed parse (baseline for the syntax check: printer defects belong to C06/C02)


def _cached(kind, prog, fn):
    key = kind + dumps(prog)
    if key not in _CACHE:
        if len(_CACHE) > 64:
            _CACHE.clear()
        try:
            _CACHE[key] = ('ok', fn(prog))
        except Exception as e:      # noqa
            _CACHE[key] = ('exc', e)
    tag, val = _CACHE[key]
    if tag == 'exc':
        raise val
    return val


def _real_seq(prog):
    from loki import fgen
    from loki.transformations.sanitise.sequence_associations import do_resolve_sequence_association
    sf = _parse(prog)
    try:
        _TEXT0[dumps(prog)] = fgen(sf.ir)
        for r in sf.routines:
            do_resolve_sequence_association(r)
        text = fgen(sf.ir)
    except Exception as e:
        raise TransformError(f'{type(e).__name__}: {str(e)[:120]}') from e
    return fir.export_unit(sf, main=fir.prog_main(prog)), text


def _real_dedup(prog):
    from loki import fgen
    from loki.transformations.routine_signatures import remove_duplicate_args_from_calls
    sf = _parse(prog)
    try:
        _TEXT0[dumps(prog)] = fgen(sf.ir)
        for r in sf.routines:
            remove_duplicate_args_from_calls(r)
        text = fgen(sf.ir)
    except Exception as e:
        raise TransformError(f'{type(e).__name__}: {str(e)[:120]}') from e
    return fir.export_unit(sf, main=fir.prog_main(prog)), text


def real_seq(prog):
    return _cached('seq', prog, _real_seq)


def real_dedup(prog):
    return _cached('dedup', prog, _real_dedup)


# ---------------------------------------------------------------- generator pieces for the FIR kinds

def _lit(e):
    if h(e) == 'i':
        return int(str(e[1]))
    if h(e) == 'neg' and h(e[1]) == 'i':
        return -int(str(e[1][1]))
    return None


def _decl(name, ty, intent='none', dims=(), param=None):
    return [A('decl'), A(name), A(ty), A(intent), [list(d) for d in dims], NONE if param is None else param]


def _one(ty):
    return I(1) if ty == 'int' else fir.rlit(Fraction(1, 2))


def _acc(ty, r, e):
    """r = r (+) e, kept small / exact"""
    if ty == 'int':
        return [A('assign'), V(r), CALL('mod', BIN('add', V(r), e), I(1000))]
    return [A('assign'), V(r), BIN('add', BIN('mul', V(r), fir.rlit(Fraction(1, 2))), e)]


def make_seq_leaf(rng, name, ty, rank):
    """leaf callee `name(m, c, r)` with an explicit-shape array dummy of the given rank"""
    variant = rng.choice('ABC')
    zero_based = rank == 1 and rng.random() < 0.3
    if rank == 1:
        dims = [[I(0), BIN('sub', V('m'), I(1))]] if zero_based else [[ilit(1), V('m')]]
    else:
        dims = [[ilit(1), V('m')], [ilit(1), I(2)]]
    lo1, hi1 = dims[0]
    decls = [_decl('m', 'int', 'in'), _decl('c', ty, 'in' if variant == 'B' else 'inout', dims),
             _decl('r', ty, 'inout'), _decl('i1', 'int'), _decl('i2', 'int')]

    def el(i, j=None):
        return IDX('c', i) if rank == 1 else IDX('c', i, j if j is not None else I(1))

    def loop1(body):
        return [A('do'), A('i1'), lo1, hi1, NONE, body]
    if variant == 'A':
        inner = [[A('assign'), el(V('i1'), V('i2')), BIN('add', el(V('i1'), V('i2')), _one(ty))]]
        st = loop1(inner)
        if rank == 2:
            st = [A('do'), A('i2'), I(1), I(2), NONE, [st]]
        body = [st, _acc(ty, 'r', el(lo1))]
    elif variant == 'B':
        inner = [_acc(ty, 'r', el(V('i1'), V('i2')))]
        st = loop1(inner)
        if rank == 2:
            st = [A('do'), A('i2'), I(1), I(2), NONE, [st]]
        body = [st]
    else:
        last = el(hi1, I(2))
        body = [[A('assign'), last, BIN('add', el(lo1), _one(ty))], [A('print'), el(lo1)], _acc(ty, 'r', last)]
    return [A('unit'), A(name), [A('m'), A('c'), A('r')], decls, body]


def _main_arrays(u):
    out = []
    for d in u[3]:
        name, ty, intent, dims, param = fir.decl_fields(d)
        if dims and ty in ('int', 'real') and intent != 'in' and not name.startswith('z'):
            out.append((name, ty, dims))
    return out


def _ensure_decl(u, name, ty):
    if decl_of(u, name) is None:
        u[3].append(_decl(name, ty))


def add_seq_calls(rng, base, inputs):
    """append 1-3 calls with an array ELEMENT actual bound to an array dummy (sequence association) to the main unit,
    together with their leaf callees; the result must run on every input set (else retry / give up)"""
    for attempt in range(8):
        prog = loads(dumps(base))
        u = prog[2]
        arrs = _main_arrays(u)
        if not arrs:
            return base, 0
        extra, new_units = [], []
        n_calls = rng.randint(1, 3)
        for k in range(n_calls):
            name, ty, dims = rng.choice(arrs)
            rank = 2 if (len(dims) >= 2 and rng.random() < 0.3) else 1
            leaf = f'leaf{k + 1}'
            new_units.append(make_seq_leaf(rng, leaf, ty, rank))
            subs, room, sym = [], None, False
            for j, (lo, hi) in enumerate(dims):
                l, hh = _lit(lo), _lit(hi)
                if l is not None and hh is not None:
                    s = l if rng.random() < 0.4 else rng.randint(l, hh)
                    subs.append(ilit(s))
                    if j == 0:
                        room = hh - s + 1
                else:
                    sym = True
                    subs.append(lo if rng.random() < 0.7 else hi)
            if room is None:
                cnt = V(str(dims[0][1][1])) if (_lit(dims[0][0]) == 1 and h(dims[0][1]) == 'v' and h(subs[0]) == 'i'
                                                and rng.random() < 0.5) else I(1)
            else:
                cnt = I(rng.randint(1, max(1, min(3, room + (1 if rng.random() < 0.15 else 0)))))
            r = f't9{k + 1}'
            _ensure_decl(u, r, ty)
            extra.append([A('assign'), V(r), I(0) if ty == 'int' else fir.rlit(Fraction(0))])
            call = [A('callsub'), A(leaf), cnt, IDX(name, *subs), V(r)]
            wrap = rng.random()
            if wrap < 0.2:
                extra.append([A('if'), BIN('eq', V(r), V(r)), [call], []])
            elif wrap < 0.35:
                _ensure_decl(u, 'i1', 'int')
                extra.append([A('do'), A('i1'), I(1), I(2), NONE, [call]])
            else:
                extra.append(call)
            extra.append([A('print'), V(r)])
        u[4] = list(u[4]) + extra
        prog = fir.canon(prog[:3] + new_units + prog[3:])
        if all(fir.interp(prog, inp)[0] == 'ok' for inp in inputs):
            return prog, n_calls
    return base, 0


def make_dup_leaf(rng, name, pat, ty):
    """leaf callee for a call with duplicated actual arguments; returns (unit, function building the actual list)"""
    if pat == 'arr':            # (m, c, d, r): two read-only views of the same array
        inout_d = rng.random() < 0.3
        decls = [_decl('m', 'int', 'in'), _decl('c', ty, 'in', [[ilit(1), V('m')]]),
                 _decl('d', ty, 'inout' if inout_d else 'in', [[ilit(1), V('m')]]), _decl('r', ty, 'inout'), _decl('i1', 'int')]
        body = [[A('do'), A('i1'), I(1), V('m'), NONE,
                 [_acc(ty, 'r', BIN('sub', IDX('c', V('i1')), IDX('d', BIN('sub', BIN('add', V('m'), I(1)), V('i1')))))]]]
        return [A('unit'), A(name), [A('m'), A('c'), A('d'), A('r')], decls, body], 'arr'
    if pat == 'arr3':           # three views
        decls = [_decl('c', ty, 'in', [[ilit(1), I(1)]]), _decl('m', 'int', 'in'), _decl('d', ty, 'in', [[ilit(1), V('m')]]),
                 _decl('e', ty, 'in', [[I(0), I(0)]]), _decl('r', ty, 'inout')]
        body = [_acc(ty, 'r', BIN('add', IDX('c', I(1)), BIN('sub', IDX('d', V('m')), IDX('e', I(0)))))]
        return [A('unit'), A(name), [A('c'), A('m'), A('d'), A('e'), A('r')], decls, body], 'arr3'
    if pat == 'scal':           # (y, z, r): the same scalar (or expression) twice
        decls = [_decl('y', ty, 'in'), _decl('z', ty, 'in'), _decl('r', ty, 'inout')]
        body = [[A('if'), BIN('eq', V('y'), V('z')), [_acc(ty, 'r', BIN('add', V('y'), V('z')))], [_acc(ty, 'r', V('z'))]]]
        return [A('unit'), A(name), [A('y'), A('z'), A('r')], decls, body], 'scal'
    if pat in ('lit', 'litdecl'):   # (m, k, c, r): literal passed twice; `litdecl`: the removed name k is used in a declaration
        bound = V('k') if pat == 'litdecl' else V('m')
        decls = [_decl('m', 'int', 'in'), _decl('k', 'int', 'in'), _decl('c', ty, 'inout', [[ilit(1), bound]]),
                 _decl('r', ty, 'inout')]
        body = [[A('assign'), IDX('c', V('k')), BIN('add', IDX('c', V('m')), _one(ty))], _acc(ty, 'r', IDX('c', V('k')))]
        return [A('unit'), A(name), [A('m'), A('k'), A('c'), A('r')], decls, body], pat
    if pat in ('nested', 'print'):   # (m, k, c, d, r): `d(k)` with both d and k removed / PRINT mentions a removed dummy
        decls = [_decl('m', 'int', 'in'), _decl('k', 'int', 'in'), _decl('c', ty, 'in', [[ilit(1), V('m')]]),
                 _decl('d', ty, 'in', [[ilit(1), V('m')]]), _decl('r', ty, 'inout')]
        if pat == 'nested':
            body = [_acc(ty, 'r', BIN('add', IDX('c', V('m')), IDX('d', V('k'))))]
        else:
            body = [_acc(ty, 'r', BIN('add', IDX('c', V('m')), IDX('d', V('m')))), [A('print'), IDX('d', I(1))]]
        return [A('unit'), A(name), [A('m'), A('k'), A('c'), A('d'), A('r')], decls, body], 'nested'
    if pat == 'intent':         # kept dummy intent(in) and unreferenced, removed one written: conforming original
        decls = [_decl('c', ty, 'in', [[ilit(1), I(1)]]), _decl('d', ty, 'inout', [[ilit(1), I(1)]]), _decl('r', ty, 'inout')]
        body = [[A('assign'), IDX('d', I(1)), BIN('add', IDX('d', I(1)), _one(ty))], _acc(ty, 'r', IDX('d', I(1)))]
        return [A('unit'), A(name), [A('c'), A('d'), A('r')], decls, body], 'intent'
    raise ValueError(pat)


def add_dup_calls(rng, base, inputs, special=None):
    for attempt in range(8):
        prog = loads(dumps(base))
        u = prog[2]
        arrs = _main_arrays(u)
        extra, new_units = [], []
        n_calls = rng.randint(1, 2)
        for k in range(n_calls):
            pats = ['scal', 'scal', 'lit'] + (['arr', 'arr', 'arr3'] if arrs else [])
            pat = rng.choice(pats)
            if special and k == 0:
                pat = special if arrs else 'scal'
            ty = rng.choice(('int', 'real'))
            name = None
            if pat in ('arr', 'arr3', 'lit', 'litdecl', 'intent', 'nested', 'print'):
                if not arrs:
                    pat = 'scal'
                else:
                    name, ty, dims = rng.choice(arrs)
            leaf = f'dup{k + 1}'
            unit, kind = make_dup_leaf(rng, leaf, pat, ty)
            new_units.append(unit)
            r = f't9{k + 1}'
            _ensure_decl(u, r, ty)
            extra.append([A('assign'), V(r), I(0) if ty == 'int' else fir.rlit(Fraction(0))])
            if kind == 'arr':
                args = [I(1), V(name), V(name), V(r)]
            elif kind == 'arr3':
                args = [V(name), I(1), V(name), V(name), V(r)]
            elif kind == 'scal':
                s = f't8{k + 1}'
                _ensure_decl(u, s, ty)
                extra.append([A('assign'), V(s), I(3) if ty == 'int' else fir.rlit(Fraction(3, 2))])
                e = V(s) if rng.random() < 0.6 else BIN('add', V(s), _one(ty))
                args = [e, loads(dumps(e)), V(r)]
            elif kind in ('lit', 'litdecl'):
                args = [I(1), I(1), V(name), V(r)]
            elif kind == 'nested':
                args = [I(1), I(1), V(name), V(name), V(r)]
            else:
                args = [V(name), V(name), V(r)]
            call = [A('callsub'), A(leaf)] + args
            extra.append(call)
            if rng.random() < 0.3:       # a second call with the same duplication pattern (documented as supported)
                extra.append(loads(dumps(call)))
            extra.append([A('print'), V(r)])
        u[4] = list(u[4]) + extra
        prog = fir.canon(prog[:3] + new_units + prog[3:])
        if all(fir.interp(prog, inp)[0] == 'ok' for inp in inputs):
            return prog, n_calls
    return base, 0


# ---------------------------------------------------------------- Python mirrors of the Lean class predicates (C34/Model.lean)

def ex_names(e):
    if not isinstance(e, list):
        return []
    k = h(e)
    if k == 'v':
        return [str(e[1])]
    if k in ('idx', 'sec'):
        return [str(e[1])] + [x for c in e[2:] for x in ex_names(c)]
    if k == 'call':
        return [x for c in e[2:] for x in ex_names(c)]
    if k in ('i', 'r', 'b'):
        return []
    return [x for c in e[1:] for x in ex_names(c)]


def stmts_names(ss):
    out = []
    for s in ss:
        k = h(s)
        if k == 'assign':
            out += ex_names(s[1]) + ex_names(s[2])
        elif k == 'do':
            out += [str(s[1])] + ex_names(s[2]) + ex_names(s[3]) + ex_names(s[4])
        elif k in ('while', 'if', 'select'):
            out += ex_names(s[1])
        elif k == 'assoc':
            out += [x for b in s[1] for x in ex_names(b[1])]
        elif k == 'callsub':
            out += [x for a in s[2:] for x in ex_names(a)]
        elif k == 'print':
            out += [x for a in s[1:] for x in ex_names(a)]
        for l in sub_lists(s):
            out += stmts_names(l)
    return out


def assoc_names(ss):
    out = []
    for s in ss:
        if h(s) == 'assoc':
            out += [str(b[0]) for b in s[1]]
        for l in sub_lists(s):
            out += assoc_names(l)
    return out


def undeclared_use(u):
    """Lean: undeclaredUse"""
    declared = {str(d[1]) for d in u[3]} | set(assoc_names(u[4]))
    used = stmts_names(u[4]) + [x for d in u[3] for b in d[4] for x in ex_names(b[0]) + ex_names(b[1])]
    return any(x not in declared for x in used)


def known_dedup_left(tp):
    """Lean: KnownDedupLeft"""
    return any(undeclared_use(u) for u in units(tp))


def _target(a):
    return [str(a[1])] if h(a) in ('v', 'idx', 'sec') else []


def written_in(prog, ss):
    """Lean: writtenIn"""
    um = unit_map(prog)
    out = []
    for s in ss:
        k = h(s)
        if k == 'assign':
            out += _target(s[1])
        elif k == 'do':
            out.append(str(s[1]))
        elif k == 'callsub':
            g = um.get(str(s[1]))
            if g is None:
                out += [x for a in s[2:] for x in ex_names(a)]
            else:
                for d, a in zip(g[2], s[2:]):
                    dd = decl_of(g, str(d))
                    if dd is not None and str(dd[3]) != 'in':
                        out += _target(a)
        for l in sub_lists(s):
            out += written_in(prog, l)
    return out


def ex_eq(a, b):
    """Lean: beqEx (wire forms are canonical)"""
    return dumps(a) == dumps(b)


def group_args(dummies, args):
    """Lean: groupArgs"""
    gs = []
    for d, a in zip(dummies, args):
        for g in gs:
            if ex_eq(g[0], a):
                g[1].append(str(d))
                break
        else:
            gs.append([a, [str(d)]])
    return gs


def dedup_groups(prog):
    """[(callee unit, groups)] for every call of the ORIGINAL program whose callee is known"""
    um = unit_map(prog)
    out = []
    for u in units(prog):
        for c in all_calls(u[4]):
            g = um.get(str(c[1]))
            if g is not None:
                out.append((g, group_args(g[2], c[2:])))
    return out


def known_dedup_intent(prog):
    """Lean: KnownDedupIntent on some call of the program"""
    for g, gs in dedup_groups(prog):
        w = set(written_in(prog, g[4]))
        for _, ds in gs:
            if len(ds) >= 2:
                d0 = decl_of(g, ds[0])
                if d0 is not None and str(d0[3]) == 'in' and any(r in w for r in ds[1:]):
                    return True
    return False


def dedup_alias_written(prog):
    """Lean: DedupAliasWritten on some call of the program (precondition of the transformation, Fortran's aliasing rule)"""
    for g, gs in dedup_groups(prog):
        w = set(written_in(prog, g[4]))
        if any(len(ds) >= 2 and any(r in w for r in ds) for _, ds in gs):
            return True
    return False


def has_dups(prog):
    return any(len(ds) >= 2 for g, gs in dedup_groups(prog) for _, ds in gs)


def seq_sites(prog):
    """[(caller, callee, dummy, actual)] for every element actual bound to an array dummy (Lean: seqArg rewrites it)"""
    um = unit_map(prog)
    out = []
    for u in units(prog):
        for c in all_calls(u[4]):
            g = um.get(str(c[1]))
            if g is None:
                continue
            for d, a in zip(g[2], c[2:]):
                if h(a) != 'idx':
                    continue
                dx, dd = decl_of(u, str(a[1])), decl_of(g, str(d))
                if dx is None or dd is None or not dx[4] or not dd[4] or len(a) <= 2:
                    continue
                out.append((u, g, dd, a, dx))
    return out


def known_seq_rank(prog):
    """Lean: KnownSeqRank at some rewritten actual"""
    for u, g, dd, a, dx in seq_sites(prog):
        k = len(dd[4])
        if k >= 2 and not all(ex_eq(d[0], s) for d, s in list(zip(dx[4], a[2:]))[:k - 1]):
            return True
    return False


class _ShortProbe(SecInterp):
    """records, for every call with a section actual, dummy size vs section size (Lean: KnownSeqShort n len)"""

    def exec_call(self, f, s, st):
        u = self.units.get(str(s[1]))
        r = super().exec_call(f, s, st)
        return r

    def enter_unit(self, u, get_data, msg):
        cs, decls, args = super().enter_unit(u, get_data, msg)
        for k, x in enumerate(args):
            c = cs.cell(x)
            if c is not None and c.bounds is not None:
                try:
                    n = len(get_data(k, x))
                except Exception:
                    continue
                if n < len(c.data):
                    self.short.append((str(u[1]), len(c.data), n))
        return cs, decls, args


def known_seq_short(tp, inputs):
    """Lean: KnownSeqShort — in some run of the transformed program a dummy array is longer than the data passed to it"""
    for inp in inputs:
        it = _ShortProbe(tp)
        try:
            it.run_main(inp, 100000)
        except Exception:
            pass
        if it.short:
            return True
    return False


# ---------------------------------------------------------------- requests

def decode(req):
    kind = h(req)
    if kind in ('seq', 'dedup'):
        if len(req) != 4 or h(req[1]) != 'program' or not isinstance(req[2], list) or not isinstance(req[2][0] if req[2] else [], list):
            raise ValueError('malformed request')
        prog, inputs, flag = req[1], req[2], str(req[3])
        if len(prog) < 3 or any(h(u) != 'unit' or len(u) != 5 for u in prog[2:]):
            raise ValueError('malformed program')
        return kind, prog, inputs, flag
    if kind == 'src':
        if len(req) != 4 or not isinstance(req[2], list):
            raise ValueError('malformed request')
        return kind, str(req[1]), req[2], str(req[3])
    raise ValueError('unknown request kind')


# ---------------------------------------------------------------- generated Fortran call trees (outside FIR): gfortran oracle

def spec_get(spec, key, default=None):
    for kv in spec:
        if str(kv[0]) == key:
            v = kv[1]
            try:
                return int(str(v))
            except ValueError:
                return str(v)
    return default


def mk_spec(**kw):
    return [[A(k), (v if isinstance(v, int) else A(str(v)))] for k, v in sorted(kw.items())]


def _dim(lb, ext):
    """declared dimension with lower bound lb and extent expression ext (a name or a number)"""
    if lb == 1:
        return f'{ext}'
    if str(ext).lstrip('-').isdigit():
        return f'{lb}:{int(ext) + lb - 1}'
    off = lb - 1
    return f'{lb}:{ext}' + (f' + {off}' if off > 0 else f' - {-off}' if off < 0 else '')


def render_shape(spec):
    rank, lb1, lb2 = spec_get(spec, 'rank'), spec_get(spec, 'lb1'), spec_get(spec, 'lb2')
    cap, pas, nest = spec_get(spec, 'capture'), spec_get(spec, 'pass'), spec_get(spec, 'nest')
    n, m, k = spec_get(spec, 'n'), spec_get(spec, 'm'), spec_get(spec, 'k')
    jn = 'n' if cap else 'j'
    if pas == 'col':
        actual, crank = f'a(:, {lb2 + 1})', 1
        adecl = f'a({_dim(lb1, "n")}, {_dim(lb2, "m")})'
    elif rank == 2:
        actual, crank = 'a', 2
        adecl = f'a({_dim(lb1, "n")}, {_dim(lb2, "m")})'
    else:
        actual, crank = 'a', 1
        adecl = f'a({_dim(lb1, "n")})'
    cd = ':, :' if crank == 2 else ':'
    e = (lambda i, j=1: f'c({i}, {j})') if crank == 2 else (lambda i, j=1: f'c({i})')
    nested = ''
    sub2 = ''
    if nest:
        nested = f'    call sub2({"c(:, 1)" if crank == 2 else "c"}, r)\n'
        sub2 = ('  subroutine sub2(d, r)\n    integer, intent(inout) :: d(:)\n    integer, intent(inout) :: r\n'
                '    d(2) = d(1) + d(2)\n    r = r + d(2) + size(d)\n  end subroutine sub2\n')
    mod = f'''module cmod
  implicit none
contains
  subroutine kernel(n, m, a, res)
    integer, intent(in) :: n, m
    integer, intent(inout) :: {adecl}
    integer, intent(out) :: res
    integer :: k
    k = {k}
    call sub1({actual}, k, res)
  end subroutine kernel
  subroutine sub1(c, {jn}, r)
    integer, intent(inout) :: c({cd})
    integer, intent(in) :: {jn}
    integer, intent(out) :: r
    {e(1)} = {e(2)} + {jn}
    {e(jn, 2)} = 7
    r = {e(1)} * 10 + size(c, 1)
{nested}  end subroutine sub1
{sub2}end module cmod
'''
    shape = f'{_dim(lb1, n)}, {_dim(lb2, m)}' if (rank == 2 or pas == 'col') else f'{_dim(lb1, n)}'
    total = n * m if (rank == 2 or pas == 'col') else n
    drv = f'''program cmain
  use cmod
  implicit none
  integer :: a({shape}), res, i
  a = reshape([(3 * i + 1, i = 1, {total})], shape(a))
  call kernel({n}, {m}, a, res)
  print *, res
  print *, a
end program cmain
'''
    return mod, drv


def classes_shape(spec):
    cs = []
    rank, pas = spec_get(spec, 'rank'), spec_get(spec, 'pass')
    lbs = [spec_get(spec, 'lb1')] + ([spec_get(spec, 'lb2')] if (rank == 2 and pas != 'col') else [])
    if any(lb != 1 for lb in lbs):
        cs.append(K_SH_LB)          # Lean: KnownShapeLb
    if spec_get(spec, 'capture'):
        cs.append(K_SH_CAP)         # Lean: KnownShapeCapture
    return cs


def transform_shape(sf):
    from loki.transformations.argument_shape import ArgumentArrayShapeAnalysis, ExplicitArgumentArrayShapeTransformation
    mod = sf['cmod']
    order = [r for r in mod.subroutines]
    for r in order:
        r.enrich(order)
    for r in order:
        ArgumentArrayShapeAnalysis().transform_subroutine(r, role='kernel')
    for r in reversed(order):
        ExplicitArgumentArrayShapeTransformation().transform_subroutine(r, role='kernel')


def render_dtype(spec):
    lbq, lbv, clash, nested = spec_get(spec, 'lbq'), spec_get(spec, 'lbv'), spec_get(spec, 'clash'), spec_get(spec, 'nested')
    n, s0 = spec_get(spec, 'n'), spec_get(spec, 's')
    loc = 't_s' if clash else 'w'
    call2 = '    call sub2(t%in, r)\n' if nested else ''
    sub2 = ''
    if nested:
        sub2 = (f'  subroutine sub2(x, r)\n    type(inner), intent(inout) :: x\n    integer, intent(inout) :: r\n'
                f'    x%q({lbq + 2}) = x%q({lbq}) + 3\n    x%p%g = x%p%g + 1\n    r = r + x%q({lbq + 2}) + x%p%g\n  end subroutine sub2\n')
    mod = f'''module cmod
  implicit none
  type leaf
    integer :: g
  end type leaf
  type inner
    integer :: q({lbq}:{lbq + 2})
    type(leaf) :: p
  end type inner
  type outer
    integer :: s
    integer, allocatable :: v(:)
    type(inner) :: in
  end type outer
contains
  subroutine kernel(n, o, res)
    integer, intent(in) :: n
    type(outer), intent(inout) :: o
    integer, intent(out) :: res
    call sub1(n, o, res)
    res = res + o%s
  end subroutine kernel
  subroutine sub1(n, t, r)
    integer, intent(in) :: n
    type(outer), intent(inout) :: t
    integer, intent(out) :: r
    integer :: {loc}
    {loc} = 5
    t%v({lbv}) = t%v({lbv} + n - 1) + t%s + {loc}
    t%in%q({lbq}) = t%in%q({lbq + 1}) + 1
    t%s = t%s + 1
    r = t%in%q({lbq}) + t%v({lbv})
{call2}  end subroutine sub1
{sub2}end module cmod
'''
    drv = f'''program cmain
  use cmod
  implicit none
  type(outer) :: o
  integer :: res, i
  allocate(o%v({lbv}:{lbv + n - 1}))
  do i = {lbv}, {lbv + n - 1}
    o%v(i) = 2 * i + 3
  end do
  o%s = {s0}
  o%in%q = [4, 5, 6]
  o%in%p%g = 8
  call kernel({n}, o, res)
  print *, res, o%s, o%in%p%g
  print *, o%v
  print *, o%in%q
end program cmain
'''
    return mod, drv


def classes_dtype(spec):
    cs = []
    if spec_get(spec, 'lbq') != 1 or spec_get(spec, 'lbv') != 1:
        cs.append(K_DT_LB)          # Lean: KnownDtLb
    if spec_get(spec, 'clash'):
        cs.append(K_DT_CLASH)       # Lean: KnownDtClash
    return cs


def transform_dtype(sf, spec):
    from loki.tools import CaseInsensitiveDict
    from loki.transformations.transform_derived_types import DerivedTypeArgumentsTransformation
    mod = sf['cmod']
    rs = list(mod.subroutines)
    for r in rs:
        r.enrich(rs)
    T = DerivedTypeArgumentsTransformation(all_derived_types=bool(spec_get(spec, 'alld')))
    data = CaseInsensitiveDict()
    for name in ('sub2', 'sub1'):           # callees before callers (reverse traversal of the scheduler)
        if name in [r.name for r in rs]:
            r = mod[name]
            T.expand_derived_args_caller(r, data)
            data[name] = T.expand_derived_args_kernel(r)
    T.expand_derived_args_caller(mod['kernel'], data)       # role driver: calls only


def render_tbound(spec):
    bind, kk = spec_get(spec, 'bind'), spec_get(spec, 'kk')
    if bind == 'first':
        decl, sig, body = 'procedure :: bump => outer_bump', '(this, k)', 'this%s = this%s + k'
        kdecl = 'class(outer), intent(inout) :: this\n    integer, intent(in) :: k'
    elif bind == 'pass2':
        decl, sig, body = 'procedure, pass(this) :: bump => outer_bump', '(k, this)', 'this%s = this%s + 2 * k'
        kdecl = 'integer, intent(in) :: k\n    class(outer), intent(inout) :: this'
    else:
        decl, sig, body = 'procedure, nopass :: bump => outer_bump', '(k)', 'k = k + 1'
        kdecl = 'integer, intent(inout) :: k'
    mod = f'''module cmod
  implicit none
  type outer
    integer :: s
  contains
    {decl}
  end type outer
contains
  subroutine outer_bump{sig}
    {kdecl}
    {body}
  end subroutine outer_bump
  subroutine kernel(o, kk, res)
    type(outer), intent(inout) :: o
    integer, intent(inout) :: kk
    integer, intent(out) :: res
    call o%bump(kk)
    res = o%s + kk
  end subroutine kernel
end module cmod
'''
    drv = f'''program cmain
  use cmod
  implicit none
  type(outer) :: o
  integer :: res, kk
  o%s = 10
  kk = {kk}
  call kernel(o, kk, res)
  print *, res, o%s, kk
end program cmain
'''
    return mod, drv


def classes_tbound(spec):
    b = spec_get(spec, 'bind')
    return [K_TB_PASS] if b == 'pass2' else [K_TB_NOPASS] if b == 'nopass' else []     # Lean: KnownTbPass / KnownTbNopass


def transform_tbound(sf):
    from loki.transformations.transform_derived_types import TypeboundProcedureCallTransformation
    mod = sf['cmod']
    for r in mod.subroutines:
        TypeboundProcedureCallTransformation().transform_subroutine(r, role='kernel')


def render_seqkw(spec):
    kw, i, cnt = spec_get(spec, 'kw'), spec_get(spec, 'i'), spec_get(spec, 'cnt')
    call = f'call sub1(m={cnt}, c=a({i}, 2))' if kw else f'call sub1({cnt}, a({i}, 2))'
    mod = f'''module cmod
  implicit none
contains
  subroutine kernel(n, a)
    integer, intent(in) :: n
    integer, intent(inout) :: a(n, 3)
    {call}
  end subroutine kernel
  subroutine sub1(m, c)
    integer, intent(in) :: m
    integer, intent(inout) :: c(m)
    integer :: i
    do i = 1, m
      c(i) = c(i) + i
    end do
  end subroutine sub1
end module cmod
'''
    drv = '''program cmain
  use cmod
  implicit none
  integer :: a(4, 3), i
  a = reshape([(i, i = 1, 12)], shape(a))
  call kernel(4, a)
  print *, a
end program cmain
'''
    return mod, drv


def classes_seqkw(spec):
    return [K_SEQ_KW] if spec_get(spec, 'kw') else []      # Lean: KnownSeqKw


def transform_seqkw(sf):
    from loki.transformations.sanitise.sequence_associations import do_resolve_sequence_association
    mod = sf['cmod']
    rs = list(mod.subroutines)
    for r in rs:
        r.enrich(rs)
    for r in rs:
        do_resolve_sequence_association(r)



# ---- duplicate arguments with keyword actuals (remove_duplicate_args_call: kwarguments filters)

K_DD_KWADJ = 'dedup-nonadjacent-duplicate-keywords'     # fixed in /repo; kept for the record (no longer returned by the classifier)

DEDUPKW_FORMS = {
    # name: (actual list of the call in `kernel`, value of kernel's own variable ke: 'n' | 'm' | 'm1')
    'poskw': ('n, m, a, ks=i, kx=j, ke=m', 'm1'),          # the same actual once positionally, once by keyword
    'poskw2': ('n, m, a, ks=i, kx=n, ke=m', 'm1'),         # two such pairs
    'kwadj': ('n, m, a, ks=i, kx=i, ke=m', 'm1'),          # adjacent duplicate keywords + positional/keyword pair
    'kwnonadj': ('n, m, a, ks=i, kx=j, ke=i', 'm1'),       # duplicate keywords that are not adjacent
    'kwfirst': ('n, m, a, ke=m, ks=i, kx=j', 'm1'),        # duplicating keyword first
    'kwkw': ('n, m, a, ks=i, kx=j, ke=j', 'm1'),           # adjacent duplicate keywords only
    'posdup': ('n, m, a, i, kx=j, ke=i', 'm1'),            # positional actual repeated by a later keyword
    'name': ('ke, m, a, ks=i, kx=j, ke=m', 'n'),           # a keyword NAMED like a positional actual variable (and duplicating another)
    'name2': ('n, ke, a, ks=i, kx=j, ke=j', 'm'),          # … the keyword itself duplicates another keyword
    'name3': ('ke, m, a, ks=i, kx=j, ke=ke', 'n'),         # keyword named like its own value, which is also passed positionally
    'nodup': ('n, m, a, ks=i, kx=j, ke=ke', 'm1'),         # keywords, nothing duplicated
    'lit': ('n, m, a, ks=1, kx=1, ke=m', 'm1'),            # literal duplicates among keywords
}


def render_dedupkw(spec):
    form, n, m = spec_get(spec, 'form'), spec_get(spec, 'n'), spec_get(spec, 'm')
    twice = spec_get(spec, 'twice', 0)
    actuals, kev = DEDUPKW_FORMS[form]
    ke = {'n': n, 'm': m, 'm1': m - 1}[kev]
    call = f'call sub1({actuals})'
    mod = f"""module cmod
  implicit none
contains
  subroutine kernel(n, m, a, i, j, ke)
    integer, intent(in) :: n, m, i, j, ke
    integer, intent(inout) :: a(n, m)
    {call}
{('    ' + call) if twice else ''}
  end subroutine kernel
  subroutine sub1(nlon, nlev, field, ks, kx, ke)
    integer, intent(in) :: nlon, nlev, ks, kx, ke
    integer, intent(inout) :: field(nlon, nlev)
    integer :: jk
    do jk = ks, ke
      field(kx, jk) = field(kx, jk) + nlon + 10 * nlev + 100 * kx
    end do
  end subroutine sub1
end module cmod
"""
    drv = f"""program cmain
  use cmod
  implicit none
  integer :: a({n}, {m}), k
  a = reshape([(k, k = 1, {n * m})], shape(a))
  call kernel({n}, {m}, a, 1, 2, {ke})
  print *, a
end program cmain
"""
    return mod, drv


def _kw_values(form):
    out = []
    for part in DEDUPKW_FORMS[form][0].split(','):
        if '=' in part:
            out.append(part.split('=')[1].strip())
    return out


def known_dedup_kwadj(vals):
    """two equal keyword values with a different value between them (the family of the repaired defect: itertools.groupby only
    merged adjacent duplicates); used to describe generated forms only"""
    for p in range(len(vals)):
        for q in range(p + 2, len(vals)):
            if vals[p] == vals[q] and any(v != vals[p] for v in vals[p + 1:q]):
                return True
    return False


def classes_dedupkw(spec):
    """no open class: `dedup-nonadjacent-duplicate-keywords` (two equal keyword values with a different one between them, form
    `kwnonadj`) was repaired in /repo (order-preserving de-duplication on the keyword value) and is now a positive case"""
    return []


def binding_problems(routine):
    """every call of `routine` to a known callee binds its actuals 1:1 to the callee's dummies (count, keyword names)"""
    from loki import FindNodes, CallStatement, fgen
    probs = []
    for call in FindNodes(CallStatement).visit(routine.body):
        callee = call.routine
        if not callee or not hasattr(callee, 'argnames'):
            continue
        dummies = [str(a).lower() for a in callee.argnames]
        kws = [str(k).lower() for k, _ in call.kwarguments]
        for k in kws:
            if k not in dummies:
                probs.append(f'`{fgen(call)}`: keyword {k} is not a dummy of {callee.name}({", ".join(dummies)})')
        bound = dummies[:len(call.arguments)] + kws
        for d in dummies:
            if bound.count(d) != 1:
                probs.append(f'`{fgen(call)}`: dummy {d} of {callee.name}({", ".join(dummies)}) is bound {bound.count(d)} times')
        if len(call.arguments) + len(kws) != len(dummies):
            probs.append(f'`{fgen(call)}`: {len(call.arguments) + len(kws)} actuals for {len(dummies)} dummies')
    return probs


def transform_dedupkw(sf, spec):
    from loki.transformations.routine_signatures import remove_duplicate_args_from_calls
    mod = sf['cmod']
    rs = list(mod.subroutines)
    for r in rs:
        r.enrich(rs)
    remove_duplicate_args_from_calls(mod['kernel'])
    probs = binding_problems(mod['kernel'])
    return ('caller and callee no longer fit: ' + probs[0]) if probs else None


# ---- derived-type expansion through arrays of derived types (partial expansion)

DTARR_STMTS = [
    't%mids({a})%arr2({b})%v(3) = t%mids({b})%arr2({a})%v(1) + t%one%in%shift + t%one%arr2({b})%scale',
    't%mids({b})%in%shift = t%mids({b})%shift + t%scale',
    't%mids({a})%in%v({b}) = t%mids({a})%in%v({b}) + t%mids({a})%arr2({b})%shift',
    't%one%arr2({a})%v(2) = t%one%arr2({a})%v(2) + t%one%in%v(1) + t%one%scale',
    't%mids({a})%arr2({b})%scale = t%mids({a})%scale - t%mids({a})%in%scale',
]


def render_dtarr(spec):
    a, b, pat, n = spec_get(spec, 'a'), spec_get(spec, 'b'), spec_get(spec, 'pat'), spec_get(spec, 'n')
    stmts = [st.format(a=a, b=b) for k, st in enumerate(DTARR_STMTS) if pat >> k & 1]
    body = '\n'.join('    ' + st for st in stmts)
    mod = f"""module cmod
  implicit none
  type inner_t
    integer :: scale
    integer :: shift
    integer :: v(3)
  end type inner_t
  type mid_t
    integer :: scale
    integer :: shift
    type(inner_t) :: in
    type(inner_t) :: arr2(2)
  end type mid_t
  type outer_t
    integer :: scale
    type(mid_t) :: mids(2)
    type(mid_t) :: one
    integer, allocatable :: acc(:)
  end type outer_t
contains
  subroutine kernel(n, o, res)
    integer, intent(in) :: n
    type(outer_t), intent(inout) :: o
    integer, intent(out) :: res
    call sub1(n, o, res)
  end subroutine kernel
  subroutine sub1(n, t, r)
    integer, intent(in) :: n
    type(outer_t), intent(inout) :: t
    integer, intent(out) :: r
    integer :: i
    do i = 1, n
      t%acc(i) = t%acc(i) * t%mids({b})%in%scale + t%mids({a})%scale
    end do
{body}
    r = t%mids({a})%in%scale + 2 * t%mids({b})%arr2({a})%v(3) + 3 * t%mids({b})%in%shift
  end subroutine sub1
end module cmod
"""
    drv = f"""program cmain
  use cmod
  implicit none
  type(outer_t) :: o
  integer :: res, i, j, c
  c = 1
  allocate(o%acc({n}))
  do i = 1, {n}
    o%acc(i) = i + 1
  end do
  o%scale = 3
  call fill(o%one, c)
  do i = 1, 2
    call fill(o%mids(i), c)
  end do
  call kernel({n}, o, res)
  print *, res, o%scale, o%acc
  call show(o%one)
  do i = 1, 2
    call show(o%mids(i))
  end do
contains
  subroutine filli(x, c)
    type(inner_t), intent(inout) :: x
    integer, intent(inout) :: c
    x%scale = c; x%shift = c + 1; x%v = [c + 2, c + 3, c + 4]; c = c + 5
  end subroutine filli
  subroutine fill(x, c)
    type(mid_t), intent(inout) :: x
    integer, intent(inout) :: c
    x%scale = c; x%shift = c + 1; c = c + 2
    call filli(x%in, c); call filli(x%arr2(1), c); call filli(x%arr2(2), c)
  end subroutine fill
  subroutine show(x)
    type(mid_t), intent(in) :: x
    print *, x%scale, x%shift, x%in%scale, x%in%shift, x%in%v, x%arr2(1)%scale, x%arr2(1)%shift, x%arr2(1)%v, &
      & x%arr2(2)%scale, x%arr2(2)%shift, x%arr2(2)%v
  end subroutine show
end program cmain
"""
    return mod, drv


def transform_dtarr(sf, spec):
    """expansion as for `dtype`; structural check: with every expanded dummy name mapped back to its member path the body of
    the callee is the original body (every reference denotes the same storage path)"""
    import re
    from loki import fgen
    from loki.tools import CaseInsensitiveDict
    from loki.transformations.transform_derived_types import DerivedTypeArgumentsTransformation
    mod = sf['cmod']
    rs = list(mod.subroutines)
    for r in rs:
        r.enrich(rs)
    before = fgen(mod['sub1'].body).lower().replace(' ', '')
    T = DerivedTypeArgumentsTransformation(all_derived_types=bool(spec_get(spec, 'alld', 0)))
    data = CaseInsensitiveDict()
    data['sub1'] = T.expand_derived_args_kernel(mod['sub1'])
    T.expand_derived_args_caller(mod['kernel'], data)
    after = fgen(mod['sub1'].body).lower().replace(' ', '')
    members = sorted({str(v).lower() for vs in data['sub1']['expansion_map'].values() for v in vs}, key=len, reverse=True)
    for mname in members:
        after = re.sub(r'(?<![a-z0-9_%])' + re.escape(mname.replace('%', '_')) + r'(?![a-z0-9_])', mname, after)
    if after != before:
        la, lb = after.split('\n'), before.split('\n')
        for x, y in zip(la, lb):
            if x != y:
                return f'expanded kernel statement denotes other storage: `{x}` (members mapped back) vs original `{y}`'
        return 'expanded kernel body differs from the original body'
    return None


SRC_KINDS = {
    'dedupkw': (render_dedupkw, classes_dedupkw, transform_dedupkw),
    'dtarr': (render_dtarr, lambda spec: [], transform_dtarr),
    'shape': (render_shape, classes_shape, lambda sf, spec: transform_shape(sf)),
    'dtype': (render_dtype, classes_dtype, transform_dtype),
    'tbound': (render_tbound, classes_tbound, lambda sf, spec: transform_tbound(sf)),
    'seqkw': (render_seqkw, classes_seqkw, lambda sf, spec: transform_seqkw(sf)),
}


SRC_KEYS = {
    'shape': ('capture', 'k', 'lb1', 'lb2', 'm', 'n', 'nest', 'pass', 'rank'),
    'dtype': ('alld', 'clash', 'lbq', 'lbv', 'n', 'nested', 's'),
    'tbound': ('bind', 'kk'),
    'seqkw': ('cnt', 'i', 'kw'),
    'dedupkw': ('form', 'm', 'n', 'twice'),
    'dtarr': ('a', 'alld', 'b', 'n', 'pat'),
}


def gf_run(text, timeout=600):
    """compile and run one complete Fortran source with gfortran -> ('ok', stdout) | ('compile-error', msg) | ('run-error', msg)"""
    d = tempfile.mkdtemp(prefix='c34_')
    try:
        with open(os.path.join(d, 'p.f90'), 'w') as fh:
            fh.write(text)
        flags = [f for f in fir.GFORTRAN_FLAGS if f != '-fdefault-real-8'] if isinstance(fir.GFORTRAN_FLAGS, (list, tuple)) \
            else fir.GFORTRAN_FLAGS.split()
        try:
            p = subprocess.run(['gfortran'] + list(flags) + ['-o', 'p.x', 'p.f90'], cwd=d, capture_output=True, text=True, timeout=timeout)
        except subprocess.TimeoutExpired:
            return ('timeout', 'compile')
        if p.returncode != 0:
            err = [l for l in p.stderr.splitlines() if 'Error' in l or 'error' in l]
            return ('compile-error', (err[0] if err else p.stderr[-200:]).strip()[:200])
        try:
            q = subprocess.run(['./p.x'], cwd=d, capture_output=True, text=True, timeout=timeout)
        except subprocess.TimeoutExpired:
            return ('timeout', 'run')
        if q.returncode != 0:
            err = [l for l in q.stderr.splitlines() if l.strip()]
            return ('run-error', (err[0] if err else f'rc={q.returncode}')[:200])
        return ('ok', ' '.join(q.stdout.split()))
    finally:
        shutil.rmtree(d, ignore_errors=True)


def real_src(kind, spec):
    """(module text, driver text, transformed module text printed by Loki's fgen, structural problem found by the kind's own
    check or None)"""
    from loki import Sourcefile, fgen
    from loki.frontend import FP
    render, _, transform = SRC_KINDS[kind]
    mod, drv = render(spec)
    sf = Sourcefile.from_source(mod, frontend=FP)
    try:
        problem = transform(sf, spec)
        text = fgen(sf.ir)
    except Exception as e:
        raise TransformError(f'{type(e).__name__}: {str(e)[:160]}') from e
    return mod, drv, text, problem


K_DD_LEFT = 'dedup-removed-name-left-behind'      # KnownDedupLeft (replaces the narrower declaration-only class)
K_DD_MULTI = 'dedup-second-caller-misaligned'     # KnownDedupMulti
K_DD_SHAPE = 'dedup-differing-dummy-declarations' # KnownDedupShape
ALL_CLASSES = [K_SEQ_RANK, K_SEQ_SHORT, K_SEQ_KW, K_DD_MULTI, K_DD_LEFT, K_DD_INTENT, K_DD_SHAPE, K_SH_LB, K_SH_CAP, K_DT_LB, K_DT_CLASH,
               K_TB_PASS, K_TB_NOPASS]


def _partition(gs):
    return tuple(sorted(tuple(ds) for _, ds in gs if len(ds) >= 2))


def known_dedup_multi(prog):
    """Lean: KnownDedupMulti — some callee receives duplicated actuals in calls from two different units"""
    um = unit_map(prog)
    for gname, g in um.items():
        callers = 0
        for u in units(prog):
            if any(str(c[1]) == gname and _partition(group_args(g[2], c[2:])) for c in all_calls(u[4])):
                callers += 1
        if callers >= 2:
            return True
    return False


def known_dedup_shape(prog):
    """Lean: KnownDedupShape on some call — the dummies of a group are declared with different types or bounds"""
    for g, gs in dedup_groups(prog):
        for _, ds in gs:
            if len(ds) >= 2:
                d0 = decl_of(g, ds[0])
                for r in ds[1:]:
                    d = decl_of(g, r)
                    if d0 is not None and d is not None and (str(d0[2]) != str(d[2]) or dumps(d0[4]) != dumps(d[4])):
                        return True
    return False


def dedup_precondition_ok(prog):
    """the documented restriction: all calls to one routine duplicate the same arguments"""
    um = unit_map(prog)
    for gname, g in um.items():
        parts = set()
        for u in units(prog):
            for c in all_calls(u[4]):
                if str(c[1]) == gname:
                    parts.add(_partition(group_args(g[2], c[2:])) if len(c) - 2 == len(g[2]) else ('arity',))
        if len(parts) > 1:
            return False
    return True


def add_second_caller(rng, prog):
    """a second unit calling the first duplicated-argument leaf with the same duplication (class dedup-second-caller-misaligned)"""
    prog = loads(dumps(prog))
    um = unit_map(prog)
    if 'dup1' not in um:
        return prog
    g = um['dup1']
    if [str(a) for a in g[2]] != ['y', 'z', 'r']:
        return prog
    ty = str(decl_of(g, 'y')[2])
    mid = [A('unit'), A('mid1'), [A('s'), A('r')], [_decl('s', ty, 'in'), _decl('r', ty, 'inout')],
           [[A('callsub'), A('dup1'), V('s'), V('s'), V('r')]]]
    u = prog[2]
    _ensure_decl(u, 't97', ty)
    zero = I(0) if ty == 'int' else fir.rlit(Fraction(0))
    two = I(2) if ty == 'int' else fir.rlit(Fraction(5, 2))
    u[4] = list(u[4]) + [[A('assign'), V('t97'), zero], [A('callsub'), A('mid1'), two, V('t97')], [A('print'), V('t97')]]
    return fir.canon(prog[:3] + [mid] + prog[3:])


GEN_CFG = dict(max_stmts=10, max_depth=2, n_callees=(0, 2), n_arrays=(1, 3), weights=dict(call=14))


def class_listed(cls):
    """inputs of a newly characterised class are generated only once the class is listed (keeps the clean tree at exit 0)"""
    import json
    from pathlib import Path
    from ..core import VERIF
    f = Path(os.environ.get('VERIF_KNOWN', str(VERIF / 'known_findings.json')))
    try:
        return any(k.get('property') == 'C34' and k.get('class') == cls for k in json.loads(f.read_text())['findings'])
    except Exception:
        return False


def gen_src(rng):
    kind = rng.choice(['shape', 'shape', 'dtype', 'dtype', 'tbound', 'seqkw', 'dedupkw', 'dedupkw', 'dtarr', 'dtarr'])
    if kind == 'dedupkw':
        n = rng.randint(3, 4)
        return kind, mk_spec(form=rng.choice(sorted(DEDUPKW_FORMS)), n=n, m=rng.randint(3, 5), twice=int(rng.random() < 0.25))
    if kind == 'dtarr':
        return kind, mk_spec(a=rng.randint(1, 2), b=rng.randint(1, 2), pat=rng.randint(0, 2 ** len(DTARR_STMTS) - 1),
                             n=rng.randint(1, 3), alld=int(rng.random() < 0.5))
    if kind == 'shape':
        spec = mk_spec(rank=rng.choice((1, 2)), lb1=rng.choice((1, 1, 1, 0, -1)), lb2=rng.choice((1, 1, 1, 0)),
                       capture=int(rng.random() < 0.2), **{'pass': rng.choice(('whole', 'whole', 'col'))},
                       nest=int(rng.random() < 0.4), n=rng.randint(3, 5), m=rng.randint(2, 4), k=rng.randint(1, 2))
    elif kind == 'dtype':
        spec = mk_spec(lbq=rng.choice((1, 1, 1, 0)), lbv=rng.choice((1, 1, 1, 0, 2)), clash=int(rng.random() < 0.2),
                       nested=int(rng.random() < 0.5), alld=int(rng.random() < 0.5), n=rng.randint(2, 4), s=rng.randint(-3, 5))
    elif kind == 'tbound':
        spec = mk_spec(bind=rng.choice(('first', 'first', 'first', 'pass2', 'nopass')), kk=rng.randint(1, 5))
    else:
        i = rng.randint(1, 4)
        spec = mk_spec(kw=int(rng.random() < 0.3), i=i, cnt=rng.randint(1, 5 - i))
    return kind, spec


_SRC_FUT = {}
_POOL = []


def _prepare_src(kind, spec, pool):
    """Loki part in the calling thread (the frontend is not thread safe), the two gfortran runs on the pool when given"""
    try:
        mod, drv, text, problem = real_src(kind, spec)
    except TransformError as e:
        return ('exc', str(e))
    if pool is None:
        return ('ok', gf_run(mod + drv), gf_run(text + '\n' + drv), problem)
    return ('ok', pool.submit(gf_run, mod + drv), pool.submit(gf_run, text + '\n' + drv), problem)


def prefetch_src(prop, reqs):
    """start the gfortran runs of `src` requests on a thread pool (compilations dominate and run outside the GIL); purely a
    cache: `oracle_src` recomputes whatever is not there"""
    from concurrent.futures import ThreadPoolExecutor
    if not _POOL:
        _POOL.append(ThreadPoolExecutor(max_workers=min(8, os.cpu_count() or 2)))
    for req in reqs:
        try:
            kind, name, spec, flag = decode(req)
        except Exception:
            continue
        if kind != 'src' or name not in SRC_KINDS:
            continue
        key = name + ' ' + dumps(spec)
        if key not in _SRC_FUT:
            _SRC_FUT[key] = _prepare_src(name, spec, _POOL[0])


def known_src_witnesses():
    """witness requests of the listed findings of this property (replayed by the runner at the end of every run)"""
    import json
    from pathlib import Path
    from ..core import VERIF
    f = Path(os.environ.get('VERIF_KNOWN', str(VERIF / 'known_findings.json')))
    out = []
    try:
        for k in json.loads(f.read_text())['findings']:
            if k.get('property') == 'C34' and k.get('status', 'open') == 'open' and k.get('witness', '').startswith('(src '):
                out.append(loads(k['witness']))
    except Exception:
        pass
    return out


def corpus_src_requests():
    from ..core import corpus_lines
    out = []
    for l in corpus_lines(PROP):
        if l.startswith('(src '):
            out.append(loads(l))
    return out


class C34(Prop):
    id = 'C34'
    title = 'Call-signature rewrites preserve behaviour'
    model_modules = ['LokiModel.C34.Model', 'LokiModel.C34.Enc']
    props_module = 'LokiModel.Props.C34'
    findings_module = 'LokiModel.Findings.C34'
    driver = 'Drivers/C34.lean'
    theorems = ['seq_model_rank1', 'seqassoc_copyin_sound', 'seqassoc_copyout_sound', 'dedup_sound_partial',
                'dedup_entry_merged', 'expand_consistent']
    design_ref = 'DESIGN.md 4.F C34'
    level = 'proof'
    level_text = ('Sequence association: seq_model_rank1 + seqassoc_copyin_sound + seqassoc_copyout_sound (full, unbounded: for an '
                  'element actual bound to a RANK-1 dummy, any array rank, the section written by the model denotes — through the '
                  'interpreter\'s own section functions — exactly the storage sequence FIR\'s call copies in/out, so every dummy not '
                  'longer than the section is filled and written back identically; stated on the copied data because FIR\'s callSub '
                  'has no section actuals). Dummies of rank >= 2: model + correspondence + oracle only. Duplicate arguments: '
                  'dedup_sound_partial (expression level: every completely renamed expression evaluates in the merged callee state '
                  'like the original in the original state) + dedup_entry_merged; the lifting to statement execution and copy-out is '
                  'not proved (oracle). expand_consistent: abstract record flattening (zip of expansions = expansion of zips). '
                  'Explicit shapes, derived-type expansion (incl. partial expansion behind arrays of derived types), type-bound calls, keyword '
                  'calls, duplicate removal with keyword actuals: oracle only (structural checks on the Loki objects + gfortran).')
    level_note = ('FIR call semantics (Sem.lean) = copy-in/copy-out in dummy order; the meaning of a section actual is defined in '
                  'LokiModel/C34/Seq.lean (elements in array element order, copy through them) and mirrored by SecInterp in the '
                  'harness. The hypothesis `hfit` of the sequence-association theorems (the array cell holds its first-dimension '
                  'column) is a well-formedness property of cells made by declCell, not proved here.')
    technique = ('Lean 4 theorems about hand-written models of do_resolve_sequence_association and remove_duplicate_args_from_calls '
                 'on FIR programs + correspondence with the real code + original-vs-transformed execution oracle (Python FIR '
                 'interpreter; gfortran in the thorough tier and for the generated call trees outside FIR)')
    rule = ('generated FIR programs (calls weighted up) extended by 1-3 calls passing an array ELEMENT to an array dummy of generated '
            'leaf callees (rank 1 or 2, start anywhere in the array, count literal or symbolic, plain / inside IF / inside DO), resp. by '
            '1-2 calls passing the same actual (array, scalar, expression, literal) two or three times to leaf callees, incl. repeated '
            'calls, a second calling unit, removed names used in bounds / subscripts / PRINT, kept INTENT(IN) dummy; 2 input sets '
            'each; plus generated Fortran modules (assumed-shape call trees with lower bounds / symbol capture / column sections / '
            'nesting; derived types with static, allocatable and nested members, local-name clashes; type-bound calls with '
            'pass/nopass; keyword calls; calls mixing positional and keyword actuals with duplicates of every placement and keywords named like '
            'actual variables (structural 1:1 binding check + run); member accesses through arrays of derived types followed by two or '
            'more components with same-named members at several levels (structural same-storage-path check + run)) compiled and run by '
            'gfortran before and after the real transformation. '
            'non-trivial = the transformation changes the program')
    trusted_base = ['harness/fir.py (printer, exporter from Loki IR, reference interpreter)', 'gfortran 12.2']
    assumptions = ['all calls to one routine duplicate the same arguments (documented restriction of RemoveDuplicateArgs); '
                   'aliased dummies are not written unless the other members of the group are unreferenced (Fortran aliasing rule)',
                   'array bounds mentioned in a resolved section still hold the value they had at entry (dimension variables are not '
                   'modified)']
    extra_obligations = ['oracle: original vs really resolved sequence association (interpreter / gfortran)',
                         'oracle: original vs really de-duplicated calls and callees (interpreter / gfortran)',
                         'oracle: generated assumed-shape / derived-type / type-bound / keyword call trees, gfortran before vs after']

    def classes(self):
        return list(ALL_CLASSES)

    # ---- generation
    def gen(self, rng, tier):
        n = {'quick': 10, 'thorough': 100, 'search': 50}.get(tier, 10)
        for j in range(n):
            base = fir.gen_program(rng, GEN_CFG)
            inputs = fir.gen_inputs(rng, base, 2)
            gf = A('gf' if (tier == 'thorough' and j % 3 == 0) else 'nogf')
            prog, k = add_seq_calls(rng, base, inputs)
            yield Case([A('seq'), prog, inputs, gf], stream='seq', nontrivial=bool(seq_sites(prog)))
            special = rng.choice([None, None, None, None, 'litdecl', 'intent', 'nested', 'print'])
            prog, k = add_dup_calls(rng, base, inputs, special=special)
            if k and rng.random() < 0.12:
                prog = add_second_caller(rng, prog)
            yield Case([A('dedup'), prog, inputs, gf], stream='dedup', nontrivial=has_dups(prog))
        n_src = {'quick': 5, 'thorough': 80, 'search': 30}.get(tier, 5)
        srcs = [gen_src(rng) for j in range(n_src)]
        cases = [Case([A('src'), A(kind), spec, A('gf')], stream='src-' + kind) for kind, spec in srcs]
        prefetch_src(self, [c.req for c in cases] + known_src_witnesses() + corpus_src_requests())
        for c in cases:
            yield c

    # ---- real code
    def impl(self, req):
        kind, prog, inputs, flag = decode(req)
        if kind == 'src':
            return [A('oracle-only')]
        try:
            tp, _ = real_seq(prog) if kind == 'seq' else real_dedup(prog)
        except fir.Unsupported as e:
            return [A('unsupported'), str(e.kind)]
        except TransformError as e:
            return [A('transform-error'), str(e)[:80]]
        return [A('result'), norm_prog(tp)]

    def canon_model(self, resp):
        if h(resp) == 'result' and h(resp[1]) == 'program':
            return [resp[0], norm_prog(resp[1])]
        return resp

    # ---- direct oracle
    def oracle(self, req):
        kind, prog, inputs, flag = decode(req)
        if kind == 'src':
            return self.oracle_src(prog, inputs)
        if kind == 'dedup' and not dedup_precondition_ok(prog):
            return []           # documented restriction violated: nothing is claimed
        cs = []
        if kind == 'seq':
            if known_seq_rank(prog):
                cs.append(K_SEQ_RANK)
        else:
            if known_dedup_multi(prog):
                cs.append(K_DD_MULTI)
            if known_dedup_shape(prog):
                cs.append(K_DD_SHAPE)
            if known_dedup_intent(prog):
                cs.append(K_DD_INTENT)
            elif dedup_alias_written(prog):
                return []       # aliasing precondition violated (original not conforming)
        try:
            tp, text = real_seq(prog) if kind == 'seq' else real_dedup(prog)
        except (TransformError, fir.Unsupported) as e:
            return [Failure(f'{kind}: transformation or export of its result raised {type(e).__name__}: {str(e)[:120]}',
                            cs[0] if cs else None)]
        if kind == 'seq' and known_seq_short(tp, inputs):
            cs.append(K_SEQ_SHORT)
        if kind == 'dedup' and known_dedup_left(tp):
            cs.insert(1 if K_DD_MULTI in cs else 0, K_DD_LEFT)
        cls = cs[0] if cs else None
        runs = []
        for inp in inputs:
            a = fir.interp(prog, inp)
            if a[0] != 'ok':
                continue
            b = sec_interp(tp, inp)
            d = fir.compare_results(a, b, undef_wild=False)
            if d:
                return [Failure(f'{kind}: transformed program behaves differently (interpreter): {d}', cls)]
            runs.append(inp)
        if flag == 'gf' and runs:
            base = _TEXT0.get(dumps(prog))
            if len(_TEXT0) > 200:
                _TEXT0.clear()
            err = fir.gfortran_syntax_check(text) if (base is not None and fir.gfortran_syntax_check(base) is None) else None
            if err:
                return [Failure(f'{kind}: gfortran rejects the transformed source printed by fgen (the untransformed '
                                f'fgen text is accepted): {err[:160]}', cls)]
            items = []
            for inp in runs:
                st = {}
                fir.interp(prog, inp, stats=st)
                if fir.exact_in_hardware(st):
                    items += [(prog, inp), (tp, inp)]
            res = fir.run_gfortran(items) if items else []
            for k in range(0, len(res), 2):
                if res[k][0] != 'ok':
                    continue
                d = fir.compare_results(res[k], res[k + 1])
                if d:
                    return [Failure(f'{kind}: transformed program behaves differently (gfortran): {d}', cls)]
        return []

    def oracle_src(self, kind, spec):
        """results are a deterministic function of (kind, spec); `prefetch_src` may have started the compilations already"""
        if kind not in SRC_KINDS:
            raise ValueError('unknown source kind')
        missing = [k for k in SRC_KEYS[kind] if spec_get(spec, k) is None]
        if missing or len(spec) != len(SRC_KEYS[kind]):
            raise ValueError(f'malformed spec: {missing}')      # strict: the generic shrinker must not drop parameters
        cs = SRC_KINDS[kind][1](spec)
        cls = cs[0] if cs else None
        pre = _SRC_FUT.get(kind + ' ' + dumps(spec))
        if pre is None:
            pre = _prepare_src(kind, spec, None)
        if pre[0] == 'exc':
            return [Failure(f'{kind}: transformation raised {pre[1]}', cls)]
        if pre[3]:
            return [Failure(f'{kind}: {pre[3]}', cls)]
        a, b = pre[1].result() if hasattr(pre[1], 'result') else pre[1], pre[2].result() if hasattr(pre[2], 'result') else pre[2]
        if a[0] == 'timeout' or b[0] == 'timeout':
            return []           # machine too loaded: inconclusive, nothing is claimed for this input
        if a[0] != 'ok':
            return [Failure(f'{kind}: generated original does not build/run: {a}', error=True)]
        if b[0] == 'compile-error':
            return [Failure(f'{kind}: gfortran rejects the transformed call tree: {b[1]}', cls)]
        if b[0] != 'ok':
            return [Failure(f'{kind}: transformed call tree fails at run time ({b[1]}); original prints {a[1][:60]}', cls)]
        if a[1] != b[1]:
            return [Failure(f'{kind}: transformed call tree prints {b[1][:80]} instead of {a[1][:80]}', cls)]
        return []


PROP = C34()
READY = True
