"""C13 — symbols are classified by their declared type and share it by scope."""
import itertools
import sys

from loki import Scope, SymbolAttributes, BasicType, DerivedType, ProcedureType
from loki.expression import symbols as sym
from loki.ir import TypeDef, VariableDeclaration

from ..core import Prop, Case, Failure
from ..sexpr import A, dumps

CLASSES = ('ProcedureSymbol', 'DerivedTypeSymbol', 'Array', 'Scalar', 'DeferredTypeSymbol')
BASIC = {'deferred': BasicType.DEFERRED, 'logical': BasicType.LOGICAL, 'integer': BasicType.INTEGER,
         'real': BasicType.REAL}
NONE, KEEP = A('none'), A('keep')


# --------------------------------------------------------------------------- wire <-> real objects

def is_none(x):
    return isinstance(x, A) and str(x) == 'none'


def is_keep(x):
    return isinstance(x, A) and str(x) == 'keep'


def opt_int(x):
    return None if is_none(x) else int(str(x))


class World:
    """the real objects of one history"""

    def __init__(self, tdefs_req):
        self.tdefs = []
        self.scopes = []
        self.syms = []
        for td in tdefs_req:
            name, members = str(td[0]), td[1:]
            tdef = TypeDef(name=name, body=())
            decls = []
            for m in members:
                t = self.mk_type(m[1])
                kw = {}
                if t.shape:
                    kw['dimensions'] = t.shape
                v = sym.Variable(name=str(m[0]), scope=tdef, type=t, **kw)
                decls.append(VariableDeclaration(symbols=(v,)))
            tdef._update(body=tuple(decls))
            self.tdefs.append(tdef)

    # types
    def mk_dtype(self, d):
        if isinstance(d, list):
            if str(d[0]) == 'derived':
                i = opt_int(d[2])
                if i is None:
                    return DerivedType(name=str(d[1]))
                return DerivedType(typedef=self.tdefs[i])
            if str(d[0]) == 'proc':
                return ProcedureType(str(d[1]))
        return BASIC[str(d)]

    def mk_type(self, t):
        assert str(t[0]) == 'ty'
        kw = {}
        n = opt_int(t[2])
        if n is not None:
            kw['shape'] = tuple(sym.IntLiteral(3 + k) for k in range(n))
        tag = int(str(t[3]))
        if tag:
            kw['tag'] = tag
        a = SymbolAttributes(self.mk_dtype(t[1]), **kw)
        if n == 0:
            a.shape = ()
        return a

    def mk_opt_type(self, t):
        return None if is_none(t) else self.mk_type(t)

    def r_dtype(self, d):
        if isinstance(d, DerivedType):
            idx = NONE
            for i, td in enumerate(self.tdefs):
                if d.typedef is td:
                    idx = i
            return [A('derived'), str(d.name), idx]
        if isinstance(d, ProcedureType):
            return [A('proc'), str(d.name)]
        for k, v in BASIC.items():
            if d is v:
                return A(k)
        return [A('other'), str(d)]

    def r_type(self, t):
        if t is None:
            return NONE
        shape = t.__dict__.get('shape')
        extra = sorted(k for k in t.__dict__ if k not in ('dtype', 'shape', 'tag'))
        r = [A('ty'), self.r_dtype(t.dtype), NONE if shape is None else len(shape), int(t.__dict__.get('tag', 0))]
        return r + extra      # no further attributes are ever expected

    def scope_idx(self, sc):
        if sc is None:
            return NONE
        for i, s in enumerate(self.scopes):
            if s is sc:
                return i
        return A('foreign')

    def read_type(self, v):
        old = sys.getrecursionlimit()
        sys.setrecursionlimit(400)
        try:
            return self.r_type(v.type)
        except RecursionError:
            return [A('error'), A('recursion')]
        finally:
            sys.setrecursionlimit(old)

    def r_sym(self, v):
        dims = len(v.dimensions) if isinstance(v, sym.Array) else 0
        return [A(type(v).__name__), str(v.name), self.scope_idx(v.scope), dims, self.read_type(v)]

    def dump(self):
        out = []
        for s in self.scopes:
            items = [[str(k), self.r_type(v)] for k, v in dict.items(s.symbol_attrs)]
            out.append([self.scope_idx(s.parent), items])
        return out

    # operations
    def guarded(self, fn):
        old = sys.getrecursionlimit()
        sys.setrecursionlimit(400)
        try:
            v = fn()
        except RecursionError:
            return [A('error'), A('recursion')]
        finally:
            sys.setrecursionlimit(old)
        self.syms.append(v)
        return [A('created'), len(self.syms) - 1]

    def scope_ok(self, i):
        return i is None or 0 <= i < len(self.scopes)

    @staticmethod
    def mk_dims(n):
        return None if n is None else tuple(sym.IntLiteral(1 + k) for k in range(n))

    def step(self, op):
        kind = str(op[0])
        bad, unsup = [A('error'), A('bad-index')], [A('error'), A('unsupported')]
        if kind == 'newscope':
            p = opt_int(op[1])
            if not self.scope_ok(p):
                return bad
            self.scopes.append(Scope(parent=None if p is None else self.scopes[p]))
            return A('done')
        if kind == 'settype':
            sc = int(str(op[1]))
            if not 0 <= sc < len(self.scopes):
                return bad
            self.scopes[sc].symbol_attrs[str(op[2])] = self.mk_type(op[3])
            return A('done')
        if kind == 'create':
            parts, sc, ty, par, dims = [str(p) for p in op[1]], opt_int(op[2]), self.mk_opt_type(op[3]), opt_int(op[4]), opt_int(op[5])
            if not self.scope_ok(sc):
                return bad
            if not 1 <= len(parts) <= 2:
                return unsup
            if par is not None and (par >= len(self.syms) or self.syms[par].parent is not None):
                return unsup
            kw = dict(name='%'.join(parts))
            if sc is not None:
                kw['scope'] = self.scopes[sc]
            if ty is not None:
                kw['type'] = ty
            if par is not None:
                kw['parent'] = self.syms[par]
            if dims is not None:
                kw['dimensions'] = self.mk_dims(dims)
            return self.guarded(lambda: sym.Variable(**kw))
        if kind == 'typeof':
            i = int(str(op[1]))
            if i >= len(self.syms):
                return bad
            r = self.read_type(self.syms[i])
            return r if isinstance(r, list) and str(r[0]) == 'error' else [A('typ'), r]
        if kind == 'clone':
            i = int(str(op[1]))
            if i >= len(self.syms):
                return bad
            kw = {}
            if not is_keep(op[2]):
                if not 1 <= len(op[2]) <= 2:
                    return unsup
                kw['name'] = '%'.join(str(p) for p in op[2])
            if not is_keep(op[3]):
                sc = opt_int(op[3])
                if not self.scope_ok(sc):
                    return bad
                kw['scope'] = None if sc is None else self.scopes[sc]
            if not is_keep(op[4]):
                kw['type'] = self.mk_opt_type(op[4])
            if not is_keep(op[5]):
                kw['dimensions'] = self.mk_dims(opt_int(op[5]))
            return self.guarded(lambda: self.syms[i].clone(**kw))
        if kind == 'rescope':
            i, sc = int(str(op[1])), int(str(op[2]))
            if i >= len(self.syms) or not 0 <= sc < len(self.scopes):
                return bad
            return self.guarded(lambda: self.syms[i].rescope(self.scopes[sc]))
        if kind == 'resolve':
            sc = int(str(op[1]))
            if not 0 <= sc < len(self.scopes):
                return [A('scope'), NONE]
            return [A('scope'), self.scope_idx(self.scopes[sc].get_symbol_scope(str(op[2])))]
        raise ValueError(kind)

    def observe(self):
        return [A('syms')] + [self.r_sym(v) for v in self.syms], [A('tabs')] + self.dump()


def parse_hist(req):
    assert str(req[0]) == 'hist'
    return req[1][1:], req[2][1:]


# --------------------------------------------------------------------------- reference (property statement)

def ref_class(t, name, dims):
    """decision table of the property statement on a *real* SymbolAttributes (or None):
    procedure type -> ProcedureSymbol; derived type of the symbol's own name -> DerivedTypeSymbol;
    subscripts given (non-empty) or a shape recorded -> Array; known dtype -> Scalar; else DeferredTypeSymbol"""
    dt = None if t is None else t.dtype
    if isinstance(dt, ProcedureType):
        return 'ProcedureSymbol'
    if isinstance(dt, DerivedType) and name.lower() == dt.name.lower():
        return 'DerivedTypeSymbol'
    shape = None if t is None else t.__dict__.get('shape')
    if (dims is not None and len(dims) > 0) or (shape is not None and len(shape) > 0):
        return 'Array'
    if dt is not None and dt is not BasicType.DEFERRED:
        return 'Scalar'
    return 'DeferredTypeSymbol'


def ty(d, shape=None, tag=0):
    return [A('ty'), d, NONE if shape is None else shape, tag]


def derived(name, i=None):
    return [A('derived'), name, NONE if i is None else i]


def proc(name):
    return [A('proc'), name]


TDEFS = [A('tdefs'),
         ['tt', ['a', ty(A('integer'))], ['B', ty(A('real'), 1)], ['c', ty(derived('other'))]],
         ['uu', ['a', ty(A('real'), None, 2)], ['x', ty(A('logical'))]]]
TDEFS_DEF = [A('tdefs'),
             ['tt', ['a', ty(A('integer'))], ['B', ty(A('real'), 1)], ['d', ty(A('deferred'))]],
             ['uu', ['a', ty(A('real'), None, 2)], ['x', ty(A('logical'))]]]


def hist(ops, tdefs=TDEFS):
    return [A('hist'), tdefs, [A('ops')] + ops]


class C13(Prop):
    id = 'C13'
    title = 'Symbols are classified by their declared type and share it by scope'
    model_modules = ['LokiModel.C13.Model']
    props_module = 'LokiModel.Props.C13'
    findings_module = 'LokiModel.Findings.C13'
    driver = 'Drivers/C13.lean'
    theorems = ['C13_classify_spec', 'C13_guards_exhaustive_exclusive', 'C13_classify_proc', 'C13_classify_derived_name',
                'C13_classify_array', 'C13_classify_scalar', 'C13_classify_deferred', 'C13_class_full_false',
                'C13_class_partial', 'C13_create_class', 'C13_type_shared_partial', 'C13_type_shared_history',
                'C13_type_shared_full_false', 'C13_unattached_stable', 'C13_create_unattached_reports',
                'C13_create_reports', 'C13_create_inherits_and_pins', 'C13_rescope_keeps_existing',
                'C13_rescope_inserts_missing', 'C13_rescope_class', 'C13_rescope_array_to_scalar', 'C13_tables_agree',
                'C13_create_name_partial', 'C13_create_name_full_false', 'C13_read_pure_partial',
                'C13_read_pure_full_false', 'C13_no_recursion']
    design_ref = 'DESIGN.md 4.B C13'
    level_text = ('Theorems (Lean kernel, every input / state / history, no bound). Classification: C13_classify_spec - the tier chain '
                  'of Variable.__new__ equals a five-row decision table (rows carry the negations of the rows above), rows exhaustive and '
                  'exclusive (C13_guards_exhaustive_exclusive), each row spelled out (C13_classify_proc/_derived_name/_array/_scalar/'
                  '_deferred); C13_create_class - every symbol the factory returns has the class of that table applied to the type it '
                  'resolved. Against the table of the property statement (subscripts given = non-empty) the code differs: '
                  'C13_class_full_false, and C13_class_partial holds outside class empty-dimensions-array (a repair popping '
                  'dimensions=() was reverted, Loki relies on clone(dimensions=()) giving an Array). C13_no_recursion - reading a type, creating, cloning and rescoping always return, for '
                  'every type-definition environment (full strength since the fix: commit for deferred-member-recursion). Sharing: '
                  'C13_type_shared_partial / _history - in every state (so after every history) after scope[name]=t every symbol of that '
                  'name attached to a scope resolving the name to that scope reports t and the read is pure, outside class '
                  'deferred-entry-on-member (C13_type_shared_full_false: a DEFERRED entry of a derived-type member is overridden by the '
                  'type definition); C13_unattached_stable - over every history a symbol without scope stays the same object and reports '
                  'its own type in every scope state; C13_create_reports / _unattached_reports / _inherits_and_pins (a symbol created '
                  'without type copies the declaration found up the chain into its own scope and no longer sees updates elsewhere). '
                  'Rescoping: C13_rescope_keeps_existing (an entry the target chain has wins over the own type, the only write is a copy '
                  'into the target table), C13_rescope_inserts_missing (parentless symbols), C13_rescope_class (a rescoped symbol without subscripts is classified by the recorded type alone, full strength since the fix: commit for Array.rescope), C13_rescope_array_to_scalar (example). '
                  'Witness-level only: reads rewriting sibling member entries (C13_read_pure_partial outside member fallback, '
                  'C13_read_pure_full_false), qualified name without parent (C13_create_name_partial for plain names, '
                  'C13_create_name_full_false). The model is tied to the code by an '
                  'exhaustive cross products (declared type x shape x subscripts x parent mode x where the type is recorded, 2466 '
                  'histories; own type x recorded entry x place x attachment x subscripts for rescope/clone, 240 histories) and random histories on real Scope/TypeDef/Variable objects: class, name, scope, subscripts and type of '
                  'every symbol and the full content of every symbol table are compared after every operation.')
    level_note = ('Hand-written model. Names are ASCII without "(" (str.lower vs Char.toLower, format_lookup_name cut not modelled); '
                  'derived-type nesting is limited to one level (a, a%b; deeper names answer unsupported and are not generated); type '
                  'definitions are static lists of (member, type); attributes other than dtype/shape/one opaque tag, case_sensitive '
                  'symbols, weak references dying, the type setter on existing symbols and clone(parent=...) are not modelled. '
                  'The result type still has a recursion value (formerly Python RecursionError); C13_no_recursion shows it is never produced.')
    technique = 'Lean 4 theorems about a hand-written state-machine model + full-state correspondence with the real code'
    rule = ('cross product: declared type (none, DEFERRED, INTEGER, REAL, LOGICAL, derived same name / other name / with typedef, '
            'procedure same / other name) x shape (absent, (), rank 2) x dimensions (absent, (), rank 1) x parent mode (plain, '
            'member a/b/z with parent, qualified without parent, parent of intrinsic type) x place of the declaration (type= on '
            'unattached / attached symbol, own scope, parent scope, grand-parent scope), exhaustive; then random histories over '
            '<= 4 nested scopes (newscope, settype, create, clone with overrides, rescope, resolve), every 5th with a type definition '
            'that has a DEFERRED member; non-trivial = every history (each creates symbols); distinct by request line')
    trusted_base = ['harness/props/c13.py World (builds real Scope/TypeDef/Variable objects from the request, renders types)',
                    'harness/props/c13.py ref_class and oracle checks (a)-(h)', 'Lean driver evaluation of model definitions']
    assumptions = ['names are ASCII, contain no "(" and at most one "%"; parents have no parent',
                   'type definitions do not change during a history',
                   'symbol objects are only created through Variable/clone/rescope (type setter on live symbols not used)']
    extra_obligations = ['oracle: decision table, naming, non-interference, sharing, unattached stability, rescope on every history']

    # ---- generation
    def gen_cross(self, tier):
        """exhaustive cross product: declared type x shape x dimensions x parent mode x where the type comes from"""
        dtypes = [None, A('deferred'), A('integer'), A('real'), A('logical'), derived('v'), derived('Other'),
                  derived('tt', 0), proc('v'), proc('f')]
        shapes = [None, 0, 2]
        dimss = [None, 0, 1]
        # parent modes: plain name; member with parent given (member in typedef / not in typedef);
        # qualified name without parent; parent of non-derived type
        pmodes = ['plain', 'member-a', 'member-b', 'member-z', 'noparent-a', 'parent-int']
        # where the declared type is recorded: passed as type= to an unattached symbol, passed to an attached one,
        # recorded in the symbol's scope, in the parent scope, in the grand-parent scope
        places = ['arg-unattached', 'arg-attached', 'scope0', 'scope1', 'scope2']
        for d, sh, dm, pm, pl in itertools.product(dtypes, shapes, dimss, pmodes, places):
            if d is None and sh is not None:
                continue
            if d is None and pl in ('arg-attached', 'scope1', 'scope2'):
                continue
            t = NONE if d is None else ty(d, sh, 1)
            ops = [[A('newscope'), NONE], [A('newscope'), 0], [A('newscope'), 1]]
            parts = ['V']
            par = NONE
            if pm != 'plain':
                ptype = ty(A('integer')) if pm == 'parent-int' else ty(derived('tt', 0))
                base = {'member-a': 'A', 'member-b': 'b', 'member-z': 'z', 'noparent-a': 'a', 'parent-int': 'a'}[pm]
                parts = ['p', base]
                # the parent lives in the middle scope
                ops.append([A('settype'), 1, 'P', ptype])
                if pm != 'noparent-a':
                    ops.append([A('create'), ['p'], 1, NONE, NONE, NONE])
                    par = 0
            name = '%'.join(parts)
            dm_x = NONE if dm is None else dm
            if pl == 'arg-unattached':
                ops.append([A('create'), parts, NONE, t, par, dm_x])
            elif pl == 'arg-attached':
                ops.append([A('create'), parts, 2, t, par, dm_x])
            else:
                depth = int(pl[-1])
                if d is not None:
                    ops.append([A('settype'), 2 - depth, name, t])
                ops.append([A('create'), parts, 2, NONE, par, dm_x])
            ops.append([A('resolve'), 2, name])
            yield Case(hist(ops), stream='cross-' + pm, nontrivial=True)

    def gen_rescope_cross(self):
        """exhaustive: own type x entry on record for the name (none / DEFERRED / clean, in the target or its parent) x
        source attached or not x operation (rescope, clone into the scope with / without type)"""
        owns = [NONE, ty(A('integer'), None, 1), ty(A('real'), 1, 2), ty(A('deferred'), None, 3), ty(proc('x'), None, 0)]
        exist = [NONE, ty(A('deferred'), None, 4), ty(A('logical'), None, 5), ty(A('real'), 2, 6)]
        for own, ex, where, attached, dims in itertools.product(owns, exist, (0, 1), (False, True), (NONE, 0, 1)):
            ops = [[A('newscope'), NONE], [A('newscope'), 0], [A('newscope'), NONE]]
            if not is_none(ex):
                ops.append([A('settype'), where, 'X', ex])
            ops.append([A('create'), ['x'], 2 if attached else NONE, own, NONE, dims])
            ops += [[A('rescope'), 0, 1], [A('clone'), 0, KEEP, 1, KEEP, KEEP], [A('clone'), 0, KEEP, 1, NONE, KEEP],
                    [A('settype'), 0, 'x', ty(A('integer'), 1, 7)], [A('rescope'), 0, 1]]
            yield Case(hist(ops), stream='rescope-cross')

    def rand_type(self, rng, allow_deferred=True):
        d = rng.choice([A('integer'), A('real'), A('logical'), A('deferred'), derived('x'), derived('other'),
                        derived('tt', 0), derived('uu', 1), proc('x'), proc('f')])
        if not allow_deferred and str(d) == 'deferred':
            d = A('integer')
        return ty(d, rng.choice([None, None, None, 0, 1, 2]), rng.randint(0, 3))

    def gen_history(self, rng, nops, tdefs):
        names = ['x', 'X', 'y', 'p', 'P', 'q']
        members = ['a', 'A', 'b', 'x', 'z', 'c'] + (['d'] if tdefs is TDEFS_DEF else [])
        nsc, nsym = 0, 0
        tops = []         # indices of parentless symbols (usable as parents)
        ops = []

        def some_scope(p_none=0.0):
            if nsc == 0 or rng.random() < p_none:
                return NONE
            return rng.randrange(nsc)

        def some_parts():
            if rng.random() < 0.45:
                return [rng.choice(['p', 'P', 'q']), rng.choice(members)]
            return [rng.choice(names)]

        for _ in range(nops):
            r = rng.random()
            if nsc == 0 or (r < 0.08 and nsc < 4):
                ops.append([A('newscope'), some_scope(0.3)])
                nsc += 1
            elif r < 0.30:
                ops.append([A('settype'), rng.randrange(nsc), '%'.join(some_parts()), self.rand_type(rng)])
            elif r < 0.62 or nsym == 0:
                parts = some_parts()
                par = NONE
                if len(parts) == 2 and tops and rng.random() < 0.8:
                    par, pname = rng.choice(tops)
                    if rng.random() < 0.85:
                        parts = [pname if rng.random() < 0.7 else pname.upper(), parts[1]]   # qualifier = parent's name
                elif tops and rng.random() < 0.05:
                    par = rng.choice(tops)[0]
                t = self.rand_type(rng) if rng.random() < 0.5 else NONE
                dims = rng.choice([NONE, NONE, NONE, 0, 1, 2])
                ops.append([A('create'), parts, some_scope(0.25), t, par, dims])
                if is_none(par):
                    tops.append((nsym, parts[-1]))      # optimistic; a recursion error shifts indices, harmless
                nsym += 1
            elif r < 0.80:
                i = rng.randrange(nsym)
                nm = KEEP if rng.random() < 0.8 else some_parts()
                sc = KEEP if rng.random() < 0.4 else some_scope(0.3)
                t = KEEP if rng.random() < 0.5 else (NONE if rng.random() < 0.3 else self.rand_type(rng))
                dm = KEEP if rng.random() < 0.6 else rng.choice([NONE, 0, 1])
                ops.append([A('clone'), i, nm, sc, t, dm])
                nsym += 1
            elif r < 0.95:
                ops.append([A('rescope'), rng.randrange(nsym), rng.randrange(nsc)])
                nsym += 1
            else:
                ops.append([A('resolve'), rng.randrange(nsc), '%'.join(some_parts())])
        return ops

    def gen(self, rng, tier):
        yield from self.gen_cross(tier)
        yield from self.gen_rescope_cross()
        n, nops = {'quick': (150, 14), 'thorough': (2500, 24), 'search': (800, 20)}.get(tier, (150, 14))
        for k in range(n):
            tdefs = TDEFS_DEF if k % 5 == 4 else TDEFS
            yield Case(hist(self.gen_history(rng, nops, tdefs), tdefs), stream='history' + ('-deferred-member' if tdefs is TDEFS_DEF else ''))

    # ---- real code
    def impl(self, req):
        tdefs, ops = parse_hist(req)
        w = World(tdefs)
        out = [A('ok')]
        for op in ops:
            o = w.step(op)
            syms, tabs = w.observe()
            out.append([o, syms, tabs])
        return out

    # ---- tables regenerated from /repo
    def tables(self):
        import ast
        from ..core import REPO
        src = (REPO / 'loki' / 'expression' / 'symbols.py').read_text()
        tiers = []
        poptest = ''
        for node in ast.walk(ast.parse(src)):
            if isinstance(node, ast.ClassDef) and node.name == 'Variable':
                for fn in node.body:
                    if isinstance(fn, ast.FunctionDef) and fn.name == '__new__':
                        rets = [r for r in ast.walk(fn) if isinstance(r, ast.Return)]
                        rets.sort(key=lambda r: r.lineno)
                        tiers = [r.value.func.id for r in rets
                                 if isinstance(r.value, ast.Call) and isinstance(r.value.func, ast.Name)]
                        for st in ast.walk(fn):
                            if isinstance(st, ast.If) and "kwargs.pop('dimensions')" in ast.unparse(st.body[0]):
                                poptest = ast.unparse(st.test)
        basic = [(m.name, int(m.value)) for m in BasicType]
        td = TypeDef(name='t', body=())
        samples = [('SymbolAttributes', SymbolAttributes(BasicType.DEFERRED)), ('DerivedType', DerivedType('t')),
                   ('ProcedureType', ProcedureType('p')), ('TypeDef', td),
                   ('Scalar', sym.Variable(name='a', type=SymbolAttributes(BasicType.INTEGER))),
                   ('Array', sym.Variable(name='a', dimensions=(sym.IntLiteral(1),))),
                   ('DeferredTypeSymbol', sym.Variable(name='a')),
                   ('ProcedureSymbol', sym.Variable(name='a', type=SymbolAttributes(ProcedureType('a')))),
                   ('DerivedTypeSymbol', sym.Variable(name='t', type=SymbolAttributes(DerivedType('t'))))]

        def q(x):
            return '"' + x + '"'
        body = ('-- GENERATED from /repo by harness/props/c13.py (tables()); do not edit\n'
                'namespace LokiModel.C13.Generated\n'
                '/-- return statements of `Variable.__new__` in source order -/\n'
                'def tierReturns : List String := [' + ', '.join(q(t) for t in tiers) + ']\n'
                '/-- the test under which `Variable.__new__` drops the `dimensions` keyword (ast.unparse) -/\n'
                'def dimsPopTest : String := ' + q(poptest) + '\n'
                '/-- members of the `BasicType` int-enum with their values (value 0 is falsy) -/\n'
                'def basicTypes : List (String × Nat) := [' + ', '.join(f'({q(n)}, {v})' for n, v in basic) + ']\n'
                '/-- `bool(x)` of a sample object of each class used in a truthiness test of the anchored code -/\n'
                'def sampleTruthy : List (String × Bool) := ['
                + ', '.join(f'({q(n)}, {"true" if bool(o) else "false"})' for n, o in samples) + ']\n'
                'end LokiModel.C13.Generated\n')
        return {'LokiModel/Generated/C13Tables.lean': body}

    # ---- direct oracle on the real code
    def oracle(self, req):
        """replays the history on the real code and checks, step by step, the statements of the property
        (written from properties.jsonl, not from the model)"""
        tdefs, ops = parse_hist(req)
        w = World(tdefs)
        fails = []
        seen = set()

        def fail(what, cls):
            if (what[:40], cls) not in seen:
                seen.add((what[:40], cls))
                fails.append(Failure(what, cls))

        created_type = {}      # index -> rendered type at creation, for unattached symbols

        def reports():
            return [dumps(w.read_type(v)) for v in w.syms]

        before = reports()
        for k, op in enumerate(ops):
            kind = str(op[0])
            nsym = len(w.syms)
            pre = None
            if kind == 'rescope':
                i, sc = int(str(op[1])), int(str(op[2]))
                if i < nsym and 0 <= sc < len(w.scopes):
                    v = w.syms[i]
                    own = w.read_type(v)
                    ex = w.scopes[sc].symbol_attrs.lookup(v.name)
                    pre = (v, own, ex)
            inherit = None
            if kind == 'create' and is_none(op[3]) and is_none(op[4]) and len(op[1]) == 1 and not is_none(op[2]):
                sc = opt_int(op[2])
                if 0 <= sc < len(w.scopes):
                    # reference host association: first scope up the chain whose own table has the name
                    s_ = w.scopes[sc]
                    inherit = NONE
                    while s_ is not None:
                        e = dict.get(s_.symbol_attrs, str(op[1][0]).lower())
                        if e is not None:
                            inherit = w.r_type(e)
                            break
                        s_ = s_.parent
            # does the parent object handed to the factory deliver the member through its own type definition?
            # (pure: parents have no parent, so their type is their own `_type` or the entry of their scope)
            parent_delivers = False
            if kind == 'create' and not is_none(op[4]) and opt_int(op[4]) < nsym:
                pv = w.syms[opt_int(op[4])]
                if pv.parent is None:
                    pt = pv.type if pv.scope is None else pv.scope.symbol_attrs.lookup(pv.name)
                    td = getattr(getattr(pt, 'dtype', None), 'typedef', None) if pt is not None else None
                    if td is not None and td is not BasicType.DEFERRED:
                        parent_delivers = any(m.name.lower() == str(op[1][-1]).lower() for m in td.variables)
            on_record = None
            if kind == 'clone' and is_keep(op[4]) and int(str(op[1])) < nsym:
                v0 = w.syms[int(str(op[1]))]
                tgt = v0.scope if is_keep(op[3]) else (None if is_none(op[3]) or not w.scope_ok(opt_int(op[3])) else w.scopes[opt_int(op[3])])
                nm0 = v0.name if is_keep(op[2]) else '%'.join(str(p) for p in op[2])
                if tgt is not None and (v0.parent is None) and '%' not in nm0:
                    e = dict.get(tgt.symbol_attrs, nm0.lower())
                    if e is not None:
                        on_record = dumps(w.r_type(e))
            out = w.step(op)
            if dumps(out) == '(error recursion)':
                fail(f'step {k} {dumps(op)}: RecursionError while resolving a type', None)
            new = w.syms[nsym] if len(w.syms) > nsym else None
            # targeted reads first (reading a type can rewrite table entries, see member-lookup-rewrites-siblings)
            new_r = None
            if new is not None:
                rec0 = None if new.scope is None else new.scope.symbol_attrs.lookup(new.name)
                t = None
                try:
                    t = new.type
                except RecursionError:
                    pass
                new_r = dumps(w.read_type(new))
                # (a) classification according to the type recorded / the subscripts given
                dims = new.dimensions if isinstance(new, sym.Array) else None
                given, has_parent = new.name, new.parent is not None
                if kind == 'create':
                    given = '%'.join(str(p) for p in op[1])
                    if not is_none(op[5]):
                        dims = w.mk_dims(opt_int(op[5]))
                elif kind == 'clone':
                    if not is_keep(op[2]):
                        given = '%'.join(str(p) for p in op[2])
                    if not is_keep(op[5]) and not is_none(op[5]):
                        dims = w.mk_dims(opt_int(op[5]))
                ref = ref_class(t, given, dims)
                got = type(new).__name__
                # precondition: the name handed to the factory is the symbol's name (qualifier and parent agree)
                consistent = (not has_parent) or given.lower() == new.name.lower()
                if got != ref and consistent:
                    shape = None if t is None else t.__dict__.get('shape')
                    cls = None
                    explicit_empty = kind in ('create', 'clone') and not is_keep(op[5]) and not is_none(op[5]) \
                        and opt_int(op[5]) == 0        # dimensions=() handed to Variable / clone by the caller
                    if got == 'Array' and not new.dimensions and not shape and explicit_empty and not (
                            has_parent and new.scope is not None and (rec0 is None or not rec0.dtype)):
                        cls = 'empty-dimensions-array'
                    elif has_parent and new.scope is not None and (rec0 is None or not rec0.dtype) and not (
                            kind == 'create' and is_none(op[3]) and parent_delivers):
                        # DEFERRED on record (handed to the factory as type=, or left where the given parent does not
                        # deliver the member), the type definition is reported.  NOT the class when Variable resolves the
                        # type itself and the given parent delivers the member: then `_get_type_from_scope` must look
                        # through a stale DEFERRED entry exactly like `_lookup_type` does.
                        cls = 'deferred-entry-on-member'
                    elif not has_parent and '%' in given:
                        cls = 'qualified-name-without-parent'
                    fail(f'step {k} {dumps(op)}: symbol {new.name} of recorded type {dumps(w.r_type(t))} is a {got}, '
                         f'the decision table says {ref}', cls)
                if new.scope is None:
                    created_type[nsym] = new_r
                # (g) a symbol created without type takes the declaration visible from its scope
                if inherit is not None:
                    want = dumps(inherit) if not is_none(inherit) else dumps(ty(A('deferred')))
                    if new_r != want:
                        fail(f'step {k} {dumps(op)}: declaration visible from the scope is {dumps(inherit)}, '
                             f'the new symbol reports {new_r}', None)
                # (h) clone into a scope without type= takes what that scope has on record for the name
                if on_record is not None and new_r != on_record:
                    fail(f'step {k} {dumps(op)}: the scope has {on_record} on record, the clone reports {new_r}', None)
                # (b) created by name
                if not has_parent and new.name.lower() != given.lower():
                    fail(f'step {k} {dumps(op)}: symbol created as "{given}" is named "{new.name}"',
                         'qualified-name-without-parent' if '%' in given else None)
            # (d) type sharing
            if kind == 'settype' and dumps(out) == 'done':
                sc, name = w.scopes[int(str(op[1]))], str(op[2])
                want = dumps(w.r_type(w.mk_type(op[3])))
                for j, v in enumerate(w.syms):
                    if v.scope is None or v.name.lower() != name.lower():
                        continue
                    if v.scope.get_symbol_scope(name) is not sc:
                        continue
                    got = dumps(w.read_type(v))
                    if got != want:
                        cls = None
                        if str(op[3][1]) == 'deferred' and v.parent is not None and 'recursion' not in got:
                            cls = 'deferred-entry-on-member'
                        fail(f'step {k} {dumps(op)}: symbol {j} ({v.name}) attached to a scope resolving the name to the '
                             f'updated scope reports {got}', cls)
            # (f) rescope keeps what the target scope has on record
            if pre is not None and new is not None:
                v, own, ex = pre
                clean = ex is not None and bool(ex.dtype)
                if not is_none(own) and 'recursion' not in dumps(own):
                    if ex is not None and (clean or v.parent is None):
                        if new_r != dumps(w.r_type(ex)):
                            fail(f'step {k} {dumps(op)}: target scope had {dumps(w.r_type(ex))} on record for {v.name}, '
                                 f'rescoped symbol reports {new_r}', None)
                        now = w.scopes[int(str(op[2]))].symbol_attrs.lookup(v.name)
                        if dumps(w.r_type(now)) != dumps(w.r_type(ex)):
                            fail(f'step {k} {dumps(op)}: rescope changed the recorded type of {v.name} in the target scope', None)
                    elif ex is None and v.parent is None:
                        if new_r != dumps(own):
                            fail(f'step {k} {dumps(op)}: rescoped symbol {v.name} reports {new_r}, own type was {dumps(own)}', None)
            after = reports()
            # (c) an operation on one name does not change what symbols of other names report
            #     (a member legitimately depends on its own name and on the name of its root)
            if kind in ('create', 'clone', 'rescope', 'typeof', 'resolve'):
                newname = new.name.lower() if new is not None else None
                for j in range(nsym):
                    v = w.syms[j]
                    vn = v.name.lower()
                    if before[j] != after[j] and newname not in (vn, vn.split('%')[0]):
                        cls = None
                        if 'recursion' in before[j] + after[j]:
                            cls = None
                        elif kind == 'create' and is_none(op[4]) and len(op[1]) > 1:
                            cls = 'qualified-name-without-parent'
                        elif kind == 'clone' and not is_keep(op[2]) and len(op[2]) > 1 and new is not None and new.parent is None:
                            cls = 'qualified-name-without-parent'
                        elif v.parent is not None and self._is_typedef_type(w, v, after[j]):
                            cls = 'member-lookup-rewrites-siblings'
                        fail(f'step {k} {dumps(op)}: type reported by {v.name} (symbol {j}) changed from {before[j]} '
                             f'to {after[j]}', cls)
            # (e) unattached symbols keep their own type
            for j, r in created_type.items():
                if after[j] != r:
                    fail(f'step {k} {dumps(op)}: unattached symbol {j} ({w.syms[j].name}) reported {r} at creation, now {after[j]}', None)
            before = after
        return fails

    @staticmethod
    def _is_typedef_type(w, v, rendered):
        """v is a member whose reported type is the one a type definition declares for that member name"""
        for td in w.tdefs:
            for m in td.variables:
                if m.name.lower() == v.basename.lower() and dumps(w.r_type(m.type)) == rendered:
                    return True
        return False

    def classes(self):
        # repaired by fix: commits (a reappearance is a plain VIOLATION): deferred-member-recursion,
        # array-rescope-keeps-array (the rescope route of empty-dimensions-array)
        return ['empty-dimensions-array', 'qualified-name-without-parent', 'member-lookup-rewrites-siblings',
                'deferred-entry-on-member']


PROP = C13()
READY = True
