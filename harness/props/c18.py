"""C18 — pickling round-trip preserves program units.

Request:  (c18 (src "<fortran>") (defs "<fortran>") (target "<unit name>|<file>") (model (pickle18 <heap> <roots>)))

`heap` is the export of the real objects (see harness/props/c17.py and lean/LokiModel/C17/Model.lean); `roots` are the addresses of
the pickled program units (one unit, or all top-level units of the source file for target "<file>").  Response: `(error …)` when
unpickling raises, else per root the abstraction of original and unpickled copy (names, table entries, symbols with looked-up
type code, scope name and scope owner) and the heap-walker sharing set.
"""
import pickle

import pymbolic.primitives as pmbl

from loki import Sourcefile, Subroutine, Module, fgen
from loki.ir import nodes as irn
from loki.expression import symbols as sym, ExpressionRetriever
from loki.program_unit import ProgramUnit
from loki.types import ProcedureType

from ..core import Prop, Case, Failure
from ..sexpr import A, dumps
from . import c17
from .c17 import (NONE, parse, top_units, find_unit, members, own_scopes, all_symbols, render_unit, scope_tags,
                  shared_objects, walker_label, env_ids, split_children, sections, Export)

FILE = '<file>'

# repaired by fix: commits in /repo (known_findings.json, status fixed): pickle-member-parent-lost, pickle-derived-type-import-crash,
# pickle-cast-crash, pickle-sourcefile-ast-attr — the classifier no longer knows them, every such deviation is a violation
K_PROC = 'pickle-drops-procedure-link'


# ------------------------------------------------------------------------------------------ generator

def gen_program(rng, force=None):
    f = dict(module=rng.random() < 0.75, typedef=rng.random() < 0.4, members=rng.random() < 0.3, assoc=rng.random() < 0.5,
             defs=rng.random() < 0.4, impdt=rng.random() < 0.12, cast=rng.random() < 0.1, two=rng.random() < 0.6,
             modvar=rng.random() < 0.7)
    if force:
        f.update(force)
    if not f['module']:
        f['typedef'] = False
        f['modvar'] = False
    if not f['defs']:
        f['impdt'] = False
    if f['impdt']:
        f['cast'] = False
    defs = ''
    if f['defs']:
        defs = ('module d_mod\n  implicit none\n  real :: dg\n  type d_t\n    real :: c\n  end type d_t\ncontains\n'
                '  subroutine ext(w)\n    real, intent(inout) :: w\n    w = w + dg\n  end subroutine ext\nend module d_mod\n')
    use = '  use d_mod, only: ext, dg' + (', d_t' if f['impdt'] else '')
    L = []
    ind = '  ' if f['module'] else ''
    if f['module']:
        L += ['module m_mod']
        if f['defs']:
            L += [use]
        L += ['  implicit none']
        if f['typedef']:
            L += ['  type t_pt', '    real :: a', '    integer :: n', '  end type t_pt', '  type(t_pt) :: gp']
        if f['modvar']:
            L += ['  real :: g', '  integer, parameter :: jp = 4']
        L += ['contains']

    def routine(name, callee, with_members):
        R = [f'subroutine {name}(x, n)']
        if f['defs'] and not f['module']:
            R += [use]
        R += ['  integer, intent(in) :: n', '  real, intent(inout) :: x(n)', '  real :: v0', '  integer :: i']
        if f['typedef']:
            R += ['  type(t_pt) :: p']
        if f['impdt']:
            R += ['  type(d_t) :: q']
        R += ['  do i = 1, n', '    x(i) = x(i) + v0' + (' + g' if f['modvar'] else '') + (' + p%a' if f['typedef'] else ''), '  end do']
        if f['cast']:
            R += ['  v0 = real(i)']
        if f['assoc']:
            R += ['  associate(y => x(1))', '    y = y + v0', '  end associate']
        if callee:
            R += [f'  call {callee}(x, n)']
        if f['defs']:
            R += ['  call ext(x(1))']
        if with_members:
            R += [f'  call {name}_in(x(1))', 'contains', f'  subroutine {name}_in(z)', '    real, intent(inout) :: z',
                  '    z = z + x(2) + v0' + (' + g' if f['modvar'] else ''), f'  end subroutine {name}_in']
        R += [f'end subroutine {name}']
        return [ind + r for r in R]

    if f['two'] and f['module']:
        L += routine('s_two', None, False)
    L += routine('s_one', 's_two' if (f['two'] and f['module']) else None, f['members'])
    if f['module']:
        L += ['end module m_mod']
    src = '\n'.join(L) + '\n'
    top = 'm_mod' if f['module'] else 's_one'
    return dict(src=src, defs=defs, targets=[top, top, FILE], feats=f)


# ------------------------------------------------------------------------------------------ crash classes on real objects

def node_has(n, pred):
    for c in n.children:
        stack = [c]
        while stack:
            x = stack.pop()
            if isinstance(x, (tuple, list)):
                stack.extend(x)
            elif isinstance(x, pmbl.Expression):
                if ExpressionRetriever(pred).retrieve(x):
                    return True
    return False


def label18(n):
    """node label (the crash markers of the first wave are gone: unpickling must not raise)"""
    return type(n).__name__


class Export18(Export):
    def fill_node(self, n, tag):
        super().fill_node(n, tag)
        cell = self.cells[self.addr[id(n)]][1]
        cell[1] = label18(n)


def export18(sf, dsf, roots):
    ex = Export18()
    allroots = (top_units(dsf) if dsf else []) + top_units(sf)
    for u in allroots:
        ex.number_unit(u)
    for u in allroots:
        ex.fill_unit(u, 1 if any(u is r for r in roots) else 0, None)
    return ex


def make_request(src, defs, target):
    sf, dsf = parse(src, defs)
    roots = top_units(sf) if target == FILE else [find_unit(top_units(sf), target)]
    ex = export18(sf, dsf, roots)
    model = [A('pickle18'), ex.cells, [ex.addr[id(r)] for r in roots]]
    return [A('c18'), [A('src'), src], [A('defs'), defs], [A('target'), target], [A('model'), model]]


def all_units(u):
    out = []
    for mu in members(u):
        out += [mu] + all_units(mu)
    return out


def external_proc_links(u):
    """table entries of the unit tree whose ProcedureType is linked to a procedure outside the tree"""
    own = {id(x) for x in [u] + all_units(u)}
    out = []
    for x in [u] + all_units(u):
        for k, t in dict.items(x.symbol_attrs):
            if isinstance(t.dtype, ProcedureType) and isinstance(t.dtype.procedure, ProgramUnit) and id(t.dtype.procedure) not in own:
                out.append(k)
    return out


class Run18:
    def __init__(self, req):
        body = {str(x[0]): x[1:] for x in req[1:]}
        self.src, self.defs, self.target = body['src'][0], body['defs'][0], body['target'][0]
        self.sf, self.dsf = parse(self.src, self.defs)
        self.obj = self.sf if self.target == FILE else find_unit(top_units(self.sf), self.target)
        self.roots = top_units(self.sf) if self.target == FILE else [self.obj]
        self.error = None
        self.copy = None
        try:
            self.copy = pickle.loads(pickle.dumps(self.obj))
        except AssertionError:
            self.error = 'assertion'
        except AttributeError:
            self.error = 'attribute'
        if self.copy is not None:
            self.croots = top_units(self.copy) if self.target == FILE else [self.copy]


def snapshot(o, c, env):
    own_o = {id(x) for x in own_scopes(o)}
    own_c = {id(x) for x in own_scopes(c)}
    sh = sorted(walker_label(x) for x in shared_objects(o, c, env))
    return [A('snap'), render_unit(o), scope_tags(o, own_o, own_c), render_unit(c), scope_tags(c, own_o, own_c), sh]


def render_unit18(u):
    """render with the C18 labels (crash markers never appear in a successful round trip, so plain labels suffice)"""
    return render_unit(u)


class C18(Prop):
    id = 'C18'
    title = 'Pickling round-trip preserves program units'
    model_modules = ['LokiModel.C17.Model', 'LokiModel.C17.Wire', 'LokiModel.C18.Model']
    props_module = 'LokiModel.Props.C18'
    driver = 'Drivers/C18.lean'
    theorems = ['unpickle_inv', 'unpickle_attached', 'attInv_of_fresh', 'unpickle_attrs', 'unpickle_fresh_partial']
    design_ref = 'DESIGN.md 4.B C17 / C18'
    level = 'proof'
    level_text = ('Proved for all heaps with the ownership invariant, all units and fuel values: unpickle_inv (the round trip keeps every '
                  'owner tag and allocates only cells whose strong references stay in the copy and whose parents/scopes are in the copy '
                  'or the environment) and unpickle_attached (EVERY symbol occurrence of the copy is attached to a scope object of the '
                  'copy; hypothesis: the ghost flag "a name is declared nowhere in the new chain" is clear, compared by correspondence). '
                  '_partial: unpickle_fresh_partial (nothing mutable shared, given the typedef links of the copy respect ownership — the '
                  'model drops them). NOT proved: render(unpickle(pickle u)) = render u and type equality (correspondence + oracle only).')
    level_note = ('pickle is modelled as a deep copy that drops exactly what the __getstate__ methods drop and re-attaches what the '
                  '__setstate__ methods re-attach; the pickle byte format, the reduce protocol of dict/tuple/pymbolic/pydantic classes, '
                  'memoisation order and the deep copy of TypeDef nodes reached through DerivedType.typedef are not modelled; '
                  'unpickling is modelled as total (an exception of the real code is a correspondence failure).')
    technique = 'Lean 4 theorems about the C17 heap model in pickle mode + correspondence with real pickle round trips'
    rule = ('generated Fortran files (module with optional derived type, module variables, imports of procedures / derived types from a '
            'definitions module with enrichment, routines with ASSOCIATE, member procedures, Cast expressions); the top-level unit or '
            'the whole Sourcefile is pickled and unpickled; non-trivial = every case; distinct = feature vector and target')
    trusted_base = ['exporter real objects -> heap cells (harness/props/c17.py, c18.py)', 'heap walker', 'python pickle']
    assumptions = ['only top-level units and whole files are pickled (a contained routine pickled alone loses its parent by design)']
    extra_obligations = ['heap-walker sharing set = model reach intersection (empty)']

    def classes(self):
        return [K_PROC]

    def gen(self, rng, tier):
        n = dict(quick=32, thorough=300, search=150).get(tier, 32)
        for _ in range(n):
            prog = gen_program(rng)
            target = rng.choice(prog['targets'])
            req = make_request(prog['src'], prog['defs'], target)
            feats = ''.join(k[0] + k[-1] for k, v in sorted(prog['feats'].items()) if v)
            yield Case(req, stream='dt-import-or-cast' if (prog['feats']['impdt'] or prog['feats']['cast']) else 'roundtrip',
                       nontrivial=True, key=f'{feats}:{target}')

    def impl(self, req):
        r = Run18(req)
        if r.error:
            return [A('error'), A(r.error)]
        env = env_ids([r.sf] + ([r.dsf] if r.dsf else []), r.obj) if r.target != FILE else \
            (set(c17.walk(r.dsf, set())) if r.dsf else set())
        return [A('ok'), False] + [snapshot(o, c, env) for o, c in zip(r.roots, r.croots)]

    def oracle(self, req):
        return oracle(req)


def oracle(req):
    fails = []
    r = Run18(req)
    if r.error:
        return [Failure(f'pickle.loads(pickle.dumps(x)) raises ({r.error})', None)]
    o, c = r.obj, r.copy
    txt = (lambda x: x.to_fortran()) if r.target == FILE else fgen
    if txt(o) != txt(c):
        fails.append(Failure('generated code of the unpickled object differs', None))
    ext = [k for u in r.roots for k in external_proc_links(u)]
    if not c == o:
        fails.append(Failure('unpickled object does not compare equal to the original', K_PROC if ext else None))
    env = set(c17.walk(r.dsf, set())) if r.dsf else set()
    for uo, uc in zip(r.roots, r.croots):
        own_c = {id(x) for x in own_scopes(uc)}
        bad = [s for s in all_symbols(uc) if s.scope is None or id(s.scope) not in own_c]
        if bad:
            fails.append(Failure(f'symbol {bad[0]} of the unpickled unit is attached to {bad[0].scope!r}, not to an unpickled scope', None))
        to = [repr(s.type) for s in all_symbols(uo)]
        tc = [repr(s.type) for s in all_symbols(uc)]
        if to != tc:
            diff = [i for i, (a, b) in enumerate(zip(to, tc)) if a != b]
            names = {c17.lname(all_symbols(uo)[i].name) for i in diff}
            fails.append(Failure(f'symbol types differ after the round trip: {sorted(names)[:4]}',
                                 K_PROC if (ext and names <= set(ext)) else None))
        for mo, mc in zip(members_rec(uo), members_rec(uc)):
            if mc.parent is None or mc.parent.name != mo.parent.name:
                fails.append(Failure(f'contained unit {mc.name} lost its parent', None))
                break
        sh = shared_objects(uo, uc, env)
        if sh:
            fails.append(Failure('mutable objects shared with the original: ' + ', '.join(sorted(walker_label(x) for x in sh)), None))
    try:
        cc = c.clone()
        if txt(cc) != txt(o):
            fails.append(Failure('clone of the unpickled object generates different code', None))
    except AttributeError as e:
        fails.append(Failure(f'unpickled object is unusable: clone() raises {e}', None))
    return fails


def members_rec(u):
    return all_units(u)


def walk_nodes(n):
    out = [n]
    for k in split_children(n)[0]:
        out += walk_nodes(k)
    return out


PROP = C18()
READY = True
