"""C30 — array-notation resolution and index normalisation preserve behaviour.

Request: ``(c30 <op> <gf|nogf> <program> (<input set>...))`` with op one of
  resolve   resolve_vector_notation on every routine
  normshape normalize_array_shape_and_access
  addexp / remexp   add_ / remove_explicit_array_dimensions
  pipef     resolve -> normshape -> flatten_arrays(order='F', start_index=1)
  pipec     resolve -> normshape -> invert -> shift_to_zero -> flatten_arrays(order='C', start_index=0)  (the Fortran->C pipeline)
  invert    invert_array_indices
  shift0    shift_to_zero_indexing
Response (correspondence): ``(ok <canonical transformed program>)`` or ``(error <kind>)``.
"""
import os
import random
from collections import Counter
from fractions import Fraction

from ..core import Prop, Case, Failure
from ..sexpr import A, dumps, loads
from .. import fir
from ..fir import _h, _is_none, NONE

OPS = ('resolve', 'normshape', 'addexp', 'remexp', 'pipef', 'pipec', 'invert', 'shift0')
RESOLVING = ('resolve', 'pipef', 'pipec')


# ====================================================================== real transformations

def apply_real(op, sf):
    from loki.transformations.array_indexing import (
        resolve_vector_notation, normalize_array_shape_and_access, add_explicit_array_dimensions,
        remove_explicit_array_dimensions, flatten_arrays, invert_array_indices, shift_to_zero_indexing)
    for r in sf.subroutines:
        if op == 'resolve':
            resolve_vector_notation(r)
        elif op == 'normshape':
            normalize_array_shape_and_access(r)
        elif op == 'addexp':
            add_explicit_array_dimensions(r)
        elif op == 'remexp':
            remove_explicit_array_dimensions(r)
        elif op == 'pipef':
            resolve_vector_notation(r)
            normalize_array_shape_and_access(r)
            flatten_arrays(r, order='F', start_index=1)
        elif op == 'pipec':
            resolve_vector_notation(r)
            normalize_array_shape_and_access(r)
            invert_array_indices(r)
            shift_to_zero_indexing(r)
            flatten_arrays(r, order='C', start_index=0)
        elif op == 'invert':
            invert_array_indices(r)
        elif op == 'shift0':
            shift_to_zero_indexing(r)
        else:
            raise ValueError(op)


_tr_cache = {}


def transformed(op, prog):
    """('ok', exported FIR of the really transformed program) | ('error', kind)"""
    key = op + ' ' + dumps(prog)
    if key in _tr_cache:
        return _tr_cache[key]
    try:
        src = fir.emit_fortran(prog, wrap_program=False)
        sf = fir.parse_fortran(src)
    except Exception as e:      # the harness's own text must parse
        res = ('error', 'frontend:' + type(e).__name__)
    else:
        try:
            apply_real(op, sf)
        except Exception as e:
            res = ('error', 'raise:' + type(e).__name__)
        else:
            try:
                res = ('ok', fir.export_unit(sf, main=fir.prog_main(prog)))
            except fir.Unsupported as e:
                res = ('error', 'export:' + e.kind.split()[0])
    if len(_tr_cache) > 4000:
        _tr_cache.clear()
    _tr_cache[key] = res
    return res


# ====================================================================== canonical form for the correspondence

def _pmul(p, q):
    out = {}
    for (m1, c1) in p.items():
        for (m2, c2) in q.items():
            m = tuple(sorted(m1 + m2))
            out[m] = out.get(m, 0) + c1 * c2
    return out


_atoms = {}


def _lin(e):
    """polynomial normal form {sorted tuple of atom texts: coeff} of an integer expression; anything that is not
    a sum / difference / product / negation / integer literal is an atom (canonicalised inside)"""
    h = _h(e)
    if h == 'i':
        return {(): int(str(e[1]))}
    if h == 'neg':
        return {m: -c for m, c in _lin(e[1]).items()}
    if h == 'bin' and str(e[1]) in ('add', 'sub'):
        p = dict(_lin(e[2]))
        s = 1 if str(e[1]) == 'add' else -1
        for m, c in _lin(e[3]).items():
            p[m] = p.get(m, 0) + s * c
        return p
    if h == 'bin' and str(e[1]) == 'mul':
        return _pmul(_lin(e[2]), _lin(e[3]))
    t = canon_ex(e, top=False)
    k = dumps(t)
    _atoms[k] = t
    return {(k,): 1}


def _unlin(p):
    terms = []
    for m in sorted(p, key=lambda m: (len(m) == 0, m)):
        c = p[m]
        if c == 0 or not m:
            continue
        t = _atoms[m[0]]
        for k in m[1:]:
            t = [A('bin'), A('mul'), t, _atoms[k]]
        terms.append(t if c == 1 else [A('bin'), A('mul'), fir.ilit(c), t])
    c0 = p.get((), 0)
    if c0 != 0 or not terms:
        terms.append(fir.ilit(c0))
    out = terms[0]
    for t in terms[1:]:
        out = [A('bin'), A('add'), out, t]
    return out


def canon_ex(e, top=True):
    """subscripts, section bounds and declared bounds are put into a canonical linear form (Loki's ``simplify`` is
    applied to generated index expressions; its value preservation on integer sums is C08's business)"""
    h = _h(e)
    sub = lambda x: _unlin(_lin(x))
    if h in ('i', 'r', 'b', 'v'):
        return e
    if h == 'idx':
        return e[:2] + [sub(c) for c in e[2:]]
    if h == 'call':
        return e[:2] + [sub(c) for c in e[2:]]
    if h == 'sec':
        ds = []
        for d in e[2:]:
            if _h(d) == 'at':
                ds.append([d[0], sub(d[1])])
            else:
                ds.append([d[0]] + [x if _is_none(x) else sub(x) for x in d[1:4]])
        return e[:2] + ds
    if h in ('neg', 'not'):
        return [e[0], canon_ex(e[1])]
    if h == 'bin':
        return [e[0], e[1], canon_ex(e[2]), canon_ex(e[3])]
    raise ValueError('malformed expression')


def _canon_stmt(s):
    h = _h(s)
    ex = canon_ex
    body = lambda b: [_canon_stmt(t) for t in b if not (_h(t) == 'nop')]
    if h == 'assign':
        return [s[0], ex(s[1]), ex(s[2])]
    if h == 'do':
        sub = lambda x: _unlin(_lin(x))
        return [s[0], s[1], sub(s[2]), sub(s[3]), s[4] if _is_none(s[4]) else sub(s[4]), body(s[5])]
    if h == 'while':
        return [s[0], ex(s[1]), body(s[2])]
    if h == 'if':
        return [s[0], ex(s[1]), body(s[2]), body(s[3])]
    if h == 'select':
        return [s[0], ex(s[1]), [[list(c[0]), body(c[1])] for c in s[2]], body(s[3])]
    if h == 'assoc':
        return [s[0], [[b[0], ex(b[1])] for b in s[1]], body(s[2])]
    if h == 'callsub':
        return s[:2] + [ex(a) for a in s[2:]]
    if h == 'print':
        return s[:1] + [ex(a) for a in s[1:]]
    return list(s)


def canon_prog(prog):
    """documented normalisation of the correspondence: comment/pragma nodes dropped, declarations sorted by name,
    index expressions in linear normal form"""
    prog = fir.canon(prog)
    units = []
    for u in prog[2:]:
        decls = sorted(([d[0], d[1], d[2], d[3],
                         [[_unlin(_lin(b[0])), _unlin(_lin(b[1]))] for b in d[4]],
                         d[5] if _is_none(d[5]) else canon_ex(d[5])] for d in u[3]), key=lambda d: str(d[1]))
        units.append([u[0], u[1], list(u[2]), decls, [_canon_stmt(s) for s in u[4] if _h(s) != 'nop']])
    return fir.canon([prog[0], prog[1]] + units)


# ====================================================================== program analysis (mirror of the Lean Known… defs)

def _decl_map(u):
    return {str(d[1]): d for d in u[3]}


def _is_lit1(e):
    return _h(e) == 'i' and int(str(e[1])) == 1


def qualify(decls, e):
    """IterationRangeShapeMapper on one array reference: whole array -> all ':'; ':' -> declared lo:hi"""
    h = _h(e)
    if h == 'v' and str(e[1]) in decls and decls[str(e[1])][4]:
        e = [A('sec'), e[1]] + [[A('rng'), NONE, NONE, NONE] for _ in decls[str(e[1])][4]]
        h = 'sec'
    if h == 'sec' and str(e[1]) in decls:
        bs = decls[str(e[1])][4]
        ds = []
        for d, b in zip(e[2:], bs):
            if _h(d) == 'rng' and all(_is_none(x) for x in d[1:4]):
                ds.append([A('rng'), b[0], b[1], NONE])
            else:
                ds.append(d)
        return e[:2] + ds
    return e


def _sections(decls, e, out):
    """array references with at least one range dimension (after qualification), in FindVariables order"""
    h = _h(e)
    if h == 'v':
        q = qualify(decls, e)
        if _h(q) == 'sec':
            out.append(q)
    elif h == 'sec':
        out.append(qualify(decls, e))
        for d in e[2:]:
            for x in d[1:]:
                if not _is_none(x):
                    _sections(decls, x, out)
    elif h in ('idx', 'call'):
        for c in e[2:]:
            _sections(decls, c, out)
    elif h in ('neg', 'not'):
        _sections(decls, e[1], out)
    elif h == 'bin':
        _sections(decls, e[2], out)
        _sections(decls, e[3], out)


def _mentions(e, x):
    return fir._mentions(e, x)


def _step_norm(s):
    return 'i1' if _is_none(s) or _is_lit1(s) else dumps(s)


def _loops(stmts, out):
    for s in stmts:
        h = _h(s)
        if h == 'do':
            out.append(s)
            _loops(s[5], out)
        elif h == 'while':
            _loops(s[2], out)
        elif h == 'if':
            _loops(s[2], out)
            _loops(s[3], out)
        elif h == 'select':
            for c in s[2]:
                _loops(c[1], out)
            _loops(s[3], out)
        elif h == 'assoc':
            _loops(s[2], out)


def _range_key(lo, hi, st):
    return dumps([lo, hi, st])


def _reads_outside(stmts, v, inside):
    """v is mentioned by a statement that is not inside a DO loop over v (DO headers over v themselves excepted)"""
    for s in stmts:
        h = _h(s)
        if h == 'do':
            if any(_mentions(x, v) for x in (s[2], s[3]) + (() if _is_none(s[4]) else (s[4],))) and not inside:
                return True
            if _reads_outside(s[5], v, inside or str(s[1]) == v):
                return True
            continue
        exprs, bodies = [], []
        if h == 'assign':
            exprs = [s[1], s[2]]
        elif h == 'while':
            exprs, bodies = [s[1]], [s[2]]
        elif h == 'if':
            exprs, bodies = [s[1]], [s[2], s[3]]
        elif h == 'select':
            exprs, bodies = [s[1]], [c[1] for c in s[2]] + [s[3]]
        elif h == 'assoc':
            exprs, bodies = [b[1] for b in s[1]], [s[2]]
        elif h in ('callsub', 'print'):
            exprs = s[2:] if h == 'callsub' else s[1:]
        if not inside and any(_mentions(x, v) for x in exprs):
            return True
        for b in bodies:
            if _reads_outside(b, v, inside):
                return True
    return False


def hazards_resolve(prog):
    """set of known-class names whose predicate holds for some array assignment of the program (op = resolve…)"""
    out = set()
    for u in prog[2:]:
        decls = _decl_map(u)
        loops = []
        _loops(u[4], loops)
        loop_map = {}
        for l in loops:
            loop_map[_range_key(l[2], l[3], l[4])] = str(l[1])

        def walk(stmts, enclosing):
            for s in stmts:
                h = _h(s)
                if h == 'do':
                    walk(s[5], enclosing + [str(s[1])])
                elif h == 'while':
                    walk(s[2], enclosing)
                elif h == 'if':
                    walk(s[2], enclosing)
                    walk(s[3], enclosing)
                elif h == 'select':
                    for c in s[2]:
                        walk(c[1], enclosing)
                    walk(s[3], enclosing)
                elif h == 'assoc':
                    walk(s[2], enclosing)
                elif h == 'assign':
                    lhs = qualify(decls, s[1])
                    if _h(lhs) != 'sec' or str(lhs[1]) not in decls:
                        continue
                    lr = [d for d in lhs[2:] if _h(d) == 'rng']
                    if not lr:
                        continue
                    secs = []
                    _sections(decls, s[2], secs)
                    # open ranges
                    if any(_is_none(d[1]) or _is_none(d[2]) for d in lr):
                        out.add('KnownOpenRange')
                    for q in secs:
                        if any(_h(d) == 'rng' and _is_none(d[1]) for d in q[2:]):
                            out.add('KnownOpenRange')
                    # stride mismatch / rank mismatch
                    for q in secs:
                        qr = [d for d in q[2:] if _h(d) == 'rng']
                        if len(qr) != len(lr):
                            out.add('KnownStride')
                        for a, b in zip(lr, qr):
                            if _step_norm(a[3]) != _step_norm(b[3]):
                                out.add('KnownStride')
                    # overlap: the assigned array is read through anything but the identical section
                    x = str(lhs[1])
                    if _mentions(s[2], x) or any(_mentions(e, x) for d in lhs[2:] for e in d[1:] if not _is_none(e)):
                        same = dumps(lhs)

                        def only_same(e):
                            hh = _h(e)
                            if hh in ('v', 'sec') and str(e[1]) == x:
                                return dumps(qualify(decls, e)) == same
                            if hh == 'idx' and str(e[1]) == x:
                                return False
                            if hh in ('idx', 'call'):
                                return all(only_same(c) for c in e[2:])
                            if hh == 'sec':
                                return all(only_same(y) for d in e[2:] for y in d[1:] if not _is_none(y))
                            if hh in ('neg', 'not'):
                                return only_same(e[1])
                            if hh == 'bin':
                                return only_same(e[2]) and only_same(e[3])
                            return True
                        if not only_same(s[2]) or any(_mentions(e, x) for d in lhs[2:] for e in d[1:] if not _is_none(e)):
                            out.add('KnownOverlap')
                    # loop variable reuse through loop_map
                    for d in lr:
                        v = loop_map.get(_range_key(d[1], d[2], d[3]))
                        if v is None:
                            continue
                        if v in enclosing or _mentions(s[1], v) or _mentions(s[2], v) or v in [str(a) for a in u[2]] \
                                or _reads_outside(u[4], v, False):
                            out.add('KnownLoopVarReuse')
        walk(u[4], [])
    return out


def hazards_norm(prog):
    """normalize_array_shape_and_access: no known class left (KnownNormStride and KnownNormOpen were repaired by fix: commits;
    a section now keeps its own stride and its open ends)"""
    return set()


def hazards_print(prog):
    """PRINT is an opaque Intrinsic node in Loki: array references inside it are not rewritten"""
    out = set()
    for u in prog[2:]:
        decls = _decl_map(u)
        for s in fir.iter_stmts(u[4]):
            if _h(s) == 'print':
                hit = []

                def fe(e):
                    if _h(e) in ('idx', 'sec') and str(e[1]) in decls:
                        hit.append(e)
                    return e
                for a in s[1:]:
                    fir._map_ex(fe, a)
                if hit:
                    out.add('KnownPrintOpaque')
    return out


CLASS_ORDER = ('KnownOpenRange', 'KnownLoopVarReuse', 'KnownStride', 'KnownOverlap', 'KnownPrintOpaque')


def classify(op, prog):
    hz = set()
    if op in RESOLVING:
        hz |= hazards_resolve(prog)
    if op in ('normshape', 'pipef', 'pipec'):
        hz |= hazards_norm(prog)
    if op in ('normshape', 'pipef', 'pipec', 'invert', 'shift0'):
        hz |= hazards_print(prog)
    for c in CLASS_ORDER:
        if c in hz:
            return c
    return None


# ====================================================================== oracle plumbing

def wf_do(prog):
    """None, or a description of a DO-variable rule violation / undeclared variable in the (transformed) program"""
    for u in prog[2:]:
        declared = {str(d[1]) for d in u[3]}

        def walk(stmts, active):
            for s in stmts:
                h = _h(s)
                if h == 'do':
                    v = str(s[1])
                    if v in active:
                        return f'nested DO loops share the variable {v}'
                    if v not in declared:
                        return f'undeclared DO variable {v}'
                    r = walk(s[5], active | {v})
                    if r:
                        return r
                elif h == 'assign':
                    if _h(s[1]) == 'v' and str(s[1][1]) in active:
                        return f'assignment to active DO variable {s[1][1]}'
                elif h == 'while':
                    r = walk(s[2], active)
                    if r:
                        return r
                elif h == 'if':
                    r = walk(s[2], active) or walk(s[3], active)
                    if r:
                        return r
                elif h == 'select':
                    for c in s[2]:
                        r = walk(c[1], active)
                        if r:
                            return r
                    r = walk(s[3], active)
                    if r:
                        return r
                elif h == 'assoc':
                    r = walk(s[2], active)
                    if r:
                        return r
            return None
        r = walk(u[4], frozenset())
        if r:
            return r
    return None


def _redeclare(prog, f):
    """apply f(lo, hi) -> (lo, hi) to every declared array bound pair"""
    units = []
    for u in prog[2:]:
        decls = [[d[0], d[1], d[2], d[3], [list(f(b[0], b[1])) for b in d[4]], d[5]] for d in u[3]]
        units.append([u[0], u[1], u[2], decls, u[4]])
    return [prog[0], prog[1]] + units


def _minus1(e):
    return [A('bin'), A('sub'), e, fir.I(1)]


def _permute(bounds, data, back=False):
    """flat data of an array with ``bounds`` (column major) -> flat data of the array with reversed dimension order
    (``back``: ``bounds`` are those of the ORIGINAL array and data is in reversed order; return original order)"""
    ext = [hi - lo + 1 for lo, hi in bounds]
    n = len(ext)
    if n < 2:
        return list(data)
    size = 1
    for x in ext:
        size *= x
    rext = ext[::-1]
    out = [None] * size
    for o in range(size):
        idx, r = [], o
        for x in ext:
            idx.append(r % x)
            r //= x
        ridx = idx[::-1]
        ro, mul = 0, 1
        for k, x in zip(ridx, rext):
            ro += k * mul
            mul *= x
        if back:
            out[o] = data[ro]
        else:
            out[ro] = data[o]
    return out


def adapt(op, prog, tprog, inputs):
    """(program to run, inputs to run it on, function mapping its result back) for the transformed side"""
    ident = lambda r: r
    if op == 'pipec':
        def f(lo, hi):
            return fir.ilit(0), _minus1(hi)
        return _redeclare(tprog, f), inputs, ident
    if op == 'shift0':
        def f(lo, hi):
            return _minus1(lo), _minus1(hi)
        return _redeclare(tprog, f), inputs, ident
    if op == 'invert':
        shapes = {x: bs for x, _, _, bs in fir.main_shapes(prog, inputs)}
        new = []
        for row in inputs:
            x = str(row[0])
            bs = shapes.get(x)
            new.append([row[0]] + (_permute(bs, list(row[1:])) if bs else list(row[1:])))

        def back(r):
            if r[0] != 'ok':
                return r
            fin = {x: (_permute(shapes[x], v, back=True) if shapes.get(x) else v) for x, v in r[1].items()}
            return ('ok', fin, r[2])
        return tprog, new, back
    return tprog, inputs, ident


def _dec(req):
    if _h(req) != 'c30' or len(req) != 5:
        raise ValueError('malformed request')
    op = str(req[1])
    if op not in OPS or str(req[2]) not in ('gf', 'nogf') or _h(req[3]) != 'program':
        raise ValueError('malformed request')
    units = req[3][2:]
    if not units:
        raise ValueError('no unit')
    for u in units:
        if _h(u) != 'unit' or len(u) != 5 or not all(_h(d) == 'decl' and len(d) == 6 for d in u[3]):
            raise ValueError('malformed unit')
        declared = {str(d[1]) for d in u[3]}
        if not all(str(a) in declared for a in u[2]):
            raise ValueError('undeclared dummy')
    if str(req[3][1]) not in [str(u[1]) for u in units]:
        raise ValueError('no main unit')
    for u in units:     # strict: every name used is declared (the generic shrinker drops arbitrary list elements)
        declared = {str(d[1]) for d in u[3]}
        used = set()

        def fe(e):
            if _h(e) in ('v', 'idx', 'sec'):
                used.add(str(e[1]))
            return e
        fir.map_program([req[3][0], req[3][1], [u[0], u[1], u[2], [], u[4]]], fe)
        for st in fir.iter_stmts(u[4]):
            if _h(st) == 'do':
                used.add(str(st[1]))
            if _h(st) == 'assoc':
                declared |= {str(b[0]) for b in st[1]}
        if not used <= declared:
            raise ValueError('undeclared name')
    if not isinstance(req[4], list) or not all(isinstance(i, list) for i in req[4]):
        raise ValueError('malformed inputs')
    return op, str(req[2]) == 'gf', req[3], list(req[4])


_gf_cache = {}


# ====================================================================== generators

class _Tmpl:
    """small routines built around array assignments: ``kernel(n, k, arrays...)``, all arrays integer, intent(inout)"""

    def __init__(self, rng, mode):
        self.rng = rng
        self.mode = mode            # 'vec': section / whole-array assignments and loops; 'elem': loops over elements only;
        #                             'zero': like 'vec', biased to the literal 0 as section bound / subscript / loop bound on
        #                             arrays whose declared lower bound is <= 0 (stride 1, explicit bounds only)
        self.zero = mode == 'zero'
        self.vec = mode in ('vec', 'zero')
        self.sym = rng.random() < 0.6
        self.arrays = []
        for k in range(rng.randint(2, 4)):
            rank = rng.choice((1, 1, 1, 2, 2, 3))
            dims = []
            for j in range(rank):
                lb = rng.choice((-2, -1, 0, -3, -2, 0)) if self.zero else rng.choice((1, 1, 1, 0, -2, 2))
                if self.sym and j < 2 and rng.random() < (0.3 if self.zero else 0.5):
                    ext = 'n'
                else:
                    ext = rng.randint(3 if self.zero else 2, 5 if rank < 3 else (4 if self.zero else 3))
                dims.append((lb, ext))
            self.arrays.append((f'a{k + 1}', dims))
        self.loopvars = ['i', 'j', 'l']

    # ---- expressions for bounds
    def hi_of(self, lb, ext):
        if ext == 'n':
            return fir.V('n') if lb == 1 else fir.BIN('add' if lb > 1 else 'sub', fir.V('n'), fir.I(abs(lb - 1)))
        return fir.ilit(lb + ext - 1)

    def lo_plus(self, lb, c):
        return fir.ilit(lb + c)

    def fixed_index(self, lb, ext):
        if ext == 'n':
            return fir.ilit(lb)
        if self.zero and lb <= 0 <= lb + ext - 1 and self.rng.random() < 0.6:
            return fir.ilit(0)
        return fir.ilit(lb + self.rng.randrange(ext))

    # ---- sections
    def range_for(self, lb, ext, count, stride=None, allow_open=True):
        """(dim sexp, stride) hosting ``count`` elements in a dimension, or None"""
        rng = self.rng
        if ext == 'n':
            kind, off = count
            if kind != 'n':
                return None
            hi = self.hi_of(lb, ext)
            if self.zero:
                if stride not in (None, 1):
                    return None
                if off == 0:
                    return fir.RNG(fir.ilit(lb), hi, None), 1
            if off == 0:
                r = rng.random()
                if stride == -1 or (stride is None and r < 0.08):
                    return fir.RNG(hi, fir.ilit(lb), fir.ilit(-1)), -1
                if stride not in (None, 1):
                    return None
                if r < 0.45:
                    return fir.RNG(), 1
                if r < 0.5 and allow_open:
                    return fir.RNG(fir.ilit(lb), None, None), 1
                return fir.RNG(fir.ilit(lb), hi, None), 1
            if stride not in (None, 1):
                return None
            if rng.random() < 0.5:
                return fir.RNG(fir.ilit(lb + 1), hi, None), 1
            return fir.RNG(fir.ilit(lb), fir.BIN('sub', hi, fir.I(1)) if lb == 1 else self.hi_of(lb - 1, ext), None), 1
        kind, c = count
        if kind != 'lit' or c > ext:
            return None
        if self.zero:
            if stride not in (None, 1):
                return None
            starts = list(range(lb, lb + ext - c + 1))
            zs = [x for x in starts if x == 0 or x + c - 1 == 0]
            start = rng.choice(zs) if zs and rng.random() < 0.8 else rng.choice(starts)
            return fir.RNG(fir.ilit(start), fir.ilit(start + c - 1), None), 1
        cands = [t for t in ((stride,) if stride is not None else (1, 1, 1, 1, 2, -1, -2)) if (c - 1) * abs(t) <= ext - 1]
        if not cands:
            return None
        t = rng.choice(cands)
        span = (c - 1) * abs(t)
        start = lb + rng.randint(0, ext - 1 - span) + (span if t < 0 else 0)
        end = start + (c - 1) * t
        if t == 1 and c == ext and rng.random() < 0.5:
            return fir.RNG(), 1
        return fir.RNG(fir.ilit(start), fir.ilit(end), None if t == 1 and rng.random() < 0.8 else fir.ilit(t)), t

    def section(self, arr, counts, strides=None):
        """a section of ``arr`` with the given element counts along its range dimensions (in order), or None"""
        name, dims = arr
        rng = self.rng
        # choose hosting dims greedily with random skipping
        pos, chosen = 0, []
        for ci, cnt in enumerate(counts):
            hosts = [j for j in range(pos, len(dims) - (len(counts) - ci - 1))
                     if (dims[j][1] == 'n') == (cnt[0] == 'n') and (cnt[0] == 'n' or cnt[1] <= dims[j][1])]
            if not hosts:
                return None
            j = rng.choice(hosts[:2])
            chosen.append(j)
            pos = j + 1
        ds, used = [], []
        for j, (lb, ext) in enumerate(dims):
            if j in chosen:
                k = chosen.index(j)
                r = self.range_for(lb, ext, counts[k], None if strides is None else strides[k])
                if r is None:
                    return None
                ds.append(r[0])
                used.append(r[1])
            else:
                ds.append(fir.AT(self.fixed_index(lb, ext)))
        return fir.SEC(name, *ds), used

    def leaf_scalar(self, ivars):
        r = self.rng.random()
        if ivars and r < 0.35:
            return fir.V(self.rng.choice(ivars))
        if r < 0.55:
            return fir.V('k')
        if self.sym and r < 0.65:
            return fir.V('n')
        return fir.ilit(self.rng.randint(-3, 5))

    def vec_expr(self, lhs_arr, lhs_sec, counts, strides, depth, ivars):
        rng = self.rng
        if depth > 0 and rng.random() < 0.6:
            op = rng.choice(('add', 'add', 'sub', 'mul2', 'max'))
            a = self.vec_expr(lhs_arr, lhs_sec, counts, strides, depth - 1, ivars)
            if op == 'mul2':
                return fir.BIN('mul', fir.I(2), a)
            b = self.vec_expr(lhs_arr, lhs_sec, counts, strides, depth - 1, ivars)
            if op == 'max':
                return fir.CALL('max', a, b)
            return fir.BIN(op, a, b)
        if rng.random() < 0.25:
            return self.leaf_scalar(ivars)
        for _ in range(4):
            arr = lhs_arr if rng.random() < 0.35 else rng.choice(self.arrays)
            if arr is lhs_arr and rng.random() < 0.5:
                return lhs_sec
            r = self.section(arr, counts, strides if rng.random() < 0.85 else None)
            if r is not None:
                sec = r[0]
                # a full section may also be written as the bare array name
                if all(_h(d) == 'rng' and all(_is_none(x) for x in d[1:4]) for d in sec[2:]) and rng.random() < 0.4:
                    return fir.V(arr[0])
                return sec
        return self.leaf_scalar(ivars)

    def stmt_section(self, ivars):
        rng = self.rng
        arr = rng.choice(self.arrays)
        name, dims = arr
        if rng.random() < 0.15:       # whole array
            counts = [('n', 0) if e == 'n' else ('lit', e) for _, e in dims]
            strides = [1] * len(dims)
            lhs = fir.V(name)
            rhs = self.vec_expr(arr, lhs, counts, strides, 2, ivars)
            return [A('assign'), lhs, rhs]
        nr = min(len(dims), rng.choice((1, 1, 2, 2, 3)))
        chosen = sorted(rng.sample(range(len(dims)), nr))
        counts = []
        for j in chosen:
            lb, ext = dims[j]
            counts.append(('n', rng.choice((0, 0, -1))) if ext == 'n' else ('lit', rng.randint(max(1, min(2, ext)), ext)))
        ds, strides = [], []
        for j, (lb, ext) in enumerate(dims):
            if j in chosen:
                r = self.range_for(lb, ext, counts[chosen.index(j)], allow_open=rng.random() < 0.3)
                ds.append(r[0])
                strides.append(r[1])
            else:
                ds.append(fir.AT(fir.V(ivars[0]) if ivars and ext == 'n' and lb == 1 and rng.random() < 0.0 else self.fixed_index(lb, ext)))
        lhs = fir.SEC(name, *ds)
        rhs = self.vec_expr(arr, lhs, counts, strides, 2, ivars)
        return [A('assign'), lhs, rhs]

    def elem_expr(self, env, depth):
        """scalar expression over elements addressed by the active loop variables; env: var -> (lb, ext)"""
        rng = self.rng
        if depth > 0 and rng.random() < 0.6:
            op = rng.choice(('add', 'sub', 'mul2'))
            a = self.elem_expr(env, depth - 1)
            if op == 'mul2':
                return fir.BIN('mul', fir.I(2), a)
            return fir.BIN(op, a, self.elem_expr(env, depth - 1))
        if rng.random() < 0.3:
            return self.leaf_scalar(list(env))
        name, dims = rng.choice(self.arrays)
        subs = []
        for lb, ext in dims:
            cands = [v for v, sig in env.items() if sig == (lb, ext)]
            if cands and rng.random() < 0.8:
                subs.append(fir.V(rng.choice(cands)))
            else:
                subs.append(self.fixed_index(lb, ext))
        return fir.IDX(name, *subs)

    def stmt_nest(self):
        rng = self.rng
        name, dims = rng.choice(self.arrays)
        env, subs = {}, []
        for (lb, ext), v in zip(dims, self.loopvars):
            env[v] = (lb, ext)
            subs.append(fir.V(v))
        body = [[A('assign'), fir.IDX(name, *subs), self.elem_expr(env, 2)]]
        if self.vec and rng.random() < 0.35:
            body.insert(rng.randrange(2), self.stmt_section(list(env)))
        for (lb, ext), v in zip(dims, self.loopvars):      # first dimension innermost
            body = [[A('do'), A(v), fir.ilit(lb), self.hi_of(lb, ext), NONE, body]]
        return body[0]

    def program(self):
        rng = self.rng
        body = []
        for _ in range(rng.randint(2, 6)):
            r = rng.random()
            if self.vec and r < 0.62:
                body.append(self.stmt_section([]))
            elif r < 0.9:
                body.append(self.stmt_nest())
            else:
                body.append([A('assign'), fir.V('k'), fir.BIN('add', fir.V('k'), fir.I(rng.randint(1, 3)))])
        decls = []
        args = []
        if self.sym:
            decls.append([A('decl'), A('n'), A('int'), A('in'), [], NONE])
            args.append(A('n'))
        decls.append([A('decl'), A('k'), A('int'), A('inout'), [], NONE])
        args.append(A('k'))
        for name, dims in self.arrays:
            decls.append([A('decl'), A(name), A('int'), A('inout'), [[fir.ilit(lb), self.hi_of(lb, ext)] for lb, ext in dims], NONE])
            args.append(A(name))
        for v in self.loopvars:
            decls.append([A('decl'), A(v), A('int'), A('none'), [], NONE])
        return fir.normalize([A('program'), A('kernel'), [A('unit'), A('kernel'), args, decls, body]])


def gen_tmpl(rng, mode):
    for _ in range(20):
        p = _Tmpl(rng, mode).program()
        ins = fir.gen_inputs(rng, p, 3, max_extent=5)
        # n-1 element sections need n >= 2 now and then; zero-sized sections (n = 1) are legal too
        if all(fir.interp(p, i)[0] == 'ok' for i in ins):
            return p, ins
    return p, ins


FIR_CFG = {
    'resolve': dict(max_stmts=10, max_depth=2, n_callees=(0, 1), callee_stmts=5, overlap_prob=0.5,
                    weights={'assign_section': 40, 'assign_whole': 12, 'do': 14, 'assoc': 0, 'while': 1, 'select': 1, 'print': 2}),
    'index': dict(max_stmts=10, max_depth=2, n_callees=(0, 0), overlap_prob=0.3,
                  weights={'assign_section': 14, 'assign_whole': 5, 'assign_elem': 30, 'do': 20, 'assoc': 0, 'print': 0, 'call': 0}),
    'elem': dict(max_stmts=10, max_depth=2, n_callees=(0, 0),
                 weights={'assign_section': 0, 'assign_whole': 4, 'assign_elem': 34, 'do': 22, 'assoc': 0, 'print': 0, 'call': 0}),
}


def has_bounded_section(prog):
    """some section triplet has an explicit lower bound (shift_to_zero_indexing turns it into a Python-style half-open
    range, which has no Fortran reading: outside the scope of the shift0 oracle)"""
    hit = []

    def fe(e):
        if _h(e) == 'sec' and any(_h(d) == 'rng' and not _is_none(d[1]) for d in e[2:]):
            hit.append(1)
        return e
    fir.map_program(prog, fe)
    return bool(hit)


def gen_fir(rng, kind):
    for _ in range(40):
        p = fir.gen_program(rng, FIR_CFG[kind])
        if kind != 'elem' or not has_bounded_section(p):
            break
    return p, fir.gen_inputs(rng, p, 3, max_extent=5)


# ====================================================================== reductions on the right-hand side (text level)

def gen_tables():
    """names whose presence on the right-hand side stops resolution: `forbidden_ops` (read from the source with ast) and
    fparser's array reduction names, folded to lower case"""
    import ast
    import inspect
    from fparser.two import Fortran2003
    from loki.transformations.array_indexing import vector_notation
    names = []
    tree = ast.parse(inspect.getsource(vector_notation))
    for node in ast.walk(tree):
        if isinstance(node, ast.Assign) and any(isinstance(t, ast.Name) and t.id == 'forbidden_ops' for t in node.targets):
            names += [str(ast.literal_eval(e)).lower() for e in node.value.elts]
    names += [str(n).lower() for n in Fortran2003.Intrinsic_Name.array_reduction_names]
    names = sorted(set(names))
    items = ', '.join('"%s"' % n for n in names)
    return ('/-! generated by harness/props/c30.py from loki/transformations/array_indexing/vector_notation.py and fparser -/\n'
            'namespace LokiModel.Generated.C30\n\n'
            f'def reductionNames : List String := [{items}]\n\n'
            'end LokiModel.Generated.C30\n')


def _recase(rng, word):
    r = rng.random()
    if r < 0.3:
        return word.lower()
    if r < 0.55:
        return word.upper()
    if r < 0.75:
        return word.capitalize()
    return ''.join(c.upper() if rng.random() < 0.5 else c.lower() for c in word)


_RTEXT_HEAD = """subroutine k(n, m, a, b, c, d)
  implicit none
  integer, intent(in) :: n, m
  real, intent(inout) :: a(n), c(n, m)
  real, intent(in) :: b(n), d(n, m)
"""


def gen_rtext(rng):
    """(routine source, driver source with the placeholder routine names k_orig / k_tr, call names of the statement)"""
    rc = lambda w: _recase(rng, w)
    red = rng.choice(('maxval', 'minval', 'product', 'sum', 'maxval', 'minval'))
    R = rc(red)
    v = {x: (lambda x=x: rc(x)) for x in 'abcdnm'}
    a, b, c, d, n, m = (v[x] for x in 'abcdnm')
    kind = rng.randrange(9)
    if kind == 0:
        stmt, names = f'{a()}(1:{n()}) = {b()}(1:{n()}) / {R}({d()}(1:{n()}, 1:{m()}))', [R]
    elif kind == 1:
        cnt, re = rc('count'), rc('real')
        stmt, names = f'{a()}(1:{n()}) = {b()}(1:{n()}) + {re}({cnt}({d()}(1:{n()}, 1:{m()}) > 1.0))', [re, cnt]
    elif kind == 2:
        q, mg = rc(rng.choice(('any', 'all'))), rc('merge')
        stmt, names = f'{a()}(1:{n()}) = {mg}({b()}(1:{n()}), 0.25, {q}({d()}(1:{n()}, 1:{m()}) > 1.25))', [mg, q]
    elif kind == 3:
        stmt, names = f'{a()}(1:{n()}) = {b()}(1:{n()}) - {R}({b()}(1:{n()}))', [R]
    elif kind == 4:
        stmt, names = f'{a()}(:) = {b()}(:) * {R}({d()})', [R]
    elif kind == 5:
        stmt, names = f'{a()} = {b()} / {R}({d()}(:, 2))', [R]
    elif kind == 6:
        stmt, names = f'{c()}(1:{n()}, 1:{m()}) = {d()}(1:{n()}, 1:{m()}) / {R}({d()}(1:{n()}, 1:{m()}))', [R]
    elif kind == 7:
        stmt, names = f'{c()}(:, 1) = {d()}(:, 2) + {R}({d()}(:, :)) * {b()}(:)', [R]
    else:   # control: no reduction, the statement IS resolved
        mx = rc('max')
        stmt, names = f'{a()}(1:{n()}) = {mx}({b()}(1:{n()}), 1.0) + {d()}(1:{n()}, 2)', [mx]
    src = _RTEXT_HEAD + f'  {stmt}\nend subroutine k\n'
    nn, mm = rng.randint(2, 4), rng.randint(2, 3)
    q8 = lambda: '%s' % (rng.randint(4, 16) / 8.0)
    bl = ', '.join(q8() for _ in range(nn))
    dl = ', '.join(q8() for _ in range(nn * mm))
    drv = f"""program main
  implicit none
  integer, parameter :: n = {nn}, m = {mm}
  real :: a1(n), a2(n), c1(n, m), c2(n, m), b(n), d(n, m)
  b = (/ {bl} /)
  d = reshape((/ {dl} /), (/ n, m /))
  a1 = 0.5
  a2 = 0.5
  c1 = 0.75
  c2 = 0.75
  call k_orig(n, m, a1, b, c1, d)
  call k_tr(n, m, a2, b, c2, d)
  if (all(a1 == a2) .and. all(c1 == c2)) then
    write(*, '(A)') 'SAME'
  else
    write(*, '(A)') 'DIFF'
    write(*, *) a1
    write(*, *) a2
    write(*, *) c1
    write(*, *) c2
  end if
end program main
"""
    return src, drv, names


def _dec_rtext(req):
    if not (isinstance(req[3], str) and isinstance(req[4], str) and isinstance(req[5], list)):
        raise ValueError('malformed rtext request')
    src, drv = req[3], req[4]
    if 'end subroutine k' not in src or 'call k_tr' not in drv or 'end program main' not in drv or not src.startswith('subroutine k('):
        raise ValueError('malformed rtext request')
    return src, drv, [str(x) for x in req[5]]


_rtext_cache = {}


def rtext_transform(src):
    """(statement left unchanged?, fgen text of the transformed routine)"""
    if src in _rtext_cache:
        return _rtext_cache[src]
    from loki import Subroutine, fgen
    from loki.frontend import FP
    from loki.transformations.array_indexing import resolve_vector_notation
    r = Subroutine.from_source(src, frontend=FP)
    before = fgen(r.body)
    resolve_vector_notation(r)
    res = (fgen(r.body) == before, fgen(r))
    _rtext_cache[src] = res
    return res


def _rename_routine(text, new):
    import re
    return re.sub(r'(?i)\b(subroutine\s+)k\b', r'\g<1>' + new, text)


def _gf_build_run(text, workdir=None):
    import shutil
    import subprocess
    import tempfile
    d = tempfile.mkdtemp(prefix='c30_rt_', dir=workdir)
    try:
        with open(os.path.join(d, 'p.f90'), 'w') as fh:
            fh.write(text)
        p = subprocess.run([fir.GFORTRAN, '-O0', '-fcheck=bounds', '-ffree-line-length-none', '-w', '-o', 'p.x', 'p.f90'], cwd=d,
                           stdout=subprocess.PIPE, stderr=subprocess.STDOUT, text=True, timeout=300)
        if p.returncode != 0:
            msg = [l for l in p.stdout.splitlines() if 'Error' in l]
            return 'compile-error', (msg[0] if msg else p.stdout[-200:]).strip()
        q = subprocess.run([os.path.join(d, 'p.x')], cwd=d, stdout=subprocess.PIPE, stderr=subprocess.STDOUT, text=True, timeout=60)
        if q.returncode != 0:
            return 'run-error', q.stdout.strip().splitlines()[-1][:200] if q.stdout.strip() else 'rc=%d' % q.returncode
        return 'ok', q.stdout
    finally:
        shutil.rmtree(d, ignore_errors=True)


def oracle_rtext(src, drv, names):
    """original text vs Loki's fgen text of the resolved routine, both compiled by gfortran and run on the same data"""
    try:
        unchanged, ttext = rtext_transform(src)
    except Exception as e:
        return [Failure(f'rtext: resolve_vector_notation raised {type(e).__name__}: {str(e)[:120]}', None)]
    orig = _rename_routine(src, 'k_orig')
    kind, out = _gf_build_run(orig + '\n' + _rename_routine(ttext, 'k_tr') + '\n' + drv, os.environ.get('VERIF_TMP'))
    if kind == 'ok':
        if out.strip().splitlines()[:1] == ['SAME']:
            return []
        return [Failure('rtext: original and resolved routine compute different arrays: ' + ' | '.join(out.split('\n')[1:5])[:300]
                        + ' ; resolved text: ' + ' / '.join(l.strip() for l in ttext.splitlines()[6:-1])[:200], None)]
    # is the harness's own text at fault?
    kind0, out0 = _gf_build_run(orig + '\n' + _rename_routine(src, 'k_tr') + '\n' + drv, os.environ.get('VERIF_TMP'))
    if kind0 != 'ok':
        return [Failure(f'harness: the ORIGINAL text does not build/run ({kind0}: {out0})', None, error=True)]
    return [Failure(f'rtext: resolved routine rejected by gfortran / fails at run time ({kind}: {out}); resolved text: '
                    + ' / '.join(l.strip() for l in ttext.splitlines()[6:-1])[:200], None)]


# ====================================================================== the property

def _run_pair(op, prog, tprog, inputs):
    """[(original result, transformed result mapped back, stats)] by the Python FIR interpreter"""
    out = []
    for inp in inputs:
        st = {}
        r0 = fir.interp(prog, inp, stats=st)
        if r0[0] != 'ok':
            out.append((r0, None, st))
            continue
        p2, inp2, back = adapt(op, prog, tprog, inp)
        r1 = back(fir.interp(p2, inp2))
        out.append((r0, r1, st))
    return out


def _gf_items(op, prog, tprog, inputs):
    items = []
    for inp in inputs:
        p2, inp2, _ = adapt(op, prog, tprog, inp)
        items.append((prog, inp))
        items.append((p2, inp2))
    return items


class C30(Prop):
    id = 'C30'
    title = 'Array-notation resolution and index normalisation preserve behaviour'
    model_modules = ['LokiModel.C30.Model', 'LokiModel.C30.Codec', 'LokiModel.C30.Reduce']
    props_module = 'LokiModel.Props.C30'
    findings_module = 'LokiModel.Findings.C30'
    driver = 'Drivers/C30.lean'
    theorems = ['resolve_sound_partial', 'flatten_bijective', 'flatten_bijective_C', 'invert_indices', 'shift_to_zero',
                'normalize_shift', 'normalize_section', 'c_pipeline_index', 'offset_eq_flat', 'offset_isSome_iff', 'flatF_one_eq']
    design_ref = 'DESIGN.md 4.F C30'
    level = 'proof'
    level_text = ('Theorems (Lean kernel). FULL STRENGTH, every rank, all integers: flatten_bijective / flatten_bijective_C (the subscript '
                  'built by flatten_arrays.new_dims, order F and C, any start_index, lands in [s, s+size), is injective on the declared box and '
                  'onto), invert_indices (reversing dimension order is a bijection of the boxes), shift_to_zero, normalize_shift (i -> i-1 and '
                  'i -> i-lo+1 are bijections onto the 0-/1-based box), normalize_section (a section shifted with its stride kept has the same '
                  'trip count and the shifted elements: full strength since the fix: commits for KnownNormStride/KnownNormOpen), c_pipeline_index + offset_eq_flat + offset_isSome_iff (the composite '
                  'normalise/invert/shift/flatten(C,0) subscript is the column-major offset the FIR semantics itself uses). '
                  'PARTIAL: resolve_sound_partial — statement level, rank 1: for every state without ASSOCIATE names that fits the declarations and every '
                  'section assignment a(lo:hi:step) = rhs whose right-hand side is in the decidable class covE (does not read a or the loop '
                  'variable; sections only of other rank-1 arrays with the same stride expression and lower bound = lhs lower bound or integer literal; '
                  'lo/step scalar expressions), the DO loop the MODEL of ResolveVectorNotationTransformer emits (loop variable from loop_map or i_a_0, '
                  'offset arithmetic v - lo + lo\') finishes and agrees with the array assignment on output and on every variable but the loop '
                  'variable. Missing: ranks > 1, the identical-section case a(l:u) = f(a(l:u)), whole-array operands, lifting through enclosing statements '
                  '(needs the loop variable dead/not enclosing: class KnownLoopVarReuse). Everything else (all ranks, all 8 ops incl. both pipelines) is '
                  'covered by correspondence (model = real transformation, program for program) and by the execution oracle on the real output.')
    level_note = ('Model hand-written from vector_notation.py / array_indices.py; simplify is not modelled (index expressions compared as polynomials); '
                  'WHERE, derived-type bounds, vector subscripts, resolve_vector_dimension, LowerConstantArrayIndices not modelled; normalize_range_indexing '
                  'is invisible in FIR (a(1:n) and a(n) export alike). FIR semantics (Sem.lean) is the reference for Fortran; gfortran ties it in the thorough tier. '
                  'invert / shift0 / pipec change the storage convention on purpose: the oracle runs the transformed program with transposed inputs / '
                  'bounds shifted by -1 / 0-based flat declarations, which is exactly what the bijection theorems justify.')
    technique = ('Lean 4 theorems about a hand-written model of the transformations on mini-Fortran programs and about the FIR '
                 'semantics + correspondence of the model with the real transformations + execution oracle (Python FIR interpreter, gfortran)')
    rule = ('generated routines: template generator (2-4 integer arrays, rank 1-3, lower bounds 1/0/-2/2, literal or symbolic extents, '
            'section assignments with controlled counts, strides 1/2/-1/-2, overlap with the assigned array, whole-array and half-open forms, '
            'explicit loop nests that populate loop_map, sections inside loops) and the shared FIR generator biased to sections; 3 input sets each; '
            '8 ops; non-trivial = has an array assignment (resolving ops) ; distinct by program+op')
    trusted_base = ['harness/fir.py (printer, exporter Loki IR -> FIR, reference interpreter, gfortran runner)',
                    'lean/LokiModel/Fir/Sem.lean as the reference semantics of mini-Fortran', 'gfortran 12 (thorough tier)']
    assumptions = ['FIR subset of Fortran (no WHERE, derived types, allocatables, vector subscripts)',
                   'integer arithmetic exact (generated values stay far below 2^31)',
                   'resolve_sound_partial: state has no ASSOCIATE names in force and fits the declarations; loop variable is an integer scalar cell']
    extra_obligations = ['oracle: original vs really transformed program on generated input sets (interpreter; gfortran in the thorough tier)']

    def classes(self):
        return list(CLASS_ORDER)

    # ---------------------------------------------------------------- generation
    def gen(self, rng, tier):
        n = {'quick': 0.6, 'thorough': 6.0, 'search': 2.5}.get(tier, 0.6)
        plan = [  # (op, source, count at scale 1)
            ('resolve', 'tmpl-vec', 34), ('resolve', 'fir-resolve', 10),
            ('pipef', 'tmpl-vec', 8), ('pipec', 'tmpl-vec', 8), ('pipec', 'tmpl-elem', 4),
            ('normshape', 'tmpl-vec', 8), ('normshape', 'fir-index', 4),
            ('addexp', 'tmpl-vec', 4), ('remexp', 'tmpl-vec', 4),
            ('invert', 'tmpl-vec', 5), ('invert', 'fir-index', 3),
            ('shift0', 'tmpl-elem', 5), ('shift0', 'fir-elem', 3),
            # literal 0 as section bound / subscript on arrays with declared lower bound <= 0 (truthiness family)
            ('normshape', 'tmpl-zero', 5), ('resolve', 'tmpl-zero', 3), ('pipef', 'tmpl-zero', 2), ('pipec', 'tmpl-zero', 2),
        ]
        cases = []
        for op, source, cnt in plan:
            for k in range(max(1, round(cnt * n))):
                if source.startswith('tmpl'):
                    p, ins = gen_tmpl(rng, source.split('-')[1])
                else:
                    p, ins = gen_fir(rng, source.split('-')[1])
                gf = tier == 'thorough' and (k % 2 == 0)
                req = [A('c30'), A(op), A('gf' if gf else 'nogf'), p, ins]
                kinds = fir.stmt_kinds(p)
                nontrivial = (kinds['assign_section'] + kinds['assign_var'] > 0) if op in RESOLVING + ('addexp', 'remexp') else True
                cases.append(Case(req, stream=f'{op}/{source}', nontrivial=nontrivial, key=dumps(p) + op))
        # array reductions (assorted letter case) on the right-hand side of section assignments: text level, gfortran
        for k in range({'quick': 4, 'thorough': 24, 'search': 12}.get(tier, 4)):
            src, drv, names = gen_rtext(rng)
            cases.append(Case([A('c30'), A('rtext'), A('gf'), src, drv, list(names)], stream='rtext', key=src))
        if tier == 'thorough':
            self.prefetch_gfortran(cases)
        return cases

    def prefetch_gfortran(self, cases):
        items, index = [], []
        for c in cases:
            if str(c.req[1]) == 'rtext':
                continue
            op, gf, prog, inputs = _dec(c.req)
            if not gf:
                continue
            t = transformed(op, prog)
            if t[0] != 'ok' or wf_do(t[1]):
                continue
            try:
                its = _gf_items(op, prog, t[1], inputs)
            except Exception:
                continue
            index.append((c.line, len(items), len(its)))
            items += its
        if not items:
            return
        res = fir.run_gfortran(items, workdir=os.environ.get('VERIF_TMP'))
        for line, start, k in index:
            _gf_cache[line] = res[start:start + k]

    # ---------------------------------------------------------------- real code (correspondence side)
    def tables(self):
        return {'LokiModel/Generated/C30Tables.lean': gen_tables()}

    def impl(self, req):
        if _h(req) == 'c30' and len(req) == 6 and str(req[1]) == 'rtext':
            src, drv, names = _dec_rtext(req)
            return [A('ok'), A('unchanged' if rtext_transform(src)[0] else 'resolved')]
        op, gf, prog, inputs = _dec(req)
        t = transformed(op, prog)
        if t[0] != 'ok':
            return [A('error')]        # the model says only THAT the real transformation fails (raises / emits non-Fortran)
        return [A('ok'), canon_prog(t[1])]

    def canon_model(self, resp):
        if _h(resp) == 'ok' and isinstance(resp[1], list):
            return [A('ok'), canon_prog(resp[1])]
        return resp

    # ---------------------------------------------------------------- direct oracle
    def oracle(self, req):
        if _h(req) == 'c30' and len(req) == 6 and str(req[1]) == 'rtext':
            return oracle_rtext(*_dec_rtext(req))
        op, gf, prog, inputs = _dec(req)
        if op == 'shift0' and has_bounded_section(prog):
            return []       # out of scope: start-1:stop is the Python range convention, not Fortran
        cls = classify(op, prog)
        t = transformed(op, prog)
        if t[0] != 'ok':
            if t[1].startswith('frontend'):
                return [Failure(f'harness: generated source does not parse ({t[1]})', None, error=True)]
            if t[1].startswith('export'):
                # strictness for the shrinker: the UNTRANSFORMED text must export, else the request itself is outside FIR
                try:
                    fir.export_unit(fir.parse_fortran(fir.emit_fortran(prog, wrap_program=False)), main=fir.prog_main(prog))
                except Exception:
                    raise ValueError('request outside FIR: the original program does not round-trip')
            return [Failure(f'{op}: transformation failed or produced code outside Fortran/FIR: {t[1]}', cls)]
        tprog = t[1]
        bad = wf_do(tprog)
        if bad:
            return [Failure(f'{op}: transformed code is not valid Fortran: {bad}', cls)]
        fails = []
        runs = _run_pair(op, prog, tprog, inputs)
        for k, (r0, r1, st) in enumerate(runs):
            if r1 is None:
                continue
            d = fir.compare_results(r0, r1)
            if d:
                fails.append(Failure(f'{op}: original and transformed program differ on input set {k}: {d}', cls))
                break
        if gf and not fails:
            line = dumps(req)
            res = _gf_cache.get(line)
            if res is None:
                res = fir.run_gfortran(_gf_items(op, prog, tprog, inputs), workdir=os.environ.get('VERIF_TMP'))
            for k, (r0, r1, st) in enumerate(runs):
                if r1 is None or not fir.exact_in_hardware(st):
                    continue
                g0, g1 = res[2 * k], res[2 * k + 1]
                _, _, back = adapt(op, prog, tprog, inputs[k])
                g1 = back(g1) if g1[0] == 'ok' else g1
                d0 = fir.compare_results(r0, g0)
                if d0:
                    fails.append(Failure(f'harness: interpreter and gfortran differ on the ORIGINAL program, input set {k}: {d0}',
                                         None, error=True))
                    break
                d1 = fir.compare_results(r0, g1)
                if d1:
                    fails.append(Failure(f'{op}: gfortran run of the transformed program differs on input set {k}: {d1}', cls))
                    break
        return fails


PROP = C30()
READY = True
