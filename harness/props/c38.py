"""C38 — temporary hoisting and stack/pool allocation preserve behaviour.

* `size` stream (correspondence): abstract call trees with symbolic temporary sizes -> real Fortran call tree -> the real
  `FtrPtrStackTransformation` through the real Scheduler -> the stack size expression the transformation computes for the
  root kernel (`_determine_stack_size`), evaluated under a valuation, against the Lean model `LokiModel.C38.stackSize`.
* `tree` stream (direct oracle): IFS-style driver/kernel call trees (generator of C37) with hoisting
  (explicit-shape and allocatable variants) and the stack allocators that build with gfortran (FtrPtr, DirectIdx, pool
  allocator with Cray pointers); original vs transformed tree by the Python FIR interpreter where the result is inside FIR
  (hoisting) and by gfortran with bounds checking (Loki's own fgen text of the transformed units in a module).
"""
import re
import random as _random
from fractions import Fraction

from ..core import Prop, Case, Failure, REPO
from ..sexpr import A, dumps, loads
from .. import fir
from . import c37

h = c37.h

VARIANTS = ('hoist', 'hoist-alloc', 'ftrptr', 'directidx', 'pool', 'hoist-kw')
HOIST_VARIANTS = ('hoist', 'hoist-alloc', 'hoist-kw')

K_CONTIG = 'stack-contiguous-explicit-shape'
K_FTRPTR = 'ftrptr-pointer-section-one-past-end'
K_DIRECT = 'directidx-index-one-past-end'
K_BASE = 'directidx-base-index-dropped'


def make_transformations(variant, dc):
    from loki.transformations import temporaries as tp
    hor, ver, blk = c37.dims_of(dc)
    if variant == 'hoist':
        return [tp.HoistTemporaryArraysAnalysis(dim_vars=(dc['nz'],)), tp.HoistVariablesTransformation()]
    if variant == 'hoist-kw':
        return [tp.HoistTemporaryArraysAnalysis(), tp.HoistVariablesTransformation(as_kwarguments=True)]
    if variant == 'hoist-alloc':
        return [tp.HoistTemporaryArraysAnalysis(), tp.HoistTemporaryArraysTransformationAllocatable()]
    if variant == 'ftrptr':
        return [tp.FtrPtrStackTransformation(block_dim=blk, horizontal=hor, int_kind='4')]
    if variant == 'directidx':
        return [tp.DirectIdxStackTransformation(block_dim=blk, horizontal=hor, int_kind='4')]
    if variant == 'pool':
        return [tp.TemporariesPoolAllocatorTransformation(block_dim=blk, horizontal=hor)]
    raise ValueError(variant)


# ------------------------------------------------------------------------------------------------ abstract size trees

def se_eval(e, rho):
    k = h(e)
    if k == 'lit':
        return int(str(e[1]))
    if k == 'v':
        return rho.get(str(e[1]), 0)
    a, b = se_eval(e[1], rho), se_eval(e[2], rho)
    return a + b if k == 'add' else a * b if k == 'mul' else max(a, b)


def se_fortran(e):
    k = h(e)
    if k == 'lit':
        return str(e[1])
    if k == 'v':
        return str(e[1])
    if k == 'add':
        return f'{se_fortran(e[1])} + {se_fortran(e[2])}'
    if k == 'mul':
        return f'({se_fortran(e[1])})*({se_fortran(e[2])})'
    raise ValueError(k)


def gen_size_tree(rng, depth=0, counter=None):
    """(tree, params, shapes): node = (node (size…) (((dummy actual)…) subtree)…); every node has its own dummies"""
    counter = counter if counter is not None else [0]
    counter[0] += 1
    k = counter[0]
    params = [f'n{k}a', f'n{k}b'][:rng.randint(1, 2)]
    shapes = []
    for t in range(rng.randint(1, 3)):
        dims = []
        for d in range(rng.randint(1, 3)):
            dims.append([A('v'), A(rng.choice(params))] if rng.random() < 0.7 or not dims and not any(h(x) == 'v' for x in dims)
                        else [A('lit'), rng.randint(1, 3)])
        if not any(h(x) == 'v' for x in dims):
            dims[0] = [A('v'), A(params[0])]
        shapes.append(dims)
    calls = []
    if depth < 2:
        for c in range(rng.randint(0, 2 if depth == 0 else 1)):
            sub, sparams, _ = gen_size_tree(rng, depth + 1, counter)
            amap = []
            for sp in sparams:
                r = rng.random()
                if r < 0.5:
                    act = [A('v'), A(rng.choice(params))]
                elif r < 0.75:
                    act = [A('lit'), rng.randint(1, 4)]
                else:
                    act = [A('add'), [A('v'), A(rng.choice(params))], [A('lit'), rng.randint(1, 2)]]
                amap.append([A(sp), act])
            calls.append([amap, sub])
            # the SAME callee called again with other (mostly larger) size arguments: one entry per CALL STATEMENT
            for rep in range(rng.choice((0, 1, 1, 2)) if depth else rng.choice((1, 1, 2))):
                amap2 = []
                for (sp, act) in amap:
                    r = rng.random()
                    if r < 0.75:
                        act2 = [A('add'), act, [A('lit'), rng.randint(1, 3)]] if h(act) != 'add' else \
                            [A('add'), act[1], [A('lit'), int(str(act[2][1])) + rng.randint(1, 3)]]
                    elif r < 0.85:
                        act2 = [A('lit'), rng.randint(1, 6)]
                    else:
                        act2 = act
                    amap2.append([sp, act2])
                calls.append([amap2, sub])

    def prod(ds):
        e = ds[0]
        for d in ds[1:]:
            e = [A('mul'), e, d]
        return e
    node = [A('node'), [prod(s) for s in shapes], calls, [A(p) for p in params], shapes, k]
    return node, params, shapes


def strip_tree(node):
    """wire form for the Lean driver: (node (sizes…) (((x e)…) tree)…)"""
    return [A('node'), node[1], [[m, strip_tree(t)] for m, t in node[2]]]


def size_tree_fortran(node):
    """units of the real call tree (driver + one kernel per node)"""
    units = {}

    def kernel(n):
        k = int(str(n[5]))
        params = [str(p) for p in n[3]]
        lines = [f'subroutine kern{k}(start, end, nlon, ' + ', '.join(params) + ', q)', '  implicit none',
                 '  integer, intent(in) :: start', '  integer, intent(in) :: end', '  integer, intent(in) :: nlon']
        lines += [f'  integer, intent(in) :: {p}' for p in params]
        lines.append('  real, intent(inout) :: q(nlon)')
        for t, dims in enumerate(n[4]):
            lines.append(f'  real :: zt{t + 1}(' + ', '.join(se_fortran(d) for d in dims) + ')')
        lines.append('  integer :: jl')
        for t, dims in enumerate(n[4]):
            lines.append(f'  zt{t + 1}(' + ', '.join('1' for _ in dims) + ') = 1.0')
        lines += ['  do jl = start, end', '    q(jl) = q(jl) + 1.0', '  end do']
        for m, sub in n[2]:
            sk = int(str(sub[5]))
            lines.append(f'  call kern{sk}(start, end, nlon, ' + ', '.join(se_fortran(a[1]) for a in m) + ', q)')
            kernel(sub)
        lines.append(f'end subroutine kern{k}')
        units[f'kern{k}'] = '\n'.join(lines) + '\n'
    kernel(node)
    params = [str(p) for p in node[3]]
    k = int(str(node[5]))
    drv = ['subroutine driver(nlon, nb, ' + ', '.join(params) + ', q)', '  implicit none', '  integer, intent(in) :: nlon',
           '  integer, intent(in) :: nb'] + [f'  integer, intent(in) :: {p}' for p in params] + \
          ['  real, intent(inout) :: q(nlon, nb)', '  integer :: b', '  integer :: start', '  integer :: end', '  start = 1',
           '  end = nlon', '  do b = 1, nb', f'    call kern{k}(start, end, nlon, ' + ', '.join(params) + ', q(:, b))', '  end do',
           'end subroutine driver']
    units['driver'] = '\n'.join(drv) + '\n'
    return units


def loki_eval(e, rho):
    from loki.expression import symbols as sym
    import pymbolic.primitives as pmbl
    if isinstance(e, int):
        return e
    if isinstance(e, sym.IntLiteral):
        return int(e.value)
    if isinstance(e, (sym.Scalar, sym.DeferredTypeSymbol)):
        return rho[str(e.name).lower()]
    if isinstance(e, pmbl.Sum):
        return sum(loki_eval(c, rho) for c in e.children)
    if isinstance(e, pmbl.Product):
        r = 1
        for c in e.children:
            r *= loki_eval(c, rho)
        return r
    if isinstance(e, sym.InlineCall) and str(e.function).upper() == 'MAX':
        return max(loki_eval(c, rho) for c in e.parameters)
    if isinstance(e, sym.InlineCall) and str(e.function).upper() == 'ISHFT':
        x, k = loki_eval(e.parameters[0], rho), loki_eval(e.parameters[1], rho)
        return x << k if k >= 0 else x >> (-k)
    if isinstance(e, sym.InlineCall) and str(e.function).upper() == 'C_SIZEOF':
        return 8          # default REAL with -fdefault-real-8 (GFORTRAN_FLAGS): one 8-byte stack word per element
    if isinstance(e, pmbl.Quotient):
        return loki_eval(e.numerator, rho) // loki_eval(e.denominator, rho)
    raise ValueError(f'cannot evaluate {type(e).__name__} {e}')


_size_cache = {}
_text_cache = {}


def exec_size_tree(node, rho, nlon=3, nb=2):
    """execution oracle for the pool allocator on a size tree: original vs transformed program (gfortran, bounds checked,
    the kernels' `IF (YLSTACK_L > YLSTACK_U) STOP` active): None or a description of the difference"""
    import shutil
    import subprocess
    import tempfile
    from pathlib import Path
    real_stack_size(node, rho, 'pool')
    ttext = _text_cache.get(dumps(node))
    if ttext is None:
        _size_cache.clear()
        real_stack_size(node, rho, 'pool')
        ttext = _text_cache[dumps(node)]
    units = size_tree_fortran(node)
    params = [str(p) for p in node[3]]
    main = ['program c38_main', '  %s', '  implicit none', f'  real :: q({nlon}, {nb})', '  q = 0.0',
            f'  call driver({nlon}, {nb}, ' + ', '.join(str(rho[p]) for p in params) + ', q)',
            "  write(*, '(F12.3)') q", "  write(*, '(A)') 'DONE'", 'end program c38_main', '']
    srcs = {'orig': '\n'.join(units.values()) + '\n'.join(main) % '',
            'trafo': 'module c38_units\ncontains\n' + ttext + '\nend module c38_units\n' + '\n'.join(main) % 'use c38_units'}
    d = Path(tempfile.mkdtemp(prefix='c38x_'))
    outs = {}
    try:
        for k, src in srcs.items():
            (d / f'{k}.F90').write_text(src)
            p = subprocess.run([fir.GFORTRAN] + fir.GFORTRAN_FLAGS + ['-fcray-pointer', '-o', f'{k}.x', f'{k}.F90'], cwd=d,
                               stdout=subprocess.PIPE, stderr=subprocess.STDOUT, text=True)
            if p.returncode != 0:
                msg = [l for l in p.stdout.splitlines() if 'Error' in l]
                return f'{k}: does not compile: {(msg[0] if msg else p.stdout[-200:]).strip()}'
            q = subprocess.run([f'./{k}.x'], cwd=d, stdout=subprocess.PIPE, stderr=subprocess.PIPE, text=True, timeout=60)
            outs[k] = q.stdout.split()
        if outs['orig'][-1:] != ['DONE']:
            return 'original program did not finish'
        if outs['orig'] != outs['trafo']:
            return (f"transformed program prints {len(outs['trafo'])} values, finished={outs['trafo'][-1:] == ['DONE']}; "
                    f"original prints {len(outs['orig'])}")
        return None
    finally:
        shutil.rmtree(d, ignore_errors=True)


def real_stack_size(node, rho, variant='ftrptr'):
    key = (dumps(node), variant, tuple(sorted(rho.items())))
    if key not in _size_cache:
        if len(_size_cache) > 16:
            _size_cache.clear()
        _size_cache[key] = _real_stack_size(node, rho, variant)
    return _size_cache[key]


def _real_stack_size(node, rho, variant='ftrptr'):
    """the REAL stack size of the root kernel evaluated under rho: `ftrptr` = elements of the default real stack
    (stack_allocator._determine_stack_size), `pool` = 8-byte words of the pool (pool_allocator._determine_stack_size)"""
    import shutil
    import tempfile
    from pathlib import Path
    from loki.batch import Scheduler, SchedulerConfig
    from loki.frontend import FP
    from loki import BasicType
    from loki.transformations.temporaries import FtrPtrStackTransformation
    from loki.logging import set_log_level, log_levels
    set_log_level(log_levels['ERROR'])
    units = size_tree_fortran(node)
    d = Path(tempfile.mkdtemp(prefix='c38_'))
    try:
        for name, text in units.items():
            (d / f'{name}.F90').write_text(text)
        config = {'default': {'mode': 'idem', 'role': 'kernel', 'expand': True, 'strict': True},
                  'routines': {'driver': {'role': 'driver'}}}
        sched = Scheduler(paths=[d], config=SchedulerConfig.from_dict(config), frontend=FP, xmods=[d], seed_routines=['driver'])
        hor, ver, blk = c37.dims_of(c37.DIMCFGS[0])
        k = int(str(node[5]))
        if variant == 'pool':
            from loki import fgen
            from loki.transformations.temporaries import TemporariesPoolAllocatorTransformation
            t = TemporariesPoolAllocatorTransformation(block_dim=blk, horizontal=hor)
            sched.process(t)
            _text_cache[dumps(node)] = '\n\n'.join(fgen(sched[f'#{name}'].ir) for name in units) + '\n'
            return loki_eval(sched[f'#kern{k}'].trafo_data[t._key].get('stack_size', 0), rho)
        t = FtrPtrStackTransformation(block_dim=blk, horizontal=hor, int_kind='4')
        sched.process(t)
        sd = sched[f'#kern{k}'].trafo_data[t._key].get('stack_dict', {})
        e = sd.get(BasicType.REAL, {}).get(None, 0)
        return loki_eval(e, rho)
    finally:
        shutil.rmtree(d, ignore_errors=True)


# ------------------------------------------------------------------------------------------------ the oracle on call trees

_cache = {}


def _transformed(req):
    key = dumps(req[:4])
    if key not in _cache:
        if len(_cache) > 8:
            _cache.clear()
        variant, dci, prog = str(req[1]), int(str(req[2])), req[3]
        try:
            routines, sched = c37.apply_scheduler(prog, lambda: make_transformations(variant, c37.DIMCFGS[dci]))
            _cache[key] = ('ok', routines)
        except Exception as e:      # pylint: disable=broad-except
            _cache[key] = ('raise', f'{type(e).__name__}: {str(e)[:160]}')
    return _cache[key]


_STACKREF = re.compile(r'P_STACK\(([^()]*(?:\([^()]*\)[^()]*)*)\)')


def baseless_stack_reference(text):
    """a reference `P_STACK(<subscript>)` in a DirectIdx kernel whose subscript does not mention the temporary's base index JD_…
    (other than the declaration, `P_STACK(:)` and the remainder passed on to callees)"""
    for m in _STACKREF.finditer(text):
        sub = m.group(1)
        if 'JD_' in sub or sub.strip() in (':', 'K_P_STACK_SIZE') or 'J_P_STACK_USED' in sub:
            continue
        return m.group(0)
    return None


_CONTIG = re.compile(r'TARGET, CONTIGUOUS, INTENT\(INOUT\) :: \w+\(\w+\)')


def duplicate_names(routines):
    """a name that occurs twice among the dummies of a routine, among its declared symbols, or among the keyword
    arguments of one call (each makes the unit invalid Fortran)"""
    from loki.ir import FindNodes, CallStatement, VariableDeclaration
    out = []

    def dups(xs):
        seen, d = set(), []
        for x in xs:
            x = str(x).lower()
            if x in seen and x not in d:
                d.append(x)
            seen.add(x)
        return d
    for r in routines.values():
        d = dups(r.argnames)
        if d:
            out.append(f'{r.name}: duplicated dummy arguments {d}')
        d = dups(s.name for decl in FindNodes(VariableDeclaration).visit(r.spec) for s in decl.symbols)
        if d:
            out.append(f'{r.name}: duplicated declarations {d}')
        for c in FindNodes(CallStatement).visit(r.body):
            d = dups(k for k, _ in (c.kwarguments or ()))
            if d:
                out.append(f'{r.name}: call {c.name} passes keyword(s) {d} twice')
    return out


def check_variant(prog, ins, routines, variant, gf):
    out = []
    dd = duplicate_names(routines)
    if dd:
        return [('transformed tree is not valid Fortran: ' + '; '.join(dd[:3]), None)]
    mm = c37.call_mismatches(routines)
    if mm:
        return [('call site does not match the callee: ' + '; '.join(mm[:2]), None)]
    if variant in ('hoist', 'hoist-kw'):
        return c37.check_tree(prog, ins, routines, variant, gf)
    text = c37.fgen_tree(routines)
    if variant in ('ftrptr', 'directidx') and _CONTIG.search(text):
        out.append(('generated kernel declares an explicit-shape dummy CONTIGUOUS (F2008 C530; gfortran: "has the CONTIGUOUS '
                    'attribute but is not an array pointer or an assumed-shape or assumed-rank array")', K_CONTIG))
        text = text.replace('TARGET, CONTIGUOUS,', 'TARGET,')
    if not gf:
        return out
    r0 = fir.run_gfortran([(prog, i) for i in ins])
    flags = ('-fcray-pointer',)
    r1 = c37.run_text_gfortran(prog, [(text, i) for i in ins], flags=flags, module=True)
    rerun = False
    for a, b in zip(r0, r1):
        if a[0] != 'ok':
            out.append((f'gfortran: original program failed: {a}', None))
            return out
        d = fir.compare_results(a, b, undef_wild=False)
        if d:
            if b[0] == 'error' and variant in ('ftrptr', 'directidx'):
                rerun = True
            else:
                ref = baseless_stack_reference(text) if variant == 'directidx' else None
                if ref:
                    out.append((f'gfortran: original vs transformed differ ({ref} lacks the base index of its temporary): {d[:200]}', K_BASE))
                else:
                    out.append((f'gfortran: original vs transformed differ: {d}', None))
                return out
    if rerun:
        # the run stopped in a bounds check: classify, then compare the results without bounds checking
        cls = K_FTRPTR if variant == 'ftrptr' else K_DIRECT
        out.append((f'gfortran -fcheck=bounds: the transformed tree references the stack one element past its end ({variant})', cls))
        r2 = c37.run_text_gfortran(prog, [(text, i) for i in ins], flags=flags, module=True, nobounds=True)
        for a, b in zip(r0, r2):
            d = fir.compare_results(a, b, undef_wild=False)
            if d:
                ref = baseless_stack_reference(text) if variant == 'directidx' else None
                if ref:
                    out.append((f'gfortran (no bounds check): original vs transformed differ ({ref} lacks the base index of its temporary): {d[:200]}', K_BASE))
                else:
                    out.append((f'gfortran (no bounds check): original vs transformed differ: {d}', None))
                break
    return out


class C38(Prop):
    id = 'C38'
    title = 'Temporary hoisting and stack/pool allocation preserve behaviour'
    model_modules = ['LokiModel.C38.Model']
    props_module = 'LokiModel.Props.C38'
    findings_module = 'LokiModel.Findings.C38'
    driver = 'Drivers/C38.lean'
    theorems = ['stack_no_overlap_and_fits', 'intervals_fit', 'intervals_disjoint', 'eval_subst', 'stackSize_eq_peak',
                'stack_size_covers_every_path', 'stack_size_is_peak']
    design_ref = 'DESIGN.md 4.F C38'
    level = 'proof'
    level_text = ('Proved at full strength (Lean 4, all lists of sizes / all call trees / all valuations): stack_no_overlap_and_fits '
                  '(pointer-bump allocation gives pairwise disjoint intervals inside [base, base+total)), eval_subst (substitution of callee '
                  'dummies through the argument map), stackSize_eq_peak and stack_size_covers_every_path (the size computed by '
                  '_determine_stack_size, local sum + MAX over successors, evaluates to the peak simultaneous use and bounds the use at '
                  'every point of every call path). Correspondence: the size expression the REAL FtrPtrStackTransformation computes for '
                  'generated call trees, evaluated, equals the model. NOT proved: that the generated index arithmetic of the allocators '
                  'realises this layout (it does not: two off-by-one findings), hoisting, pool allocator: direct oracle only '
                  '(original vs transformed tree, interpreter and gfortran with bounds checking).')
    level_note = ('The model is an abstraction (sizes in elements of one type/kind; per (dtype, kind) stacks are independent copies of it). '
                  'Trusted: gfortran run-time bounds checking as the detector of out-of-stack references; FIR tool box.')
    technique = 'Lean 4 arithmetic theorems about an abstract stack model + correspondence of the computed size + direct oracle via the real Scheduler and gfortran'
    rule = ('size stream: random abstract call trees (depth <= 3, 0-3 temporaries of rank 1-3 per routine, argument maps with variables, '
            'literals, sums) and random valuations; tree stream: IFS-style call trees of C37 with 1-4 temporaries per kernel, one '
            'allocator/hoisting variant per case; strengthening round: the same callee called several times with increasing size '
            'arguments (one model entry per CALL STATEMENT), size streams for FtrPtr and for the pool allocator (ISTSZ words), execution '
            'of the pool variant, diamond call trees kern1 -> {kern2, kern3} -> kern4 for hoist / hoist-kw / hoist-alloc with a '
            'duplicate-name check; distinct = distinct request')
    trusted_base = ['harness/fir.py', 'gfortran 12.2 -fcheck=bounds']
    assumptions = ['raw stack allocator (needs kind parameters of the host code) and the ecstack variant are not exercised']
    extra_obligations = ['stack size correspondence']

    def classes(self):
        return [K_CONTIG, K_FTRPTR, K_DIRECT, K_BASE]

    def gen(self, rng, tier):
        n_size, n_tree, gf = {'quick': (6, 6, 1), 'thorough': (60, 60, 1), 'search': (20, 20, 1)}.get(tier, (8, 8, 1))
        for k in range(n_size):
            node, params, _ = gen_size_tree(rng)
            vals = [[A(p), rng.randint(1, 5)] for p in params]
            sv = ('ftrptr', 'pool')[k % 2]
            ex = 1 if (sv == 'pool' and (tier != 'quick' or k == 1)) else 0      # execution of the pool variant (one case in quick)
            yield Case([A('size'), strip_tree(node), vals, node, A(sv), ex], stream='size-' + sv)
        for k in range(n_tree):
            v = VARIANTS[k % len(VARIANTS)] if k < 2 * len(VARIANTS) else rng.choice(VARIANTS)
            g = dict(n_kernels=(1, 3), temps=(1, 4))
            if v in HOIST_VARIANTS and (k < len(VARIANTS) or rng.random() < 0.6):
                g['shape'] = 'diamond'      # kern1 -> {kern2, kern3} -> kern4: a shared nested callee with temporaries
            dci, prog, ins = c37.gen_tree(rng, g, inputs=2 if tier == 'quick' else 3)
            g_ = 0 if (tier == 'quick' and v in ('hoist', 'hoist-kw')) else gf
            yield Case([A('tree'), A(v), dci, prog, ins, g_], stream=v)

    def impl(self, req):
        kind = str(req[0])
        if kind == 'tree':
            return [A('result'), A('oracle-only')]
        if kind == 'size':
            node = req[3]
            rho = {str(x): int(str(n)) for x, n in req[2]}
            return [A('result'), real_stack_size(node, rho, str(req[4]) if len(req) > 4 else 'ftrptr')]
        if kind == 'layout':
            base, sizes = int(str(req[1])), [int(str(x)) for x in req[2]]
            out, p = [], base
            for s in sizes:
                out.append([p, s])
                p += s
            return [A('result'), out, sum(sizes)]
        raise ValueError('bad request')

    def oracle(self, req):
        kind = str(req[0])
        if kind == 'size':
            # independent statement: the real size is at least the use on every call path (computed here by plain recursion)
            node = req[3]
            rho = {str(x): int(str(n)) for x, n in req[2]}
            real = real_stack_size(node, rho, str(req[4]) if len(req) > 4 else 'ftrptr')

            def paths(n, rho, above):
                here = above + sum(se_eval(s, rho) for s in n[1])
                res = [here]
                for m, sub in n[2]:
                    rho2 = dict(rho)
                    rho2.update({str(x): se_eval(a, rho) for x, a in m})
                    res += paths(sub, rho2, here)
                return res
            need = max(paths(node, rho, 0))
            if real < need:
                return [Failure(f'computed stack size {real} < {need} cells used on some call path', None)]
            if len(req) > 5 and int(str(req[5])) and len(req) > 4 and str(req[4]) == 'pool':
                d = exec_size_tree(node, rho)
                if d:
                    return [Failure(f'pool allocator, execution: {d}', None)]
            if real > need:
                return [Failure(f'computed stack size {real} > peak use {need} (over-allocation)', None)]
            return []
        if kind == 'tree':
            variant, dci, prog, ins = str(req[1]), int(str(req[2])), req[3], req[4]
            gf = int(str(req[5]))
            if len(req) != 6 or h(prog) != 'program':
                raise ValueError('malformed request')
            ps = c37.seq_assoc(prog)
            for i in ins:
                if c37.interp(ps, i)[0] != 'ok':
                    raise ValueError('the original call tree does not run on its inputs (malformed request)')
            st, val = _transformed(req)
            if st == 'raise':
                return [Failure(f'{variant} raised {val}', None)]
            return [Failure(w, c) for w, c in check_variant(prog, ins, val, variant, gf)]
        return []

    def shrink_candidates(self, req):
        if str(req[0]) != 'tree':
            return
        yield from c37.PROP.shrink_candidates(req)


PROP = C38()
READY = True
