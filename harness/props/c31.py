"""C31 — loop transformations (unroll, fusion, fission, interchange, blocking) preserve behaviour where they apply."""
import re
import random as _random

from ..core import Prop, Case, Failure, REPO
from ..sexpr import A, dumps, loads
from .. import fir

UNROLL = 'loki loop-unroll'


def h(x):
    return str(x[0]) if isinstance(x, list) and x else None


def is_pragma(s):
    return h(s) == 'nop' and str(s[1]) == 'pragma'


def is_comment(s):
    return h(s) == 'nop' and str(s[1]) == 'comment'


def sub_lists(s):
    """the statement lists nested in statement s (wire form)"""
    k = h(s)
    if k == 'do':
        return [s[5]]
    if k == 'while':
        return [s[2]]
    if k == 'if':
        return [s[2], s[3]]
    if k == 'select':
        return [c[1] for c in s[2]] + [s[3]]
    if k == 'assoc':
        return [s[2]]
    return []


def strip_comments(prog):
    return fir.canon(fir.map_program(prog, fs=lambda ss: [s for s in ss if not is_comment(s)]))


def _norm_m1(e):
    """documented normalisation of the correspondence (expressions, both sides): the exporter reads a product whose first
    factor is the literal -1 as a negation (Loki's `Product((-1, x))` convention) and such a product as a non-first term of a
    sum as a subtraction; substituting the literal -1 for a loop variable produces exactly these shapes.
    R1 (-1)*x -> -x, R2 (-x)*y -> -(x*y), R3 a + (-x) -> a - x (all exact identities of the FIR value semantics)."""
    if h(e) == 'bin' and str(e[1]) == 'mul' and h(e[2]) == 'neg':
        if dumps(e[2][1]) == '(i 1)':
            return [A('neg'), e[3]]
        return [A('neg'), [A('bin'), A('mul'), e[2][1], e[3]]]
    if h(e) == 'bin' and str(e[1]) == 'add' and h(e[3]) == 'neg':
        return [A('bin'), A('sub'), e[2], e[3][1]]
    return e


def norm_prog(prog):
    return fir.canon(fir.map_program(fir.canon(prog), fe=_norm_m1,
                                     fs=lambda ss: [s for s in ss if not is_comment(s)]))


def units(prog):
    return prog[2:]


# ---------------------------------------------------------------- syntactic predicates (mirrors of Lean `Known…` / `mentions…`)

def ex_mentions(e, x):
    if not isinstance(e, list):
        return False
    if h(e) == 'v':
        return str(e[1]) == x
    return any(ex_mentions(c, x) for c in e[1:])


def stmt_exprs(s):
    k = h(s)
    if k == 'assign':
        return [s[1], s[2]]
    if k == 'do':
        return [s[2], s[3], s[4]]
    if k in ('while', 'if', 'select'):
        return [s[1]]
    if k == 'assoc':
        return [b[1] for b in s[1]]
    if k == 'callsub':
        return list(s[2:])
    if k == 'print':
        return list(s[1:])
    return []


def mentions_free(stmts, x):
    """x occurs in stmts outside the bodies of `do x` loops (Lean: mentionsFree)"""
    for s in stmts:
        if any(ex_mentions(e, x) for e in stmt_exprs(s)):
            return True
        if h(s) == 'do' and str(s[1]) == x:
            continue
        if any(mentions_free(l, x) for l in sub_lists(s)):
            return True
    return False


def escapes(stmts):
    """an EXIT / CYCLE that belongs to the enclosing loop (not nested in a further DO / WHILE) (Lean: escapes)"""
    for s in stmts:
        k = h(s)
        if k in ('exit', 'cycle'):
            return True
        if k in ('if', 'select', 'assoc') and any(escapes(l) for l in sub_lists(s)):
            return True
    return False


def unroll_candidates(stmts, inside=False):
    """loops that `do_loop_unroll` may unroll: marked by a `loki loop-unroll` pragma directly in front, or nested in such a
    loop (an over-approximation of the real decision, which also looks at `depth` and at the bounds).  Yields the do statements."""
    marked = False
    for s in stmts:
        if is_pragma(s):
            marked = marked or str(s[2]).startswith(UNROLL)
            continue
        if h(s) == 'do':
            m = inside or marked
            if m:
                yield s
            yield from unroll_candidates(s[5], m)
        else:
            for l in sub_lists(s):
                yield from unroll_candidates(l, inside)
        marked = False


def known_unroll_escape(prog):
    """Lean: KnownUnrollEscape — a loop that may be unrolled has an EXIT/CYCLE of its own"""
    return any(escapes(l[5]) for u in units(prog) for l in unroll_candidates(u[4]))


def print_mentions(stmts, x):
    """a PRINT statement somewhere in stmts mentions x (Lean: printMentions)"""
    for s in stmts:
        if h(s) == 'print' and any(ex_mentions(e, x) for e in s[1:]):
            return True
        if any(print_mentions(l, x) for l in sub_lists(s)):
            return True
    return False


def known_unroll_print(prog):
    """Lean: KnownUnrollPrint — a loop that may be unrolled has a PRINT statement in its body that mentions the loop variable
    (Loki keeps PRINT as text, the substitution does not reach it)"""
    return any(print_mentions(l[5], str(l[1])) for u in units(prog) for l in unroll_candidates(u[4]))


def assoc_mentions(stmts, x):
    """an ASSOCIATE block somewhere in stmts mentions x in a selector or in its body (Lean: assocMentions)"""
    for s in stmts:
        if h(s) == 'assoc':
            if any(ex_mentions(b[1], x) for b in s[1]) or mentions_free(s[2], x):
                return True
        elif any(assoc_mentions(l, x) for l in sub_lists(s)):
            return True
    return False


def known_unroll_assoc(prog):
    """Lean: KnownUnrollAssoc — a loop that may be unrolled has an ASSOCIATE block in its body that mentions the loop variable
    (SubstituteExpressions updates the Associate node in place: every copy gets the first iteration's value)"""
    return any(assoc_mentions(l[5], str(l[1])) for u in units(prog) for l in unroll_candidates(u[4]))


def known_unroll_live(prog):
    """Lean: KnownUnrollLive — the variable of a loop that may be unrolled occurs elsewhere in the unit (outside `do v` bodies)"""
    for u in units(prog):
        for l in unroll_candidates(u[4]):
            if mentions_free(u[4], str(l[1])):
                return True
    return False


# ---------------------------------------------------------------- the real transformations

def _parse(prog):
    src = fir.emit_fortran(prog, wrap_program=False)
    return fir.parse_fortran(src)


def real_unroll(sf):
    from loki.transformations.transform_loop import do_loop_unroll
    for r in sf.all_subroutines:
        do_loop_unroll(r, warn_iterations_length=False)


class TransformError(Exception):
    pass


def real_apply(kind, prog, params=()):
    """apply the real transformation to the program; returns (transformed program in wire form, fgen text).
    Errors of the harness printer / the frontend propagate; errors of the transformation, of fgen or of the export of the
    transformed IR are raised as TransformError."""
    from loki import fgen
    sf = _parse(prog)
    try:
        fir.export_unit(sf, main=fir.prog_main(prog))
    except fir.Unsupported as e:
        raise ValueError(f'request program is outside FIR after parsing: {e.kind}') from e
    try:
        if kind == 'unroll':
            real_unroll(sf)
        else:
            raise ValueError(kind)
        tp = fir.export_unit(sf, main=fir.prog_main(prog))
        return tp, fgen(sf.ir)
    except fir.Unsupported:
        raise
    except Exception as e:
        raise TransformError(f'{type(e).__name__}: {str(e)[:120]}') from e


# ---------------------------------------------------------------- generators

UNROLL_CFG = dict(max_stmts=14, max_depth=3, symbolic_prob=0.25, n_callees=(0, 1), pragmas=('omp simd', 'loki foo'),
                  weights={'do': 30, 'pragma': 2, 'assoc': 2, 'exit': 1, 'cycle': 1, 'print': 6, 'call': 4, 'comment': 1})


def add_unroll_pragmas(rng, prog, p=0.7):
    def fs(stmts):
        out = []
        for s in stmts:
            if h(s) == 'do' and rng.random() < p:
                d = rng.choice((None, None, None, 0, 1, 1, 2, 3))
                out.append([A('nop'), A('pragma'), UNROLL + ('' if d is None else f' depth({d})')])
            out.append(s)
        return out
    return fir.map_program(prog, fs=fs)


def decode(req):
    kind = str(req[0])
    prog = req[1]
    inputs = req[2]
    flag = str(req[3]) if len(req) > 3 else 'nogf'
    if h(prog) != 'program' or not isinstance(inputs, list) or flag not in ('gf', 'nogf') or len(prog) < 3:
        raise ValueError('malformed request')
    for u in prog[2:]:
        if h(u) != 'unit' or len(u) != 5 or not all(isinstance(x, list) for x in u[2:]):
            raise ValueError('malformed unit')
    if not any(str(u[1]) == str(prog[1]) for u in prog[2:]):
        raise ValueError('no main unit')
    return kind, prog, inputs, flag


class C31(Prop):
    id = 'C31'
    title = 'Loop transformations preserve behaviour where they apply'
    model_modules = ['LokiModel.C31.Model', 'LokiModel.C31.Enc']
    props_module = 'LokiModel.Props.C31'
    findings_module = 'LokiModel.Findings.C31'
    driver = 'Drivers/C31.lean'
    theorems = []
    design_ref = 'DESIGN.md 4.F C31'
    level = 'proof'
    level_text = ''
    level_note = ''
    technique = 'Lean 4 theorems about a hand-written model of the transformation on FIR programs + correspondence with the real code'
    rule = ''
    trusted_base = ['harness/fir.py (printer, exporter from Loki IR, reference interpreter)', 'gfortran 12.2 (thorough tier)']
    assumptions = []
    extra_obligations = ['oracle: original vs really transformed program on generated inputs']

    def classes(self):
        return ['unroll-exit-cycle', 'unroll-print-text', 'unroll-associate-body', 'unroll-loopvar-live']

    # ---- generation
    def gen(self, rng, tier):
        n_unroll = {'quick': 45, 'thorough': 400, 'search': 150}.get(tier, 45)
        n_in = 2 if tier == 'quick' else 3
        for j in range(n_unroll):
            prog = add_unroll_pragmas(rng, fir.gen_program(rng, UNROLL_CFG))
            inputs = fir.gen_inputs(rng, prog, n_in)
            gf = tier == 'thorough' and j % 4 == 0
            yield Case([A('unroll'), prog, inputs, A('gf' if gf else 'nogf')], stream='unroll',
                       nontrivial=any(True for u in units(prog) for _ in unroll_candidates(u[4])))

    # ---- real code
    def impl(self, req):
        kind, prog, inputs, flag = decode(req)
        cs = self.classes_of(kind, prog)
        if 'unroll-associate-body' in cs:
            return [A('result'), [A(c) for c in cs], A('excluded')]
        try:
            tp, _ = real_apply(kind, prog)
        except fir.Unsupported as e:
            return [A('unsupported'), str(e.kind)]
        return [A('result'), [A(c) for c in cs], norm_prog(tp)]

    def canon_model(self, resp):
        if h(resp) == 'result' and h(resp[2]) == 'program':
            return [resp[0], resp[1], norm_prog(resp[2])]
        return resp

    # ---- direct oracle
    def classes_of(self, kind, prog):
        out = []
        if kind == 'unroll':
            for name, pred in (('unroll-exit-cycle', known_unroll_escape), ('unroll-print-text', known_unroll_print),
                               ('unroll-associate-body', known_unroll_assoc), ('unroll-loopvar-live', known_unroll_live)):
                if pred(prog):
                    out.append(name)
        return out

    def classify(self, kind, prog):
        cs = self.classes_of(kind, prog)
        return cs[0] if cs else None

    def oracle(self, req):
        kind, prog, inputs, flag = decode(req)
        cls = self.classify(kind, prog)
        try:
            tp, text = real_apply(kind, prog)
        except (TransformError, fir.Unsupported) as e:
            return [Failure(f'{kind}: transformation or export of its result raised {type(e).__name__}: {str(e)[:120]}', cls)]
        runs = []
        for inp in inputs:
            a = fir.interp(prog, inp)
            if a[0] != 'ok':
                continue
            b = fir.interp(tp, inp)
            d = fir.compare_results(a, b, undef_wild=False)
            if d:
                return [Failure(f'{kind}: transformed program behaves differently (interpreter): {d}', cls)]
            runs.append(inp)
        if flag == 'gf' and runs:
            err = fir.gfortran_syntax_check(text)
            if err:
                return [Failure(f'{kind}: gfortran rejects the transformed routine printed by fgen: {err[:160]}', cls)]
            items = []
            for inp in runs:
                st = {}
                a = fir.interp(prog, inp, stats=st)
                if fir.exact_in_hardware(st):
                    items += [(prog, inp), (tp, inp)]
            res = fir.run_gfortran(items) if items else []
            for k in range(0, len(res), 2):
                if res[k][0] != 'ok':
                    continue       # the original does not run under gfortran: nothing to compare (not a C31 matter)
                d = fir.compare_results(res[k], res[k + 1])
                if d:
                    return [Failure(f'{kind}: transformed program behaves differently (gfortran): {d}', cls)]
        return []


PROP = C31()
READY = True
