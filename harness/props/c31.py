"""C31 — loop transformations (unroll, fusion, fission, interchange, blocking) preserve behaviour where they apply."""
import re
import random as _random

from ..core import Prop, Case, Failure, REPO
from ..sexpr import A, dumps, loads
from .. import fir

UNROLL = 'loki loop-unroll'


def h(x):
    return str(x[0]) if isinstance(x, list) and x else None


def is_pragma(s):
    return h(s) == 'nop' and str(s[1]) == 'pragma'


def is_comment(s):
    return h(s) == 'nop' and str(s[1]) == 'comment'


def sub_lists(s):
    """the statement lists nested in statement s (wire form)"""
    k = h(s)
    if k == 'do':
        return [s[5]]
    if k == 'while':
        return [s[2]]
    if k == 'if':
        return [s[2], s[3]]
    if k == 'select':
        return [c[1] for c in s[2]] + [s[3]]
    if k == 'assoc':
        return [s[2]]
    return []


def strip_comments(prog):
    return fir.canon(fir.map_program(prog, fs=lambda ss: [s for s in ss if not is_comment(s)]))


def _norm_m1(e):
    """documented normalisation of the correspondence (expressions, both sides): the exporter reads a product whose first
    factor is the literal -1 as a negation (Loki's `Product((-1, x))` convention) and such a product as a non-first term of a
    sum as a subtraction; substituting the literal -1 for a loop variable produces exactly these shapes.
    R1 (-1)*x -> -x, R2 (-x)*y -> -(x*y), R3 a + (-x) -> a - x (all exact identities of the FIR value semantics)."""
    if h(e) == 'bin' and str(e[1]) == 'mul' and h(e[2]) == 'neg':
        if dumps(e[2][1]) == '(i 1)':
            return [A('neg'), e[3]]
        return [A('neg'), [A('bin'), A('mul'), e[2][1], e[3]]]
    if h(e) == 'bin' and str(e[1]) == 'add' and h(e[3]) == 'neg':
        return [A('bin'), A('sub'), e[2], e[3][1]]
    return e


def norm_prog(prog):
    return fir.canon(fir.map_program(fir.canon(prog), fe=_norm_m1,
                                     fs=lambda ss: [s for s in ss if not is_comment(s)]))


def units(prog):
    return prog[2:]


# ---------------------------------------------------------------- syntactic predicates (mirrors of Lean `Known…` / `mentions…`)

def ex_mentions(e, x):
    if not isinstance(e, list):
        return False
    if h(e) == 'v':
        return str(e[1]) == x
    return any(ex_mentions(c, x) for c in e[1:])


def stmt_exprs(s):
    k = h(s)
    if k == 'assign':
        return [s[1], s[2]]
    if k == 'do':
        return [s[2], s[3], s[4]]
    if k in ('while', 'if', 'select'):
        return [s[1]]
    if k == 'assoc':
        return [b[1] for b in s[1]]
    if k == 'callsub':
        return list(s[2:])
    if k == 'print':
        return list(s[1:])
    return []


def mentions_free(stmts, x):
    """x occurs in stmts outside the bodies of `do x` loops (Lean: mentionsFree)"""
    for s in stmts:
        if any(ex_mentions(e, x) for e in stmt_exprs(s)):
            return True
        if h(s) == 'do' and str(s[1]) == x:
            continue
        if any(mentions_free(l, x) for l in sub_lists(s)):
            return True
    return False


def escapes(stmts):
    """an EXIT / CYCLE that belongs to the enclosing loop (not nested in a further DO / WHILE) (Lean: escapes)"""
    for s in stmts:
        k = h(s)
        if k in ('exit', 'cycle'):
            return True
        if k in ('if', 'select', 'assoc') and any(escapes(l) for l in sub_lists(s)):
            return True
    return False


def unroll_candidates(stmts, inside=False):
    """loops that `do_loop_unroll` may unroll: marked by a `loki loop-unroll` pragma directly in front, or nested in such a
    loop (an over-approximation of the real decision, which also looks at `depth` and at the bounds).  Yields the do statements."""
    marked = False
    for s in stmts:
        if is_pragma(s):
            marked = marked or str(s[2]).startswith(UNROLL)
            continue
        if h(s) == 'do':
            m = inside or marked
            if m:
                yield s
            yield from unroll_candidates(s[5], m)
        else:
            for l in sub_lists(s):
                yield from unroll_candidates(l, inside)
        marked = False


def known_unroll_escape(prog):
    """Lean: KnownUnrollEscape — a loop that may be unrolled has an EXIT/CYCLE of its own"""
    return any(escapes(l[5]) for u in units(prog) for l in unroll_candidates(u[4]))


def print_mentions(stmts, x):
    """a PRINT statement somewhere in stmts mentions x (Lean: printMentions)"""
    for s in stmts:
        if h(s) == 'print' and any(ex_mentions(e, x) for e in s[1:]):
            return True
        if any(print_mentions(l, x) for l in sub_lists(s)):
            return True
    return False


def known_unroll_print(prog):
    """Lean: KnownUnrollPrint — a loop that may be unrolled has a PRINT statement in its body that mentions the loop variable
    (Loki keeps PRINT as text, the substitution does not reach it)"""
    return any(print_mentions(l[5], str(l[1])) for u in units(prog) for l in unroll_candidates(u[4]))


def assoc_mentions(stmts, x):
    """an ASSOCIATE block somewhere in stmts mentions x in a selector or in its body (Lean: assocMentions)"""
    for s in stmts:
        if h(s) == 'assoc':
            if any(ex_mentions(b[1], x) for b in s[1]) or mentions_free(s[2], x):
                return True
        elif any(assoc_mentions(l, x) for l in sub_lists(s)):
            return True
    return False


def known_unroll_assoc(prog):
    """Lean: KnownUnrollAssoc — a loop that may be unrolled has an ASSOCIATE block in its body that mentions the loop variable
    (SubstituteExpressions updates the Associate node in place: every copy gets the first iteration's value)"""
    return any(assoc_mentions(l[5], str(l[1])) for u in units(prog) for l in unroll_candidates(u[4]))


def known_unroll_live(prog):
    """Lean: KnownUnrollLive — the variable of a loop that may be unrolled occurs elsewhere in the unit (outside `do v` bodies)"""
    for u in units(prog):
        for l in unroll_candidates(u[4]):
            if mentions_free(u[4], str(l[1])):
                return True
    return False


# ---------------------------------------------------------------- the real transformations

def _parse(prog):
    src = fir.emit_fortran(prog, wrap_program=False)
    return fir.parse_fortran(src)


def real_unroll(sf):
    from loki.transformations.transform_loop import do_loop_unroll
    for r in sf.all_subroutines:
        do_loop_unroll(r, warn_iterations_length=False)


class TransformError(Exception):
    pass


def real_nest(kind, sf, main, params):
    from loki.ir import FindNodes, Loop
    from loki.transformations import transform_loop as tl
    r = [x for x in sf.all_subroutines if x.name.lower() == main][0]
    if kind in ('fusion', 'fusion-o', 'fusion-c'):
        tl.do_loop_fusion(r)
    elif kind in ('fission', 'fission-o'):
        tl.do_loop_fission(r, promote=True, warn_loop_carries=True)
    elif kind in ('interchange', 'interchange-n'):
        tl.do_loop_interchange(r)
    elif kind == 'block':
        from loki.transformations.loop_blocking import split_loop
        idx, bs = params
        loops = FindNodes(Loop).visit(r.body)
        split_loop(r, loops[idx % len(loops)], bs)
    else:
        raise ValueError(kind)


_cache = {}


def real_apply(kind, prog, params=()):
    """memoised (impl and oracle see the same request)"""
    key = (kind, dumps(prog), tuple(params))
    if key not in _cache:
        if len(_cache) > 600:
            _cache.clear()
        try:
            _cache[key] = ('ok', _real_apply(kind, prog, params))
        except (TransformError, fir.Unsupported) as e:
            _cache[key] = ('exc', e)
    tag, val = _cache[key]
    if tag == 'exc':
        raise val
    return val


def _real_apply(kind, prog, params=()):
    """apply the real transformation to the program; returns (transformed program in wire form, fgen text).
    Errors of the harness printer / the frontend propagate; errors of the transformation, of fgen or of the export of the
    transformed IR are raised as TransformError."""
    from loki import fgen
    sf = _parse(prog)
    try:
        fir.export_unit(sf, main=fir.prog_main(prog))
    except fir.Unsupported as e:
        raise ValueError(f'request program is outside FIR after parsing: {e.kind}') from e
    text0 = fgen(sf.ir)
    try:
        if kind == 'unroll':
            real_unroll(sf)
        else:
            real_nest(kind, sf, str(prog[1]), params)
        tp = fir.export_unit(sf, main=fir.prog_main(prog))
        return tp, fgen(sf.ir), text0
    except fir.Unsupported:
        raise
    except Exception as e:
        raise TransformError(f'{type(e).__name__}: {str(e)[:120]}') from e


# ---------------------------------------------------------------- generators

UNROLL_CFG = dict(max_stmts=14, max_depth=3, symbolic_prob=0.25, n_callees=(0, 1), pragmas=('omp simd', 'loki foo'),
                  weights={'do': 30, 'pragma': 2, 'assoc': 2, 'exit': 1, 'cycle': 1, 'print': 6, 'call': 4, 'comment': 1})


def add_unroll_pragmas(rng, prog, p=0.7):
    def fs(stmts):
        out = []
        for s in stmts:
            if h(s) == 'do' and rng.random() < p:
                d = rng.choice((None, None, None, 0, 1, 1, 2, 3))
                out.append([A('nop'), A('pragma'), UNROLL + ('' if d is None else f' depth({d})')])
            out.append(s)
        return out
    return fir.map_program(prog, fs=fs)


# ---- loop nests whose legality is known by construction: every statement in a marked loop is "element-wise": it writes
# a?(i) / c1(i, j) and reads only elements with the same subscripts, the loop variables, literals and the scalar k1, which no
# loop writes; scalars written between loops (s1) are not used inside loops

def _V(x):
    return [A('v'), A(x)]


def _I(n):
    return fir.ilit(n)


def _elem_expr(rng, idx, arrays, depth=2):
    r = rng.random()
    if depth == 0 or r < 0.35:
        c = rng.random()
        if c < 0.5:
            return [A('idx'), A(rng.choice(arrays))] + [_V(i) for i in idx[:1]]
        if c < 0.7:
            return _V(rng.choice(idx))
        if c < 0.85:
            return _V('k1')
        return _I(rng.randint(-3, 5))
    op = rng.choice(('add', 'sub', 'mul', 'add'))
    return [A('bin'), A(op), _elem_expr(rng, idx, arrays, depth - 1), _elem_expr(rng, idx, arrays, depth - 1)]


def _elem_stmt(rng, i, arrays):
    t = rng.choice(arrays)
    return [A('assign'), [A('idx'), A(t), _V(i)], [A('call'), A('mod'), _elem_expr(rng, [i], arrays), _I(97)]]


def _elem_stmt2(rng, i, j):
    e = [A('bin'), A(rng.choice(('add', 'sub', 'mul'))), [A('idx'), A('c1'), _V(i), _V(j)],
         [A('bin'), A('add'), [A('bin'), A('mul'), _V(i), _I(rng.randint(1, 9))], _V(j)]]
    if rng.random() < 0.5:
        e = [A('bin'), A('add'), e, _V('k1')]
    return [A('assign'), [A('idx'), A('c1'), _V(i), _V(j)], [A('call'), A('mod'), e, _I(97)]]


def _pragma(t):
    return [A('nop'), A('pragma'), t]


def _nest_unit(rng, body, sym, ext):
    hi = _V('n') if sym else _I(ext)
    decls = []
    args = []
    if sym:
        decls.append([A('decl'), A('n'), A('int'), A('in'), [], fir.NONE])
        args.append(A('n'))
    decls.append([A('decl'), A('k1'), A('int'), A('in'), [], fir.NONE])
    decls.append([A('decl'), A('s1'), A('int'), A('inout'), [], fir.NONE])
    args += [A('k1'), A('s1')]
    for a in ('a1', 'a2', 'a3'):
        decls.append([A('decl'), A(a), A('int'), A('inout'), [[_I(1), hi]], fir.NONE])
        args.append(A(a))
    decls.append([A('decl'), A('c1'), A('int'), A('inout'), [[_I(1), hi], [_I(1), _I(3)]], fir.NONE])
    args.append(A('c1'))
    for x in ('i1', 'i2', 't1'):
        decls.append([A('decl'), A(x), A('int'), A('none'), [], fir.NONE])
    return fir.canon([A('program'), A('kernel'), [A('unit'), A('kernel'), args, decls, body]])


def gen_nest(rng, kind):
    """(program, params) for kind in fusion | fusion-o | fission | fission-o | interchange | block"""
    sym = rng.random() < 0.6
    ext = rng.randint(2, 5)
    hi = _V('n') if sym else _I(ext)
    arrays = ['a1', 'a2', 'a3']
    between = lambda: [A('assign'), _V('s1'), [A('bin'), A('add'), _V('s1'), _V('k1')]]
    body = []
    params = []
    if rng.random() < 0.5:
        body.append(between())
    if kind in ('fusion', 'fusion-o'):
        ngroups = rng.choice((1, 1, 2))
        plan = []
        for g in range(ngroups):
            for _ in range(rng.randint(2, 3)):
                plan.append(g)
        if ngroups == 2:
            rng.shuffle(plan)
        names = ['default', 'g1']
        for g in plan:
            v = rng.choice(('i1', 'i1', 'i2'))
            lo, up = _I(1), hi
            if kind == 'fusion-o' and rng.random() < 0.6:
                if rng.random() < 0.5:
                    lo = _I(2) if sym or ext >= 2 else _I(1)
                else:
                    up = [A('bin'), A('sub'), _V('n'), _I(1)] if sym else _I(max(1, ext - 1))
            text = 'loki loop-fusion' if names[g] == 'default' and rng.random() < 0.5 else f'loki loop-fusion group({names[g]})'
            if rng.random() < 0.2:
                body.append(_pragma('omp simd'))
            body.append(_pragma(text))
            # loops of different groups may be interleaved: hoisting is legal because the groups use disjoint arrays
            garr = arrays if ngroups == 1 else (['a1', 'a2'] if g == 0 else ['a3'])
            body.append([A('do'), A(v), lo, up, fir.NONE, [_elem_stmt(rng, v, garr) for _ in range(rng.randint(1, 3))]])
            if rng.random() < 0.4:
                body.append(between())
    elif kind in ('fission', 'fission-o'):
        for _ in range(rng.randint(1, 2)):
            v = rng.choice(('i1', 'i2'))
            lb = []
            nseg = rng.randint(2, 3)
            for k in range(nseg):
                if k:
                    lb.append(_pragma('loki loop-fission'))
                if kind == 'fission-o' and k == 0 and rng.random() < 0.7:
                    # a scalar written before the fission point and read after it: promoted by the transformation
                    lb.append([A('assign'), _V('t1'), [A('bin'), A('add'), [A('idx'), A('a1'), _V(v)], _V(v)]])
                    lb.append(_pragma('loki loop-fission'))
                    lb.append([A('assign'), [A('idx'), A('a2'), _V(v)], [A('call'), A('mod'), [A('bin'), A('mul'), _V('t1'), _I(2)], _I(97)]])
                else:
                    lb += [_elem_stmt(rng, v, arrays) for _ in range(rng.randint(1, 2))]
            step = rng.choice((fir.NONE, fir.NONE, _I(1), _I(2))) if kind == 'fission' else fir.NONE
            body.append([A('do'), A(v), _I(1), hi, step, lb])
            if rng.random() < 0.4:
                body.append(between())
    elif kind == 'interchange':
        for _ in range(rng.randint(1, 2)):
            if rng.random() < 0.3:
                body.append(_pragma('omp simd'))
            body.append(_pragma('loki loop-interchange'))
            inner = [A('do'), A('i2'), _I(1), _I(3), rng.choice((fir.NONE, fir.NONE, _I(2))),
                     [_elem_stmt2(rng, 'i1', 'i2') for _ in range(rng.randint(1, 2))]]
            body.append([A('do'), A('i1'), _I(1), hi, fir.NONE, [inner]])
    elif kind == 'block':
        lo = rng.choice((1, 1, 2))
        step = rng.choice((None, None, 1, 2, -1, -2))
        lb = [_elem_stmt(rng, 'i1', arrays) for _ in range(rng.randint(1, 2))]
        lb.append([A('assign'), _V('s1'), [A('call'), A('mod'), [A('bin'), A('add'), [A('bin'), A('mul'), _V('s1'), _I(3)],
                                                                   [A('idx'), A('a1'), _V('i1')]], _I(97)]])
        a, b = (_I(lo), hi) if step is None or step > 0 else (hi, _I(lo))
        body.append([A('do'), A('i1'), a, b, fir.NONE if step is None else _I(step), lb])
        body.append([A('do'), A('i2'), _I(1), hi, fir.NONE, [_elem_stmt(rng, 'i2', arrays)]])
        params = [rng.randint(0, 1), rng.randint(1, 4)]
    body.append(between())
    return _nest_unit(rng, body, sym, ext), params


# ---- deeper nests: interchange with an explicit order (all permutations, depth 2-4, pairwise different extents) and fusion with
# collapse(n >= 2) and independently chosen variable names per nest and level

_POOL = ('i1', 'i2', 'i3', 'i4', 'jk', 'jl')


def _is_involution(p):
    return all(p[p[i]] == i for i in range(len(p)))


def gen_deep(rng, kind):
    """program for kind in interchange-n | fusion-c"""
    exts = [_V('n'), _V('m'), _I(2), _I(3), _I(4)]
    decls = [[A('decl'), A(x), A('int'), A('in'), [], fir.NONE] for x in ('n', 'm', 'k1')]
    decls.append([A('decl'), A('s1'), A('int'), A('inout'), [], fir.NONE])
    args = [A('n'), A('m'), A('k1'), A('s1')]
    between = lambda: [A('assign'), _V('s1'), [A('bin'), A('add'), _V('s1'), _V('k1')]]
    body = [between()] if rng.random() < 0.5 else []

    def stmt(arr, subs, vs, others=()):
        lin = _V('k1')
        for v in vs:
            lin = [A('bin'), A('add'), lin, [A('bin'), A('mul'), _I(rng.randint(1, 9)), _V(v)]]
        e = [A('bin'), A('add'), [A('bin'), A('mul'), [A('idx'), A(arr)] + subs, _I(rng.randint(2, 5))], lin]
        for o in others:
            e = [A('bin'), A('add'), e, [A('idx'), A(o)] + subs]
        return [A('assign'), [A('idx'), A(arr)] + subs, [A('call'), A('mod'), e, _I(97)]]

    def nest(vs, ranges, inner):
        for v, (lo, hi) in reversed(list(zip(vs, ranges))):
            inner = [[A('do'), A(v), lo, hi, fir.NONE, inner]]
        return inner[0]

    if kind == 'interchange-n':
        d = rng.choice((2, 3, 3, 3, 4))
        vs = rng.sample(_POOL, d)
        ext = rng.sample(exts, d)                      # pairwise different extents
        los = [_I(rng.choice((1, 1, 1, 2))) for _ in range(d)]
        dimperm = list(range(d))
        rng.shuffle(dimperm)                           # array dimension j is subscripted by the variable of level dimperm[j]
        decls.append([A('decl'), A('c4'), A('int'), A('inout'), [[_I(1), ext[l]] for l in dimperm], fir.NONE])
        args.append(A('c4'))
        subs = [_V(vs[l]) for l in dimperm]
        inner = [stmt('c4', subs, vs) for _ in range(rng.randint(1, 2))]
        perms = [list(p) for p in __import__('itertools').permutations(range(d))]
        cyc = [p for p in perms if not _is_involution(p)]
        r = rng.random()
        if d >= 3 and r < 0.7:
            order = rng.choice(cyc)
        elif r < 0.9 or d > 2:
            order = rng.choice(perms)
        else:
            order = None                               # default: reversal of a 2-deep nest
        if rng.random() < 0.3:
            body.append(_pragma('omp simd'))
        body.append(_pragma('loki loop-interchange' + ('' if order is None else ' (' + ', '.join(vs[i] for i in order) + ')')))
        body.append(nest(vs, list(zip(los, ext)), inner))
    elif kind == 'fusion-c':
        c = rng.choice((2, 2, 3))
        ext = rng.sample(exts, c)
        ranges = [(_I(1), e) for e in ext]
        arrays = ['b1', 'b2', 'b3']
        for a in arrays:
            decls.append([A('decl'), A(a), A('int'), A('inout'), [[_I(1), e] for e in reversed(ext)], fir.NONE])
            args.append(A(a))
        g = rng.choice((None, 'g1'))
        for k in range(rng.randint(2, 3)):
            vs = rng.sample(_POOL, c)                  # names chosen independently per nest and level
            subs = [_V(v) for v in reversed(vs)]
            inner = [stmt(rng.choice(arrays), subs, vs, others=[rng.choice(arrays)] if rng.random() < 0.6 else ())
                     for _ in range(rng.randint(1, 2))]
            words = [f'collapse({c})'] + ([f'group({g})'] if g else [])
            rng.shuffle(words)
            body.append(_pragma('loki loop-fusion ' + ' '.join(words)))
            body.append(nest(vs, ranges, inner))
            if rng.random() < 0.4:
                body.append(between())
    else:
        raise ValueError(kind)
    body.append(between())
    for x in _POOL:
        decls.append([A('decl'), A(x), A('int'), A('none'), [], fir.NONE])
    return fir.canon([A('program'), A('kernel'), [A('unit'), A('kernel'), args, decls, body]])


def top_groups(stmts):
    """(pragma texts directly in front, statement) pairs of a statement list (Lean: groups)"""
    out, pend = [], []
    for s in stmts:
        if is_pragma(s):
            pend.append(str(s[2]))
        else:
            out.append((pend, s))
            pend = []
    return out


def pragma_param(key, text):
    """Lean: pragmaParam — value of `key(value)` among the blank-separated words"""
    for tok in text.split(' '):
        if tok.startswith(key + '(') and tok.endswith(')'):
            return tok[len(key) + 1:-1]
    return None


def nest_specs(depth, s):
    """Lean: nestSpecs — [(var, lo, hi, step)] of a perfect nest of the given depth, else None"""
    out = []
    for d in range(depth):
        if h(s) != 'do':
            return None
        out.append((str(s[1]), s[2], s[3], s[4]))
        if d < depth - 1:
            if len(s[5]) != 1:
                return None
            s = s[5][0]
    return out if depth > 0 else None


def fusion_simple(stmts):
    """Lean: fusionSimple"""
    fl = []
    for pr, s in top_groups(stmts):
        ts = [t for t in pr if t.startswith('loki loop-fusion')]
        if h(s) == 'do' and ts:
            c = pragma_param('collapse', ts[0])
            c = int(c) if c is not None and c.isdigit() else 1
            fl.append((pragma_param('group', ts[0]) or 'default', c, nest_specs(c, s)))
    for g, c, sp in fl:
        if sp is None or any(str(x[3]) != 'none' for x in sp):
            return False
        for g2, c2, sp2 in fl:
            if g == g2:
                if c != c2 or sp2 is None:
                    return False
                if any(dumps(x[1]) != dumps(y[1]) or dumps(x[2]) != dumps(y[2]) for x, y in zip(sp, sp2)):
                    return False
    return True


def fission_simple(stmts):
    """Lean: fissionSimple"""
    for s in stmts:
        if h(s) == 'do':
            body = s[5]
            if any(is_pragma(t) and str(t[2]).startswith('loki loop-fission') for t in body) and \
                    any(h(t) == 'assign' and h(t[1]) == 'v' for t in body):
                return False
    return True


def known_fission_promote(stmts):
    """Lean: KnownFissionPromote — a scalar is assigned in split loops over two different loop variables"""
    seen = {}
    for s in stmts:
        if h(s) == 'do' and any(is_pragma(t) and str(t[2]).startswith('loki loop-fission') for t in s[5]):
            for t in s[5]:
                if h(t) == 'assign' and h(t[1]) == 'v':
                    seen.setdefault(str(t[1][1]), set()).add(str(s[1]))
    return any(len(v) > 1 for v in seen.values())


def _tdiv(a, b):
    q = abs(a) // abs(b)
    return q if (a >= 0) == (b >= 0) else -q


def _bound_val(e, env):
    if h(e) == 'i':
        return int(str(e[1]))
    if h(e) == 'neg':
        return -_bound_val(e[1], env)
    if h(e) == 'v':
        return env[str(e[1])]
    raise ValueError('bound form')


def known_block_zero_trip(prog, inputs, idx):
    """Lean: KnownBlockZeroTrip — the loop to be blocked has a step s with |s| >= 2 and, for one of the input sets, does not
    execute at all although `num_iterations` = (hi - lo)/s + 1 (truncating division) is positive"""
    loops = [s for s in fir.iter_stmts(main_body(prog)) if h(s) == 'do']
    if not loops:
        return False
    l = loops[idx % len(loops)]
    if str(l[4]) == 'none':
        return False
    for inp in inputs:
        env = {str(r[0]): int(str(r[1][1])) for r in inp if len(r) == 2 and h(r[1]) == 'i'}
        try:
            lo, hi, st = _bound_val(l[2], env), _bound_val(l[3], env), _bound_val(l[4], env)
        except (ValueError, KeyError):
            return False
        if st != 0 and max(0, _tdiv(hi - lo + st, st)) == 0 and _tdiv(hi - lo, st) + 1 > 0:
            return True
    return False


def main_body(prog):
    return fir.find_unit(prog, fir.prog_main(prog))[4]


def _check_pragma_runs(stmts):
    """input domain of the models and generators: at most one `loki loop-<kind>` pragma of each kind in a run of pragmas
    (two of them on one loop make get_pragma_parameters return lists, which the transformations do not accept); the generic
    shrinker produces such runs by dropping the loop between two pragmas"""
    run = []
    for s in list(stmts) + [None]:
        if s is not None and is_pragma(s):
            run.append(str(s[2]))
            continue
        kinds = [t.split()[1] for t in run if t.startswith('loki loop-') and len(t.split()) > 1]
        if len(kinds) != len(set(kinds)):
            raise ValueError('two loki pragmas of the same kind in one run')
        run = []
        if s is not None:
            for l in sub_lists(s):
                _check_pragma_runs(l)


def decode(req):
    kind = str(req[0])
    prog = req[1]
    inputs = req[2]
    flag = str(req[3]) if len(req) > 3 else 'nogf'
    if h(prog) != 'program' or not isinstance(inputs, list) or flag not in ('gf', 'nogf') or len(prog) < 3:
        raise ValueError('malformed request')
    for u in prog[2:]:
        if h(u) != 'unit' or len(u) != 5 or not all(isinstance(x, list) for x in u[2:]):
            raise ValueError('malformed unit')
    if not any(str(u[1]) == str(prog[1]) for u in prog[2:]):
        raise ValueError('no main unit')
    for u in prog[2:]:
        _check_pragma_runs(u[4])
    return kind, prog, inputs, flag


def req_params(req):
    ps = [int(str(x)) for x in req[4:]]
    if len(ps) != (2 if str(req[0]) == 'block' else 0):
        raise ValueError('malformed request parameters')
    return ps


class C31(Prop):
    id = 'C31'
    title = 'Loop transformations preserve behaviour where they apply'
    model_modules = ['LokiModel.C31.Model', 'LokiModel.C31.Enc', 'LokiModel.C31.Nest', 'LokiModel.C31.Perm']
    props_module = 'LokiModel.Props.C31'
    findings_module = 'LokiModel.Findings.C31'
    driver = 'Drivers/C31.lean'
    theorems = ['unroll_sound', 'unroll_sound_rel', 'unroll_range_is_do_sequence', 'subst_stmts_sim',
                'interchange_specs_perm', 'interchange_pairs_intact']
    design_ref = 'DESIGN.md 4.F C31'
    level = 'proof'
    level_text = ('Theorems (Lean kernel, all programs / states / fuel, no size bound): unroll_sound — for every DO loop with literal '
                  'bounds and non-zero literal step whose body is in the covered class okSs (loop variable not assigned, not an inner '
                  'DO variable, not an array name, not mentioned in PRINT; no ASSOCIATE, no CALL) and has no EXIT/CYCLE of its own, '
                  'from every state without ASSOCIATE names in which the loop variable is an integer scalar: a finished loop is '
                  'matched by the unrolled statement list (copies of the body with the literal substituted, exactly what the model '
                  'of LoopUnrollTransformer produces) — same error, or same printed output and same value of EVERY variable other '
                  'than the loop variable; unroll_sound_rel is the relational form (any second state that agrees off the loop '
                  'variable); unroll_range_is_do_sequence ties the value list to the Fortran DO sequence through the C10 theorems '
                  '(negative steps included); subst_stmts_sim is the statement-level substitution lemma (same fuel). The excluded '
                  'inputs are decidable classes with witnesses on the real code (loop variable live after the loop, EXIT/CYCLE, '
                  'PRINT text, ASSOCIATE bodies). The full transformation do_loop_unroll (pragma attachment, depth, nested unrolling, '
                  'neighbour/counter-in-bounds branches, non-literal loops) is modelled and tied to the real code by correspondence '
                  'of the transformed programs; no theorem is stated about the composed traversal. Fusion, fission, interchange: '
                  'models of the simple classes (correspondence) + direct oracle on nests that are legal by construction; blocking '
                  '(split_loop): direct oracle only. interchange_specs_perm / interchange_pairs_intact: the model of do_loop_interchange '
                  'gives the new nest a permutation of the old (variable, range) pairs for EVERY requested order (involution or not, '
                  'any depth), so every variable keeps its own range; no execution-level theorem for fusion/fission/interchange/blocking.')
    level_note = ('Hand-written model; FIR semantics (Fir/Sem.lean) is the reference, tied to gfortran in the thorough tier. '
                  'CALL statements and loops inside ASSOCIATE blocks are covered by correspondence and oracle only. '
                  'The converse direction (unrolled code finishes => loop finishes) is not proved.')
    technique = 'Lean 4 theorems about a hand-written model of the transformation on FIR programs + correspondence with the real code'
    rule = ('unroll: fir.gen_program biased to DO loops (steps 1, 2, -1, -3, literal and symbolic bounds, zero-trip loops, nested loops, '
            'EXIT/CYCLE, ASSOCIATE, calls, prints) with `loki loop-unroll[ depth(0..3)]` in front of 70% of the loops, 2-3 input sets; '
            'fusion / fission / interchange / block: loop nests of element-wise statements (legal by construction), groups, differing '
            'loop variables and ranges, promoted scalars, steps and block sizes; interchange-n: perfect nests of depth 2-4 with an '
            'explicit variable order (all permutations, 70% non-involutions for depth >= 3), pairwise different literal/symbolic '
            'extents, lower bounds 1/2, arrays subscripted in a shuffled order; fusion-c: groups of 2-3 perfect nests with '
            'collapse(2|3), identical ranges, variable names chosen independently per nest and level; non-trivial = the program has a loop the '
            'transformation may touch; distinct by request line')
    trusted_base = ['harness/fir.py (printer, exporter from Loki IR, reference interpreter)', 'gfortran 12.2 (thorough tier)']
    assumptions = ['integer overflow and floating-point rounding are outside the FIR semantics (generated programs stay exact)',
                   'pragma texts are lower case, at most one loop-unroll pragma per loop (model restriction, generator stays inside)']
    extra_obligations = ['oracle: original vs really transformed program on generated inputs',
                         'class predicates: python mirrors agree with the Lean Known… definitions on every request']

    def classes(self):
        return ['unroll-exit-cycle', 'unroll-print-text', 'unroll-associate-body', 'unroll-loopvar-live',
                'fission-promote-two-loopvars', 'block-zero-trip-step']

    # ---- generation
    def gen(self, rng, tier):
        n_unroll = {'quick': 30, 'thorough': 180, 'search': 100}.get(tier, 30)
        n_in = 2 if tier == 'quick' else 3
        for j in range(n_unroll):
            prog = fir.canon(add_unroll_pragmas(rng, fir.gen_program(rng, UNROLL_CFG)))
            inputs = fir.gen_inputs(rng, prog, n_in)
            try:
                real_apply('unroll', prog)      # primes the cache shared by impl and oracle
            except (TransformError, fir.Unsupported):
                pass                            # a failure of the transformation: the oracle reports it
            except Exception:
                continue                        # the FP frontend cannot parse the generated program (notes/FIR.md L2): a C01/C02 matter
            gf = tier == 'thorough' and j % 8 == 0
            yield Case([A('unroll'), prog, inputs, A('gf' if gf else 'nogf')], stream='unroll',
                       nontrivial=any(True for u in units(prog) for _ in unroll_candidates(u[4])))
        n_nest = {'quick': 4, 'thorough': 24, 'search': 12}.get(tier, 4)
        for kind in ('fusion', 'fusion-o', 'fission', 'fission-o', 'interchange', 'block'):
            for j in range(n_nest):
                prog, params = gen_nest(rng, kind)
                inputs = fir.gen_inputs(rng, prog, n_in)
                gf = tier == 'thorough' and j % 4 == 0
                yield Case([A(kind), prog, inputs, A('gf' if gf else 'nogf')] + params, stream=kind)
        n_deep = {'quick': 4, 'thorough': 30, 'search': 15}.get(tier, 4)
        for kind in ('interchange-n', 'fusion-c'):
            for j in range(n_deep):
                prog = gen_deep(rng, kind)
                inputs = fir.gen_inputs(rng, prog, n_in, max_extent=4)
                gf = tier == 'thorough' and j % 5 == 0
                yield Case([A(kind), prog, inputs, A('gf' if gf else 'nogf')], stream=kind)

    # ---- real code
    def impl(self, req):
        kind, prog, inputs, flag = decode(req)
        cs = self.classes_of(kind, prog)
        if 'unroll-associate-body' in cs:
            return [A('result'), [A(c) for c in cs], A('excluded')]
        if kind == 'block':
            return [A('result'), [], A('oracle-only')]
        if kind in ('fusion-o', 'fission-o'):
            return [A('result'), [A(c) for c in cs], A('oracle-only')]
        if (kind in ('fusion', 'fusion-c') and not fusion_simple(main_body(prog))) or \
                (kind == 'fission' and not fission_simple(main_body(prog))):
            return [A('result'), [], A('excluded')]
        try:
            tp = real_apply(kind, prog, req_params(req))[0]
        except fir.Unsupported as e:
            return [A('unsupported'), str(e.kind)]
        return [A('result'), [A(c) for c in cs], norm_prog(tp)]

    def canon_model(self, resp):
        if h(resp) == 'result' and h(resp[2]) == 'program':
            return [resp[0], resp[1], norm_prog(resp[2])]
        return resp

    # ---- direct oracle
    def classes_of(self, kind, prog, req=None):
        out = []
        if kind == 'block' and req is not None and known_block_zero_trip(prog, req[2], req_params(req)[0]):
            out.append('block-zero-trip-step')
        if kind == 'unroll':
            for name, pred in (('unroll-exit-cycle', known_unroll_escape), ('unroll-print-text', known_unroll_print),
                               ('unroll-associate-body', known_unroll_assoc), ('unroll-loopvar-live', known_unroll_live)):
                if pred(prog):
                    out.append(name)
        if kind == 'fission-o' and known_fission_promote(main_body(prog)):
            out.append('fission-promote-two-loopvars')
        return out

    def classify(self, kind, prog, req=None):
        cs = self.classes_of(kind, prog, req)
        return cs[0] if cs else None

    def oracle(self, req):
        kind, prog, inputs, flag = decode(req)
        cls = self.classify(kind, prog, req)
        try:
            tp, text, text0 = real_apply(kind, prog, req_params(req))
        except (TransformError, fir.Unsupported) as e:
            return [Failure(f'{kind}: transformation or export of its result raised {type(e).__name__}: {str(e)[:120]}', cls)]
        runs = []
        for inp in inputs:
            a = fir.interp(prog, inp)
            if a[0] != 'ok':
                continue
            b = fir.interp(tp, inp)
            d = fir.compare_results(a, b, undef_wild=False)
            if d:
                return [Failure(f'{kind}: transformed program behaves differently (interpreter): {d}', cls)]
            runs.append(inp)
        if flag == 'gf' and runs:
            err = fir.gfortran_syntax_check(text)
            if err and fir.gfortran_syntax_check(text0):
                err = None      # gfortran rejects fgen's text of the UNtransformed routine as well (e.g. `.not..not.x`): a C06 matter
            if err:
                return [Failure(f'{kind}: gfortran rejects the transformed routine printed by fgen: {err[:160]}', cls)]
            items = []
            for inp in runs:
                st = {}
                a = fir.interp(prog, inp, stats=st)
                if fir.exact_in_hardware(st):
                    items += [(prog, inp), (tp, inp)]
            res = fir.run_gfortran(items) if items else []
            for k in range(0, len(res), 2):
                if res[k][0] != 'ok':
                    continue       # the original does not run under gfortran: nothing to compare (not a C31 matter)
                d = fir.compare_results(res[k], res[k + 1])
                if d:
                    return [Failure(f'{kind}: transformed program behaves differently (gfortran): {d}', cls)]
        return []


PROP = C31()
READY = True
