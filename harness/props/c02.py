"""C02 — read-write of generated Fortran is a fixpoint.

Requests
  (c02 lines STYLE (LINE...))     a program of the Lean-covered class (scalar expressions) as token lines of its source text
  (c02 fir STYLE PROG)            a fir-generated program (wire form); source = fir.emit_fortran(PROG, wrap_program=False)
  (c02 src STYLE "text")          arbitrary source text (hand-written witnesses)
  (c02 file "relative/path")      a Fortran file shipped under the repository
STYLE = fortran | ifs.

Response (correspondence, `lines` only; every other kind answers `(skip)` on both sides):
  (ok (FLAGS...) PROG (LINE...))  FLAGS = sorted known classes of the parsed unit(s) (Lean `Known…` defs / python mirror),
                                  PROG = fir.export_unit(parse(src)) (Lean: `denote (parseS lines)`),
                                  LINE... = token lines of fgen(parse(src)) (Lean: `fgenS style (parseS lines)`)
  (error parse)

Oracle (the property itself, real code only): t1 = fgen(parse(src)), IR0 = parse(src), IR1 = parse(t1), t2 = fgen(IR1);
t1 == t2 as text and IR0 == IR1 structurally (fir.export_unit where it applies AND a generic structural dump of every IR node
and expression node that ignores source positions).  Differences are attributed to known classes by REPAIR: the two sides are
normalised for one class at a time; a difference that no set of class normalisations removes is unclassified (violation).
"""
import ast
import os
import textwrap
import random
import re
from fractions import Fraction
from pathlib import Path

from ..core import Prop, Case, Failure, REPO
from ..sexpr import A, dumps, loads
from .. import fir
from ..fir import _h, _is_none

STYLES = ('fortran', 'ifs')

# ---------------------------------------------------------------------------------------------------------------
# known classes (defects of the unchanged code; all but the starred ones leave the meaning of the program alone)

CLASSES = (
    'do-step-one-dropped',            # DO v=a,b,1: fgen drops the step, the re-read IR has step None
    'logical-regroup',                # a .and. (b .and. c): the frontend keeps no parentheses around logical operands
    'double-not-unparsable',          # * .not. (.not. p) is written `.not..not.p`, which the frontend cannot read back
    'pragma-args-respaced',           # !$loki x group(g1) is written `group( g1 )`; re-read content differs
    'unary-plus',                     # +k becomes a one-child Sum, written `k` / `(k)`, re-read as k
    'module-access-spec-blank-growth',  # every round trip adds a blank line after PUBLIC/PRIVATE statements of a module
    'trailing-blank-dropped',         # a blank line at the end of the file is written but not read back
    'pp-macro-requoted',              # '__FILE__' inside a string gets one more pair of double quotes per round trip (C05)
    'select-empty-case',              # * empty CASE block: bodies shorter than values, bodies slide (C01: changes behaviour)
    # classes decided by the input predicate alone (no normalisation; seen only in snippets embedded in the repository tests)
    'interface-body-named-like-module-procedure',   # * interface body and contained procedure of one name get each other's parts
    'fypp-line-markers',              # `# 1 "file"` markers are written once and dropped by the sanitiser on re-reading (C05)
    'sanitizer-reinserted-stmt',      # statements rewritten by the sanitiser (OPEN ... NEWUNIT=) keep their source indentation
    'string-doubled-quote',           # PRINT *, "shouldn't" in a routine with !$loki pragmas: StringLiteral value raw (see dq-literal-…)
    'dq-literal-apostrophe-raw-value',  # "it's": StringLiteral keeps the raw text between the quotes; written 'it''s', re-read value it''s
)
PREDICATE_ONLY = ('select-empty-case', 'interface-body-named-like-module-procedure', 'fypp-line-markers', 'sanitizer-reinserted-stmt')


def _loki():
    from loki import Sourcefile, Subroutine, Module, ir
    from loki.frontend import FP
    from loki.backend.style import FortranStyle, IFSFortranStyle
    import pymbolic.primitives as pmbl
    return Sourcefile, Subroutine, Module, ir, FP, {'fortran': FortranStyle, 'ifs': IFSFortranStyle}, pmbl


_keep = []


def parse(src):
    Sourcefile, _, _, _, FP, _, _ = _loki()
    sf = Sourcefile.from_source(src, frontend=FP)
    _keep.append(sf)
    del _keep[:-24]
    return sf


def to_text(sf, style):
    st = _loki()[5][style]()
    return sf.to_fortran(style=st)


# ---------------------------------------------------------------------------------------------------------------
# generic structural dump of Loki IR (no source positions, no scopes), with optional per-class normalisation

class Dump:
    def __init__(self, norm=()):
        self.norm = set(norm)
        (self.Sourcefile, self.Subroutine, self.Module, self.ir, _, _, self.pmbl) = _loki()
        from loki.expression import symbols as sym
        self.sym = sym

    def x(self, e):
        pmbl, sym = self.pmbl, self.sym
        if e is None or isinstance(e, (bool, int, float, str)):
            return repr(e)
        if isinstance(e, (tuple, list)):
            return '(' + ' '.join(self.x(c) for c in e) + ')'
        if isinstance(e, dict):
            return '{' + ' '.join(self.x(k) + ':' + self.x(v) for k, v in e.items()) + '}'
        if isinstance(e, pmbl.Expression):
            if 'logical-regroup' in self.norm and isinstance(e, (pmbl.LogicalAnd, pmbl.LogicalOr)):
                flat = []

                def go(n):
                    for c in n.children:
                        if type(c) is type(e):
                            go(c)
                        else:
                            flat.append(c)
                go(e)
                return '<' + type(e).__name__ + ' (' + ' '.join(self.x(c) for c in flat) + ')>'
            if 'dq-literal-apostrophe-raw-value' in self.norm and isinstance(e, sym.StringLiteral):
                return '<StringLiteral ' + repr(str(e.value).replace("''", "'")) + '>'      # ONE pass: 'it''''s' stays different
            if 'unary-plus' in self.norm and isinstance(e, pmbl.Sum) and len(e.children) == 1:
                return self.x(e.children[0])
            if 'do-step-one-dropped' in self.norm and isinstance(e, sym.LoopRange) and e.step is not None and str(e.step) == '1':
                return '<LoopRange (' + self.x(e.start) + ' ' + self.x(e.stop) + ' None)>'
            try:
                names = getattr(e, 'init_arg_names', None)
                args = e.__getinitargs__()
            except NotImplementedError:
                return '<' + type(e).__name__ + ' ' + str(e) + '>'
            if names and len(names) == len(args):
                parts = [self.x(a) for n, a in zip(names, args) if n not in ('scope', 'type', 'source')]
            else:
                parts = [self.x(a) for a in args]
            return '<' + type(e).__name__ + ' ' + ' '.join(parts) + '>'
        if isinstance(e, self.ir.Node):
            return self.n(e)
        return '?' + type(e).__name__ + ':' + str(e)

    def ty(self, t):
        if t is None:
            return 'None'
        items = []
        for k in sorted(getattr(t, '__dict__', {})):
            v = t.__dict__[k]
            if k == 'source' or v is None:
                continue
            if k == 'dtype':
                items.append('dtype=' + str(v))
            elif callable(v):
                items.append(k + '=fn')
            else:
                items.append(k + '=' + self.x(v))
        return '[' + ' '.join(items) + ']'

    def n(self, n):
        ir, pmbl = self.ir, self.pmbl
        if isinstance(n, (tuple, list)):
            items = [self.n(c) for c in n]
            if 'module-access-spec-blank-growth' in self.norm or 'trailing-blank-dropped' in self.norm:
                items = [i for i in items if not i.startswith("{Comment text=''") and not i.startswith('{CommentBlock comments=()')]
            return '(' + ' '.join(items) + ')'
        if isinstance(n, (self.Subroutine, self.Module)):
            parts = [type(n).__name__, n.name]
            if isinstance(n, self.Subroutine):
                parts += [self.x(tuple(str(a) for a in n.argnames)), self.x(n.prefix), self.x(getattr(n, 'bind', None))]
                if getattr(n, 'is_function', False):
                    parts.append('fn:' + self.x(getattr(n, 'result_name', None)))
            else:
                parts += [self.x(n.default_access_spec), self.x(n.public_access_spec), self.x(n.private_access_spec)]
            parts.append(self.n(n.docstring) if n.docstring else '()')
            parts.append(self.n(n.spec) if n.spec is not None else '-')
            if isinstance(n, self.Subroutine):
                parts.append(self.n(n.body) if n.body is not None else '-')
            parts.append(self.n(n.contains) if n.contains is not None else '-')
            return '{' + ' '.join(parts) + '}'
        if isinstance(n, ir.PrintStmt) and 'string-doubled-quote' in self.norm and 'dq-literal-apostrophe-raw-value' not in self.norm:
            self.norm.add('dq-literal-apostrophe-raw-value')        # the same one-pass normalisation, only inside this PRINT
            try:
                return self.n(n)
            finally:
                self.norm.discard('dq-literal-apostrophe-raw-value')
        if isinstance(n, ir.Node):
            parts = [type(n).__name__]
            for k in n.__dataclass_fields__:
                if k == 'source' or k.startswith('_') or k in ('symbol_attrs', 'parent', 'rescope_symbols'):
                    continue
                v = getattr(n, k)
                if isinstance(n, (ir.VariableDeclaration, ir.ProcedureDeclaration)) and k == 'symbols':
                    parts.append('(' + ' '.join(self.x(s) + self.ty(getattr(s, 'type', None)) for s in v) + ')')
                    continue
                if isinstance(n, ir.Pragma) and k == 'content' and 'pragma-args-respaced' in self.norm and v is not None:
                    v = re.sub(r'[\s&]+', '', v)
                if isinstance(v, (tuple, list, ir.Node)) and not isinstance(v, pmbl.Expression):
                    parts.append(k + '=' + self.n(v))
                else:
                    if 'pp-macro-requoted' in self.norm and isinstance(v, str):
                        v = v.replace('"', '')
                    parts.append(k + '=' + self.x(v))
            return '{' + ' '.join(parts) + '}'
        return self.x(n)

    def file(self, sf):
        s = self.n(sf.ir)
        if 'pp-macro-requoted' in self.norm:
            s = s.replace('"', '').replace("\\'", "'")
        return s


def norm_text(t, norm):
    if 'trailing-blank-dropped' in norm:
        t = t.rstrip('\n')
    if 'module-access-spec-blank-growth' in norm:
        t = '\n'.join(l for l in t.split('\n') if l.strip())
    if 'pp-macro-requoted' in norm:
        t = t.replace('"', '')
    if 'unary-plus' in norm:
        t = re.sub(r'\((\w+)\)', r'\1', t)
    return t


def norm_fir(prog, norm):
    """class normalisation on exported FIR programs"""
    def fe(e):
        if _h(e) == 'bin' and str(e[1]) in ('and', 'or') and 'logical-regroup' in norm:
            op = str(e[1])
            flat = []

            def go(x):
                if _h(x) == 'bin' and str(x[1]) == op:
                    go(x[2])
                    go(x[3])
                else:
                    flat.append(x)
            go(e)
            acc = flat[0]
            for c in flat[1:]:
                acc = [A('bin'), A(op), acc, c]
            return acc
        return e

    def fs(stmts):
        out = []
        for s in stmts:
            if _h(s) == 'do' and 'do-step-one-dropped' in norm and _h(s[4]) == 'i' and int(str(s[4][1])) == 1:
                s = s[:4] + [fir.NONE] + s[5:]
            if _h(s) == 'nop' and 'pragma-args-respaced' in norm:
                s = s[:2] + [re.sub(r'[\s&]+', '', str(s[2]))]
            out.append(s)
        return out
    return fir.map_program(prog, fe, fs)


# ---------------------------------------------------------------------------------------------------------------
# input predicates (python mirror of the Lean `Known…` definitions for the FIR part; regexes for raw text)

def fir_flags(prog):
    """known classes a FIR program falls in (decided on the program that was WRITTEN)"""
    flags = set()

    def ex(e):
        h = _h(e)
        if h == 'bin':
            o = str(e[1])
            if o in ('and', 'or') and _h(e[3]) == 'bin' and str(e[3][1]) == o:
                flags.add('logical-regroup')
            ex(e[2])
            ex(e[3])
        elif h == 'not':
            if _h(e[1]) == 'not':
                flags.add('double-not-unparsable')
            ex(e[1])
        elif h == 'neg':
            ex(e[1])
        elif h in ('idx', 'call'):
            for c in e[2:]:
                ex(c)
        elif h == 'sec':
            for d in e[2:]:
                for c in d[1:]:
                    if not _is_none(c):
                        ex(c)

    def stmts(ss):
        for s in ss:
            h = _h(s)
            if h == 'assign':
                ex(s[1]); ex(s[2])
            elif h == 'do':
                ex(s[2]); ex(s[3])
                if not _is_none(s[4]):
                    ex(s[4])
                    if _h(s[4]) == 'i' and int(str(s[4][1])) == 1:
                        flags.add('do-step-one-dropped')
                stmts(s[5])
            elif h == 'while':
                ex(s[1]); stmts(s[2])
            elif h == 'if':
                ex(s[1]); stmts(s[2]); stmts(s[3])
            elif h == 'select':
                ex(s[1])
                for vals, body in s[2]:
                    if not body:
                        flags.add('select-empty-case')
                    stmts(body)
                stmts(s[3])
            elif h == 'assoc':
                for b in s[1]:
                    ex(b[1])
                stmts(s[2])
            elif h in ('callsub', 'print'):
                for a in (s[2:] if h == 'callsub' else s[1:]):
                    ex(a)
            elif h == 'nop':
                if str(s[1]) == 'pragma' and '(' in str(s[2]):
                    flags.add('pragma-args-respaced')
    for _name, _args, decls, body in fir.prog_units(prog):
        for d in decls:
            _n, _t, _i, dims, pm = fir.decl_fields(d)
            for lo, hi in dims:
                ex(lo); ex(hi)
            if pm is not None:
                ex(pm)
        stmts(body)
    return flags


_RE = {
    'do-step-one-dropped': re.compile(r'^\s*(\w+\s*:\s*)?do\s+(\d+\s+)?\w+\s*=[^!]*,\s*1\s*(!.*)?$', re.I | re.M),
    'logical-regroup': re.compile(r'\.(and|or|eqv|neqv)\.\s*\(', re.I),
    'double-not-unparsable': re.compile(r'\.not\.\s*\(\s*\.not\.', re.I),
    'pragma-args-respaced': re.compile(r'^\s*!\$.*[(&]', re.M),
    'unary-plus': re.compile(r'[=(,*/+\-]\s*\+'),
    'module-access-spec-blank-growth': re.compile(r'^\s*(public|private)\b(?!.*::.*\w+\s*\()', re.I | re.M),
    'trailing-blank-dropped': re.compile(r'\n[ \t]*\n[ \t]*\Z|\n[ \t]+\Z'),
    'pp-macro-requoted': re.compile(r'''['"][^'"\n]*__(FILE|FILENAME|DATE|VERSION)__'''),
    'select-empty-case': re.compile(r'^\s*case\b[^\n]*\n\s*(case\b|end\s*select)', re.I | re.M),
}


def _dq_apostrophe_lines(src):
    """the lines on which a character literal delimited by double quotes contains an apostrophe (literals scanned with both quote
    kinds, comments skipped)"""
    found = []
    for line in src.split('\n'):
        i, n = 0, len(line)
        while i < n:
            ch = line[i]
            if ch == '!':
                break
            if ch in '\'"':
                j = i + 1
                body = []
                while j < n:
                    if line[j] == ch:
                        if j + 1 < n and line[j + 1] == ch:
                            body.append(ch); j += 2
                            continue
                        break
                    body.append(line[j]); j += 1
                if ch == '"' and "'" in body:
                    found.append(line)
                    break
                i = j + 1
            else:
                i += 1
    return found


def _has_dq_apostrophe(src):
    return bool(_dq_apostrophe_lines(src))


def text_flags(src):
    fl = {c for c, r in _RE.items() if r.search(src)}
    if re.search(r'^\s*#\s*\d+\s+"', src, re.M):
        fl.add('fypp-line-markers')
    if re.search(r'newunit\s*=|convert\s*=', src, re.I):
        fl.add('sanitizer-reinserted-stmt')
    # one phenomenon, two classes: inside a PRINT statement of a routine text with !$loki pragmas (the listed class
    # `string-doubled-quote`), and everywhere else (`dq-literal-apostrophe-raw-value`)
    dq_lines = _dq_apostrophe_lines(src)
    has_pragma = bool(re.search(r'^\s*!\$loki\b', src, re.I | re.M))
    for line in dq_lines:
        if has_pragma and re.match(r'\s*print\b', line, re.I):
            fl.add('string-doubled-quote')
        else:
            fl.add('dq-literal-apostrophe-raw-value')
    if re.search(r'^\s*(abstract\s+)?interface\b', src, re.I | re.M):
        names = re.findall(r'^\s*(?:\w+\s+)*?(?:subroutine|function)\s+(\w+)', src, re.I | re.M)
        names = [n.lower() for n in names if n.lower() not in ('subroutine', 'function')]
        if len(names) != len(set(names)):
            fl.add('interface-body-named-like-module-procedure')
    return fl


# ---------------------------------------------------------------------------------------------------------------
# the direct oracle

def round_trip_failures(src, style, flags, is_fir=False):
    """list of Failure for one source text; `flags` = known classes the INPUT falls in"""
    out = []
    try:
        sf0 = parse(src)
    except Exception as e:  # noqa: BLE001  the frontend rejects the source: not C02's business (C01 reports it)
        return [('reject0', type(e).__name__ + ': ' + str(e)[:120])]
    t1 = to_text(sf0, style)
    try:
        sf1 = parse(t1)
    except Exception as e:  # noqa: BLE001
        cls = 'double-not-unparsable' if ('double-not-unparsable' in flags and re.search(r'\.not\.\s*\.not\.', t1, re.I)) else None
        if cls is None and 'interface-body-named-like-module-procedure' in flags:
            cls = 'interface-body-named-like-module-procedure'
        return [Failure(f'the frontend cannot read back what fgen wrote ({type(e).__name__}: {str(e)[:80]})', cls)]
    t2 = to_text(sf1, style)

    def attribute(equal_under, what):
        """equal_under(norm set) -> bool.  Failures for the classes needed to make the two sides equal, or one unclassified"""
        if equal_under(set()):
            return []
        cand = [c for c in CLASSES if c in flags]
        if not equal_under(set(cand)):
            po = [c for c in PREDICATE_ONLY if c in flags]
            if po:
                return [Failure(what, po[0])]
            return [Failure(what + ' (not explained by the known classes of this input: ' + ','.join(sorted(cand)) + ')', None)]
        needed = [c for c in cand if not equal_under(set(cand) - {c})]
        if not needed:        # several classes each sufficient
            needed = cand[:1]
        return [Failure(what, c) for c in needed]

    ir_fail = attribute(lambda nm: Dump(nm).file(sf0) == Dump(nm).file(sf1), 're-read IR differs from the IR that was written')
    out += ir_fail
    ir_classes = {f.cls for f in ir_fail if f.cls}
    tf = attribute(lambda nm: norm_text(t1, nm) == norm_text(t2, nm), 'second write differs from first write')
    # a text difference that goes with an explained IR difference (e.g. select-empty-case, unary-plus) is the same finding
    if tf and tf[0].cls is None and ir_classes & {'select-empty-case', 'unary-plus'}:
        tf = [Failure('second write differs from first write', sorted(ir_classes & {'select-empty-case', 'unary-plus'})[0])]
    out += tf
    # FIR export where it applies
    try:
        e0 = fir.export_unit(sf0)
    except fir.Unsupported:
        e0 = None
    except Exception:  # noqa: BLE001  malformed for the exporter
        e0 = None
    if e0 is not None:
        try:
            e1 = fir.export_unit(sf1)
        except Exception as e:  # noqa: BLE001
            e1 = None
            out.append(Failure(f're-read IR is not exportable any more ({type(e).__name__}: {e})',
                               'select-empty-case' if 'select-empty-case' in flags else None))
        if e1 is not None:
            def eq_fir(nm):
                return dumps(norm_fir(e0, nm)) == dumps(norm_fir(e1, nm))
            if 'select-empty-case' in flags and not eq_fir(set(flags)):
                out.append(Failure('exported FIR of the re-read IR differs', 'select-empty-case'))
            else:
                out += attribute(eq_fir, 'exported FIR of the re-read IR differs')
    # de-duplicate by class
    seen, res = set(), []
    for f in out:
        k = (f.cls, f.what if f.cls is None else '')
        if k not in seen:
            seen.add(k)
            res.append(f)
    return res


def explain(src, style='fortran'):
    """debug helper: first differences of one round trip"""
    sf0 = parse(src); t1 = to_text(sf0, style); sf1 = parse(t1); t2 = to_text(sf1, style)
    import difflib
    out = list(difflib.unified_diff(t1.splitlines(), t2.splitlines(), lineterm='', n=1))[:16]
    g0, g1 = Dump().file(sf0), Dump().file(sf1)
    if g0 != g1:
        k = next((j for j in range(min(len(g0), len(g1))) if g0[j] != g1[j]), min(len(g0), len(g1)))
        out += ['IR0 ' + g0[max(0, k - 160):k + 100], 'IR1 ' + g1[max(0, k - 160):k + 100]]
    return '\n'.join(out)


# ---------------------------------------------------------------------------------------------------------------
# tokens of the covered class <-> text

_OPS = [('**', 'pow'), ('==', 'eq'), ('/=', 'ne'), ('<=', 'le'), ('>=', 'ge'), ('=>', 'arrow'), ('::', 'dcolon'),
        ('<', 'lt'), ('>', 'gt'), ('=', 'assign'), ('+', 'plus'), ('-', 'minus'), ('*', 'star'), ('/', 'slash'),
        ('(', 'lp'), (')', 'rp'), (',', 'comma'), (':', 'colon')]
_DOT = {'.and.': 'and', '.or.': 'or', '.not.': 'not', '.true.': 'true', '.false.': 'false', '.eq.': 'eq', '.ne.': 'ne',
        '.lt.': 'lt', '.le.': 'le', '.gt.': 'gt', '.ge.': 'ge'}
_TXT = {v: k for k, v in _OPS}
_TXT.update({'and': '.and.', 'or': '.or.', 'not': '.not.', 'true': '.true.', 'false': '.false.'})
_TOK = re.compile(r'\s*(?:(?P<real>\d+\.\d*(?:[ed][+-]?\d+)?|\.\d+(?:[ed][+-]?\d+)?|\d+[ed][+-]?\d+)|(?P<int>\d+)|(?P<name>[a-z_]\w*)'
                  r'|(?P<dot>\.[a-z]+\.)|(?P<op>\*\*|==|/=|<=|>=|=>|::|[<>=+\-*/(),:]))', re.I)


class LexError(Exception):
    pass


def join_continuations(text):
    lines, cur = [], None
    for raw in text.split('\n'):
        l = raw.rstrip()
        if cur is not None:
            l2 = l.lstrip()
            if l2.startswith('&'):
                l2 = l2[1:]
            l = cur + l2
            cur = None
        s = l.lstrip()
        if not s.startswith('!') and l.endswith('&'):
            cur = l[:-1]
            continue
        lines.append(l)
    if cur is not None:
        lines.append(cur)
    return lines


def lex_text(text):
    """source text -> token lines (blank lines dropped); raises LexError outside the token set"""
    out = []
    for l in join_continuations(text):
        s = l.strip()
        if not s:
            continue
        if s.startswith('!$'):
            out.append([[A('prg'), s[2:].strip()]])
            continue
        if s.startswith('!'):
            out.append([[A('cmt'), s[1:].strip()]])
            continue
        toks, pos = [], 0
        while pos < len(s):
            m = _TOK.match(s, pos)
            if not m or m.end() == pos:
                if s[pos:].strip() == '':
                    break
                raise LexError(s[pos:pos + 20])
            pos = m.end()
            if m.group('real') is not None:
                toks.append([A('r'), m.group('real').lower()])
            elif m.group('int') is not None:
                toks.append(int(m.group('int')))
            elif m.group('name') is not None:
                toks.append(m.group('name').lower())
            elif m.group('dot') is not None:
                d = m.group('dot').lower()
                if d not in _DOT:
                    raise LexError(d)
                toks.append(A(_DOT[d]))
            else:
                toks.append(A(dict(_OPS)[m.group('op')]))
        out.append(toks)
    return out


def unlex(lines):
    """token lines -> source text (one statement per line, tokens separated by blanks)"""
    out = []
    for l in lines:
        if len(l) == 1 and isinstance(l[0], list) and str(l[0][0]) in ('cmt', 'prg'):
            out.append(('!$' if str(l[0][0]) == 'prg' else '! ') + str(l[0][1]))
            continue
        ws = []
        for t in l:
            if isinstance(t, list):
                ws.append(str(t[1]))
            elif isinstance(t, A):
                s = str(t)
                ws.append(_TXT[s] if s in _TXT else s)     # numbers arrive as atoms after Case normalisation
            else:
                ws.append(str(t))
        out.append(' '.join(ws))
    return '\n'.join(out) + '\n'


# ---------------------------------------------------------------------------------------------------------------
# generator of programs of the covered class (scalar expressions), FIR wire form; meaning is irrelevant for C02

class ScalarGen:
    def __init__(self, rng, hazards=True):
        self.rng = rng
        self.hazards = hazards
        self.ints = ['k1', 'k2', 'k3', 'n']
        self.reals = ['x1', 'x2']
        self.logs = ['p1', 'p2']

    def lit(self, ty):
        r = self.rng
        if ty == 'int':
            return fir.I(r.randrange(0, 12))
        if ty == 'real':
            return fir.R(Fraction(r.randrange(0, 40), 8))
        return fir.Bl(r.random() < 0.5)

    def ex(self, ty, d):
        r = self.rng
        if d <= 0 or r.random() < 0.25:
            if r.random() < 0.35:
                return self.lit(ty)
            return fir.V(r.choice({'int': self.ints, 'real': self.reals, 'logical': self.logs}[ty]))
        if ty == 'logical':
            k = r.random()
            if k < 0.3:
                t = r.choice(['int', 'real'])
                return fir.BIN(r.choice(fir.CMPS), self.ex(t, d - 1), self.ex(t, d - 1))
            if k < 0.5:
                a = self.ex('logical', d - 1)
                if _h(a) == 'not' and not (self.hazards and r.random() < 0.15):
                    return a
                return fir.NOT(a)
            op = r.choice(['and', 'or'])
            a, b = self.ex('logical', d - 1), self.ex('logical', d - 1)
            if _h(b) == 'bin' and str(b[1]) == op and not (self.hazards and r.random() < 0.3):
                a, b = b, a
                if _h(b) == 'bin' and str(b[1]) == op:
                    b = fir.V(r.choice(self.logs))
            return fir.BIN(op, a, b)
        k = r.random()
        if k < 0.12:
            return fir.NEG(self.ex(ty, d - 1))
        if k < 0.2 and ty == 'int':
            return fir.BIN('pow', self.ex(ty, d - 1), fir.I(r.randrange(0, 4)) if r.random() < 0.6 else self.ex('int', d - 1))
        if k < 0.28 and ty == 'real':
            return fir.BIN('pow', self.ex('real', d - 1), self.ex('int', d - 1))
        op = r.choice(['add', 'sub', 'mul', 'div', 'add', 'sub', 'mul'])
        return fir.BIN(op, self.ex(ty, d - 1), self.ex(ty if r.random() < 0.8 or ty == 'int' else 'int', d - 1))

    def selector(self):
        """ASSOCIATE selectors the FP frontend accepts (see notes/FIR.md L2): variables, + and * of variables and literals"""
        r = self.rng
        ty = r.choice(['int', 'real'])
        pool = self.ints if ty == 'int' else self.reals

        def go(d):
            if d <= 0 or r.random() < 0.4:
                return fir.V(r.choice(pool)) if r.random() < 0.7 else self.lit(ty)
            return fir.BIN(r.choice(['add', 'mul']), go(d - 1), go(d - 1))
        e = go(2)
        return e if fir._h(e) != 'bin' or r.random() < 0.7 else fir.V(r.choice(pool + self.logs))

    def stmts(self, n, depth, inloop=False):
        r = self.rng
        out = []
        for _ in range(n):
            k = r.random()
            if k < 0.3 or depth <= 0:
                ty = r.choice(['int', 'real', 'logical'])
                x = r.choice({'int': self.ints[:3], 'real': self.reals, 'logical': self.logs}[ty])
                out.append([A('assign'), fir.V(x), self.ex(ty, r.randrange(0, 4))])
            elif k < 0.42:
                step = fir.NONE
                q = r.random()
                if q < 0.25:
                    step = fir.I(r.choice([2, 3])) if not (self.hazards and r.random() < 0.3) else fir.I(1)
                elif q < 0.4:
                    step = fir.NEG(fir.I(r.choice([1, 2])))
                elif q < 0.5:
                    step = self.ex('int', 1)
                out.append([A('do'), A('i%d' % (4 - depth)), self.ex('int', 2), self.ex('int', 2), step,
                            self.stmts(r.randrange(0, 4), depth - 1, True)])
            elif k < 0.48:
                out.append([A('while'), self.ex('logical', 2), self.stmts(r.randrange(0, 3), depth - 1, True)])
            elif k < 0.62:
                out.append(self.gen_if(depth, inloop, r.randrange(0, 3)))
            elif k < 0.7:
                cases, used = [], set()
                for _c in range(r.randrange(1, 4)):
                    vals = []
                    for _v in range(r.randrange(1, 3)):
                        v = r.randrange(-3, 9)
                        if v not in used:
                            used.add(v)
                            vals.append(v)
                    if vals:
                        body = self.stmts(r.randrange(1, 3), depth - 1, inloop)
                        cases.append([vals, body or [[A('nop'), A('comment'), 'empty']]])
                if cases:
                    out.append([A('select'), self.ex('int', 2), cases,
                                self.stmts(r.randrange(0, 2), depth - 1, inloop)])
            elif k < 0.77:
                binds = [[A('z%d' % (j + 1)), self.selector()] for j in range(r.randrange(1, 3))]
                out.append([A('assoc'), binds, self.stmts(r.randrange(0, 3), depth - 1, inloop)])
            elif k < 0.84:
                out.append([A('callsub'), A(r.choice(['sub1', 'sub2']))] +
                           [self.ex(r.choice(['int', 'real', 'logical']), 2) for _ in range(r.randrange(0, 4))])
            elif k < 0.9:
                out.append([A('print')] + [self.ex(r.choice(['int', 'real', 'logical']), 2) for _ in range(r.randrange(1, 4))])
            elif k < 0.94:
                out.append([A('nop'), A('comment'), r.choice(['a comment', 'note: x = 1, y', 'kernel (1)'])])
            elif k < 0.97:
                out.append([A('nop'), A('pragma'), r.choice(['loki foo', 'omp simd', 'loki loop-unroll'])])
            elif inloop:
                out.append([A(r.choice(['exit', 'cycle']))])
        return out

    def gen_if(self, depth, inloop, chain):
        r = self.rng
        els = []
        if chain > 0:
            els = [self.gen_if(depth, inloop, chain - 1)]
        elif r.random() < 0.5:
            els = self.stmts(r.randrange(1, 3), depth - 1, inloop)
            if len(els) == 1 and _h(els[0]) == 'if':      # `else` + lone `if` would be printed as ELSE IF by the harness
                els.append([A('nop'), A('comment'), 'x'])
        return [A('if'), self.ex('logical', 2), self.stmts(r.randrange(0, 3), depth - 1, inloop), els]

    def unit(self, name):
        r = self.rng
        decls = []
        args = []
        for x in self.ints + self.reals + self.logs:
            ty = 'int' if x in self.ints else ('real' if x in self.reals else 'logical')
            it = r.choice(['in', 'out', 'inout', 'none', 'none']) if x != 'n' else 'in'
            if x in ('k1', 'k2', 'k3', 'p1') and it == 'in':
                it = 'inout'
            if it != 'none':
                args.append(A(x))
            decls.append([A('decl'), A(x), A(ty), A(it), [], fir.NONE])
        for j in range(r.randrange(0, 3)):
            dims = []
            for _d in range(r.randrange(1, 4)):
                lo = r.choice([fir.I(1), fir.I(1), fir.I(0), fir.NEG(fir.I(2)), self.ex('int', 1)])
                dims.append([lo, self.ex('int', 1) if r.random() < 0.5 else fir.I(r.randrange(1, 7))])
            decls.append([A('decl'), A('b%d' % (j + 1)), A(r.choice(['int', 'real', 'logical'])), A('none'), dims, fir.NONE])
        if r.random() < 0.5:
            decls.append([A('decl'), A('c1'), A('int'), A('none'), [], self.ex('int', 1) if r.random() < 0.4 else fir.I(r.randrange(0, 9))])
        for v in ('i1', 'i2', 'i3'):
            decls.append([A('decl'), A(v), A('int'), A('none'), [], fir.NONE])
        return [A('unit'), A(name), args, decls, self.stmts(r.randrange(1, 9), 3)]

    def program(self):
        units = [self.unit('kernel')]
        if self.rng.random() < 0.4:
            units.append(self.unit('sub1'))
        return fir.canon([A('program'), A('kernel')] + units)


# ---------------------------------------------------------------------------------------------------------------
# generator of raw source text for the constructs that only exist in text: inline comments on statements that fgen has to wrap
# (or that were continued in the source), character literals with apostrophes in every expression position

class TextGen:
    APOS = ["it''s", "''", "''x''", "a''''b", "o''clock ''n''", "x''", "''y", "plain", 'say "hi"', "a '' b"]

    def __init__(self, rng, dq=False):
        self.rng = rng
        self.dq = dq          # also write literals with apostrophes between double quotes (known class on the unchanged code)

    def lit(self):
        r = self.rng
        body = r.choice(self.APOS)
        if self.dq and "''" in body and '"' not in body and r.random() < 0.5:
            return '"' + body.replace("''", "'") + '"'
        return "'" + body + "'"

    def long_expr(self, n):
        r = self.rng
        terms = []
        for k in range(n):
            t = r.choice(['a(i)*b(i)', 'b(i)*c(i)*a(i)', 'c(i)', 'a(i + %d)' % k, '%d.0' % (k + 1), 'x*%d.5' % k, '(a(i) - b(i))/2.0'])
            terms.append(t)
        return ' + '.join(terms)

    def unit(self, name):
        r = self.rng
        L = ['subroutine %s(n, a, b, c, x, msg, k)' % name, '  implicit none', '  integer, intent(in) :: n  ! extent']
        decl_names = ', '.join('%s_long_work_array_%d(n, n)' % (name, j) for j in range(r.randrange(1, 9)))
        c = r.choice(['  ! work arrays', ' ! w', '   !many', ''])
        if r.random() < 0.4:      # continued in the source, comment behind the last line
            parts = decl_names.split(', ')
            L.append('  real :: ' + ', &\n    & '.join(parts) + c)
        else:
            L.append('  real :: ' + decl_names + c)
        L += ['  real, intent(inout) :: a(n + 20), b(n + 20), c(n + 20)  ! data', '  real, intent(inout) :: x',
              '  character(len=32), intent(inout) :: msg  ! text', '  integer, intent(out) :: k', '  integer :: i']
        if r.random() < 0.6:
            L.append('  character(len=*), parameter :: tag = %s  ! constant' % self.lit())
        if r.random() < 0.4:
            L.append('  procedure(real), pointer :: %s  ! procedure pointers' % ', '.join('fp_%d_with_a_long_name_to_fill_the_line' % j
                                                                                        for j in range(r.randrange(1, 6))))
        L.append('  k = 0  ! start')
        for _ in range(r.randrange(3, 8)):
            q = r.random()
            ind = '  '
            if q < 0.3:
                e = self.long_expr(r.randrange(2, 22))
                cm = r.choice(['  ! accumulate', ' ! acc', '  !x', ''])
                if r.random() < 0.35:
                    ts = e.split(' + ')
                    h = max(1, len(ts) // 2)
                    L.append(ind + 'do i = 1, n')
                    L.append(ind + '  x = x + ' + ' + '.join(ts[:h]) + ' + &\n' + ind + '    & ' + ' + '.join(ts[h:]) + cm)
                    L.append(ind + 'end do')
                else:
                    L += [ind + 'do i = 1, n', ind + '  x = x + ' + e + cm, ind + 'end do']
            elif q < 0.5:
                L.append(ind + 'msg = ' + self.lit() + r.choice(['', '  ! set', ' ! its']))
            elif q < 0.65:
                L.append(ind + 'call report(' + self.lit() + ', k, ' + self.lit() + ')' + r.choice(['', '  ! call']))
            elif q < 0.8:
                L += [ind + 'if (msg == ' + self.lit() + ' .or. msg /= ' + self.lit() + ') then', ind + '  k = k + 1  ! count',
                      ind + 'end if']
            elif q < 0.9:
                L.append(ind + 'msg = ' + self.lit() + ' // ' + self.lit() + ' // trim(msg)')
            else:
                L.append(ind + 'a(1) = ' + self.long_expr(r.randrange(1, 4)).replace('(i', '(1') + '  ! short')
        L.append('end subroutine %s' % name)
        return L

    def source(self):
        return '\n'.join(self.unit('tg1') + ([''] + self.unit('tg2') if self.rng.random() < 0.3 else [])) + '\n'


# ---------------------------------------------------------------------------------------------------------------
# repository sources

def repo_files():
    root = Path(REPO)
    fs = []
    for pat in ('*.f90', '*.F90', '*.f', '*.F'):
        fs += [p for p in root.rglob(pat) if '/build/' not in str(p) and '/.git/' not in str(p)]
    return sorted(str(p.relative_to(root)) for p in fs)


def repo_snippets(limit=None):
    """Fortran snippets embedded as string constants in the repository's python tests"""
    root = Path(REPO)
    out = []
    for p in sorted(root.rglob('test_*.py')):
        if '/build/' in str(p):
            continue
        try:
            tree = ast.parse(p.read_text())
        except Exception:  # noqa: BLE001
            continue
        for node in ast.walk(tree):
            if isinstance(node, ast.Constant) and isinstance(node.value, str):
                s = node.value
                if s.count('\n') >= 3 and re.search(r'^\s*end\s*(subroutine|module|function)', s, re.I | re.M) \
                        and re.search(r'^\s*(subroutine|module|function|pure|elemental|recursive|integer function|real function)', s.lstrip(), re.I):
                    out.append(textwrap.dedent(s).strip() + '\n')
    seen, res = set(), []
    for s in out:
        if s not in seen:
            seen.add(s)
            res.append(s)
    return res[:limit] if limit else res


# ---------------------------------------------------------------------------------------------------------------

def tokens_of(text):
    return lex_text(text)


class C02(Prop):
    id = 'C02'
    title = 'Read-write of generated Fortran is a fixpoint'
    model_modules = ['LokiModel.C02.Model', 'LokiModel.C02.Codec']
    props_module = 'LokiModel.Props.C02'
    findings_module = 'LokiModel.Findings.C02'
    driver = 'Drivers/C02.lean'
    theorems = ['C02_fix_partial', 'C02_reread_partial', 'C02_norm_idem', 'C02_fix_atoms']
    design_ref = 'DESIGN.md 4.C C01/C02'
    level = 'proof'
    level_text = (
        'Proved (Lean, unbounded nesting and length): for the statement skeleton of the covered class (subroutine header, one '
        'declaration per variable with intent/parameter/explicit bounds, assignment to scalars, DO with optional step, DO WHILE, '
        'IF / ELSE IF / ELSE, SELECT CASE on integer constants, ASSOCIATE, CALL, PRINT *, EXIT, CYCLE, comments, pragmas; both '
        'styles) the reference parser reads what the model printer wrote back to `norm u` (DO step literal 1 dropped; `norm` '
        'idempotent) and printing that again gives the same token lines — C02_reread_partial / C02_fix_partial, PARAMETRIC in the '
        'expression printer/reader pair (hypothesis: each expression slot is read back, relation R); instantiated without '
        'hypotheses for atomic expressions (C02_fix_atoms).  The expression level itself is C06 (printer) + C07 (grammar '
        'unambiguous); no closed proof of parse∘print = id for Loki\'s expression printer is given here.  Everything else '
        '(arrays, calls in expressions, modules, derived types, all repository files) is covered by correspondence and the '
        'direct oracle only.')
    level_note = ('model printer and reference parser are tied to the real fgen / FP frontend by token-level correspondence on '
                  'generated programs of the covered class; the lexer (harness) and fparser are trusted')
    technique = 'Lean 4 theorems about a hand-written model + correspondence with the real code + direct oracle on real sources'
    rule = ('lines: random programs of the covered class, both styles, hazards (step 1, right-nested .and./.or., .not. .not.) '
            'included; fir: fir.gen_program with varied cfg, both styles; file: every *.f90/*.F90 under the repository; src: '
            'Fortran snippets embedded in the repository tests; distinct = distinct request lines')
    trusted_base = ['harness lexer (token lines of Fortran text)', 'fparser', 'fir.export_unit']
    assumptions = ['names are lower case and no name is a statement keyword of the subset (checked by the reference parser)']
    extra_obligations = ['fgenS = tokens of fgen', 'denote ∘ parseS = export_unit ∘ frontend', 'Known flags (Lean) = classifier (python)']

    def classes(self):
        return list(CLASSES)

    def shrink_candidates(self, req):
        """only FIR programs are shrunk (malformed FIR makes the oracle raise = not a failure); token lines and source text are
        replayed as they are, because every text the frontend rejects would count as 'still failing'"""
        from ..core import _subterms_replace
        if str(req[1]) == 'fir':
            for i, v in enumerate(_subterms_replace(req[3])):
                yield req[:3] + [v] + req[4:]

    def tables(self):
        _, _, _, _, _, styles, _ = _loki()
        f, i = styles['fortran'](), styles['ifs']()
        b = lambda x: 'true' if x else 'false'
        return {'LokiModel/Generated/C02Tables.lean':
                '/- generated from loki/backend/style.py by harness/props/c02.py; do not edit -/\n'
                'namespace LokiModel.C02.Tables\n'
                f'def fortranLoopEndSpace : Bool := {b(f.loop_end_space)}\n'
                f'def fortranCondEndSpace : Bool := {b(f.conditional_end_space)}\n'
                f'def ifsLoopEndSpace : Bool := {b(i.loop_end_space)}\n'
                f'def ifsCondEndSpace : Bool := {b(i.conditional_end_space)}\n'
                'end LokiModel.C02.Tables\n'}

    # ------------------------------------------------------------------ generation
    def gen(self, rng, tier):
        n_lines = {'quick': 30, 'thorough': 400, 'search': 150}[tier]
        n_fir = {'quick': 10, 'thorough': 220, 'search': 60}[tier]
        for k in range(n_lines):
            g = ScalarGen(rng, hazards=(k % 3 != 0))
            p = g.program()
            if k % 3 == 1:      # the same program in another legal layout (CASE DEFAULT first / in the middle, orders of cases, declarations, units)
                from .c01 import emit_layout
                src = emit_layout(p, rng.randrange(10 ** 6), lean=True)[0]
            else:
                src = fir.emit_fortran(p, wrap_program=False)
            style = STYLES[k % 2]
            yield Case([A('c02'), A('lines'), A(style), lex_text(src)], stream='lines')
        cfgs = [None, {'weights': {'select': 12, 'if': 14, 'assoc': 8}, 'max_stmts': 18},
                {'weights': {'do': 20, 'while': 6, 'pragma': 8, 'comment': 6}, 'steps': (1, 2, -1, 3)},
                {'empty_case_bodies': True, 'weights': {'select': 25}, 'max_stmts': 12},
                {'n_callees': (1, 2), 'weights': {'call': 20, 'print': 10}}]
        for k in range(n_fir):
            cfg = cfgs[k % len(cfgs)]
            p = fir.gen_program(rng, cfg)
            yield Case([A('c02'), A('fir'), A(STYLES[k % 2]), p], stream='fir')
        n_text = {'quick': 6, 'thorough': 120, 'search': 40}[tier]
        from ..core import load_known
        dq_listed = any(k['property'] == 'C02' and k['class'] == 'dq-literal-apostrophe-raw-value' and k.get('status', 'open') == 'open'
                        for k in load_known())      # inputs of a class are generated only once the class is listed
        for k in range(n_text):
            src = TextGen(rng, dq=(dq_listed and k % 3 == 2)).source()
            yield Case([A('c02'), A('src'), A(STYLES[k % 2]), src], stream='text')
        files = repo_files()
        if tier == 'quick':
            files = files[rng.randrange(5)::5]
        for f in files:
            yield Case([A('c02'), A('file'), f], stream='file')
        if tier != 'quick':
            for s in repo_snippets():
                yield Case([A('c02'), A('src'), A('fortran'), s], stream='snippet')
        else:
            sn = repo_snippets()
            for s in sn[rng.randrange(40)::40]:
                yield Case([A('c02'), A('src'), A('fortran'), s], stream='snippet')

    # ------------------------------------------------------------------ real code (correspondence)
    def impl(self, req):
        kind = str(req[1])
        if kind != 'lines':
            return [A('skip')]
        style = str(req[2])
        src = unlex(req[3])
        try:
            sf0 = parse(src)
        except Exception:  # noqa: BLE001
            return [A('error'), A('parse')]
        prog = fir.export_unit(sf0)
        t1 = to_text(sf0, style)
        flags = sorted(fir_flags(prog) & {'do-step-one-dropped', 'logical-regroup', 'double-not-unparsable', 'select-empty-case'})
        return [A('ok'), [A(f) for f in flags], prog, lex_text(t1)]

    # ------------------------------------------------------------------ direct oracle
    def source_of(self, req):
        kind = str(req[1])
        if kind == 'lines':
            src = unlex(req[3])
            return src, str(req[2]), None
        if kind == 'fir':
            return fir.emit_fortran(req[3], wrap_program=False), str(req[2]), req[3]
        if kind == 'src':
            return str(req[3]), str(req[2]), None
        if kind == 'file':
            p = Path(REPO) / str(req[2])
            return p.read_text(errors='replace'), 'fortran', None
        raise ValueError('bad request kind ' + kind)

    def oracle(self, req):
        src, style, prog = self.source_of(req)
        flags = text_flags(src)
        if prog is not None:
            flags = (flags - {'logical-regroup', 'do-step-one-dropped', 'double-not-unparsable', 'select-empty-case',
                              'pragma-args-respaced'}) | fir_flags(prog)
        res = round_trip_failures(src, style, flags)
        return [f for f in res if isinstance(f, Failure)]

    def post(self, cases, impl_out, model_raw, oracle_fail):
        streams, rejected = {}, 0
        bad = {}
        for c, f in oracle_fail:
            bad.setdefault(c.line, []).append(f)
        problems = []
        # cross-check theorem domain vs oracle: a `lines` case with no known flag must pass the oracle
        for c, a in zip(cases, impl_out):
            if c.stream == 'lines' and a.startswith('(ok ()') and c.line in bad:
                problems.append('a program inside the covered class without known flags fails the oracle: ' + c.line[:160])
        n_file = sum(1 for c in cases if c.stream == 'file')
        return problems[:3], dict(repository_files=n_file,
                                  not_under_a_theorem='streams fir (arrays, intrinsic calls), file, snippet: direct oracle only')


PROP = C02()
READY = True
