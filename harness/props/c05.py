"""C05 — frontend input sanitisation leaves untargeted text untouched."""
import ast
import os
import re
from pathlib import Path

from loki import Subroutine, Module, Sourcefile, fgen, FindNodes
from loki import ir
from loki.ir import FindLiterals
from loki.expression import symbols as sym
from loki.frontend import FP, REGEX, Source
from loki.frontend.preprocessing import sanitize_input, sanitize_registry
from loki.frontend.util import sanitize_ir

from ..core import Prop, Case, Failure, REPO
from ..sexpr import A

NAMES = ['IBM_DIRECTIVES', 'STRING_PP_DIRECTIVES', 'INTEGER_PP_DIRECTIVES', 'CONVERT_ENDIAN', 'OPEN_NEWUNIT',
         'FYPP ANNOTATIONS']
PPTOKS = ['__FILE__', '__FILENAME__', '__DATE__', '__VERSION__', '__LINE__']
CLASSES = ['macro-in-string', 'macro-in-comment', 'open-key-in-protected', 'open-convert-first', 'macro-in-identifier',
           'open-continued-tail-missing']
# repaired by fix: commits (known_findings.json status "fixed"): directive-midline, open-convert-and-newunit,
# line-macro-in-directive — no longer classes; a recurrence is a VIOLATION
# Python's `\s` for str patterns (the same 29 code points as `isWs` in the Lean model)
WS = set(map(chr, [0x9, 0xa, 0xb, 0xc, 0xd, 0x1c, 0x1d, 0x1e, 0x1f, 0x20, 0x85, 0xa0, 0x1680] + list(range(0x2000, 0x200b))
             + [0x2028, 0x2029, 0x202f, 0x205f, 0x3000]))
LINEBREAKS = '\n\r\x0b\x0c\x1c\x1d\x1e\x85  '


# ------------------------------------------------------------------ table extraction

def lean_str(s):
    out = []
    for c in s:
        if c == '\\':
            out.append('\\\\')
        elif c == '"':
            out.append('\\"')
        elif c == '\n':
            out.append('\\n')
        elif c == '\t':
            out.append('\\t')
        elif 32 <= ord(c) < 127:
            out.append(c)
        else:
            out.append('\\u{%x}' % ord(c))
    return '"' + ''.join(out) + '"'


def registry_table():
    """(name, kind, pattern text, flags, replacement text, postprocess name) for every FP rule, in registry order.
    Pattern text and flags come from the live objects; the replacement of lambda rules and the postprocess callback
    are read from the source with ``ast``."""
    src = (REPO / 'loki' / 'frontend' / 'preprocessing.py').read_text()
    tree = ast.parse(src)
    rep_src, post_src = {}, {}
    for node in ast.walk(tree):
        if isinstance(node, ast.Assign) and any(getattr(t, 'id', None) == 'sanitize_registry' for t in node.targets):
            for k, v in zip(node.value.keys, node.value.values):
                if getattr(k, 'id', None) == 'FP':
                    for name, call in zip(v.keys, v.values):
                        kws = {kw.arg: kw.value for kw in call.keywords}
                        rep_src[name.value] = ' '.join((ast.get_source_segment(src, kws['replace']) or '').split())
                        post_src[name.value] = ast.get_source_segment(src, kws['postprocess']) if 'postprocess' in kws else 'None'
    rows = []
    for name, rule in sanitize_registry[FP].items():
        if hasattr(rule.match, 'pattern'):
            kind, pat, flags = 'regex', rule.match.pattern, int(rule.match.flags)
        else:
            kind, pat, flags = 'str', rule.match, 0
        rep = rule.replace if isinstance(rule.replace, str) and kind == 'str' else rep_src.get(name, '?')
        rows.append((name, kind, pat, flags, rep, post_src.get(name, '?')))
    return rows


# ------------------------------------------------------------------ segmenter / classifier (mirror of the Lean defs)

def segments(l):
    """pieces (code, kind, prot) — mirror of `segments` in LokiModel/C05/Model.lean"""
    out = []
    while True:
        i = 0
        while i < len(l) and l[i] not in '!\'"':
            i += 1
        code, rest = l[:i], l[i:]
        if not rest:
            out.append((code, 'none', ''))
            return out
        d, r = rest[0], rest[1:]
        if d == '!':
            out.append((code, 'comment', rest))
            return out
        j = r.find(d)
        if j < 0:
            out.append((code, 'str', rest))
            return out
        out.append((code, 'str', d + r[:j + 1]))
        l = r[j + 1:]


def literals_and_comments(l):
    """Fortran literal values of the line (adjacent pieces of a doubled quote merged into one literal, the doubled
    delimiter read as one character) and the comment text"""
    lits, com, prev_end_quote = [], None, None
    for code, kind, prot in segments(l):
        if kind == 'str':
            closed = len(prot) >= 2 and prot[-1] == prot[0]
            inner = prot[1:-1] if closed else prot[1:]
            if code == '' and prev_end_quote == prot[0] and lits:
                lits[-1] = lits[-1] + prot[0] + inner
            else:
                lits.append(inner)
            prev_end_quote = prot[0] if closed else None
        else:
            prev_end_quote = None
            if kind == 'comment':
                com = prot
    return lits, com


def skipws(l, i=0):
    while i < len(l) and l[i] in WS:
        i += 1
    return i


def cieq(p, c):
    return c == p or (p.isupper() and c == p.lower()) or (p == 'I' and c in 'İı')


def has_ci(pat, l):
    n = len(pat)
    return any(len(l) - i >= n and all(cieq(p, c) for p, c in zip(pat, l[i:i + n])) for i in range(len(l) + 1))


def open_head(l):
    i = skipws(l)
    if not (len(l) - i >= 4 and all(cieq(p, c) for p, c in zip('OPEN', l[i:i + 4]))):
        return False
    j = skipws(l, i + 4)
    return j < len(l) and l[j] == '('


def is_ident(c):
    return (c.isascii() and c.isalnum()) or c == '_'


def first_tok(l):
    for t in PPTOKS:
        if l.startswith(t):
            return t
    return None


def tok_adj_ident(code):
    for i in range(len(code)):
        t = first_tok(code[i:])
        if t and ((i > 0 and is_ident(code[i - 1])) or (i + len(t) < len(code) and is_ident(code[i + len(t)]))):
            return True
    return False


def known_flags(body, info):
    segs = segments(body)
    hastok = lambda s: any(t in s for t in PPTOKS)
    k = []
    k.append(any(kind == 'str' and hastok(p) for _, kind, p in segs))
    k.append(any(kind == 'comment' and hastok(p) for _, kind, p in segs))
    k.append(open_head(body) and any(has_ci('CONVERT=', p) or has_ci('NEWUNIT=', p) for _, _, p in segs))
    cf = False
    if info['CONVERT_ENDIAN']:
        pre = info['CONVERT_ENDIAN'][0]['pre']
        j = len(pre)
        while j > 0 and pre[j - 1] in WS:
            j -= 1
        cf = j > 0 and pre[j - 1] == '('
    k.append(cf)
    k.append(any(tok_adj_ident(code) for code, _, _ in segs))
    return k


def rstrip_ws(s):
    j = len(s)
    while j > 0 and s[j - 1] in WS:
        j -= 1
    return s[:j]


# ------------------------------------------------------------------ real code runners

def run_sanitize(body, nl, strict=True):
    src = body + ('\n' if nl else '')
    out, info = sanitize_input(source=src, frontend=FP)
    per = {}
    for n in NAMES:
        d = info[n]
        if strict and any(k != 1 for k in d.keys()):
            raise ValueError('multiline')
        per[n] = [x for k in sorted(d.keys()) for x in d[k]]
    return out, info, per


def run_reinsert(out_body, info):
    """the real ``sanitize_ir`` (post-processing callbacks in its order) on a statement node carrying the sanitised line"""
    node = ir.GenericStmt(text=out_body, source=Source(lines=(1, 1), string=out_body))
    sec = ir.Section(body=(node,))
    sec = sanitize_ir(sec, FP, pp_registry=sanitize_registry[FP], pp_info=info)
    return FindNodes(ir.GenericStmt).visit(sec)[0].text



# ------------------------------------------------------------------ continued statements (mirror of `effectiveCont`)

def cont_tail(part, S):
    """``source.string[source.string.find(part) + len(part):].rstrip()``"""
    return rstrip_ws(S[S.find(part) + len(part):])


def py_effective_cont(conv, newu, S):
    """statement text after the callbacks (reverse registry order) for a node whose source string is S;
    second result: a tail group that ends with & is not found in the source string at callback time"""
    missing = False
    text = S
    if newu:
        g = newu[0]
        text = g['ws'] + g['open'] + g['args1'] + (g['delim'] or '') + g['newunit_key'] + g['newunit_val'] + g['args2']
        if rstrip_ws(g['args2']).endswith('&'):
            missing = missing or g['args2'] not in S
            text += cont_tail(g['args2'], S)
        S = text
    if conv:
        g = conv[0]
        text = g['ws'] + g['pre'] + g['convert'] + g['post']
        if rstrip_ws(g['post']).endswith('&'):
            missing = missing or g['post'] not in S
            text += cont_tail(g['post'], S)
    return text, missing


def stmt_variants(lines):
    """real sanitize_input on the statement; returns (per-line output bodies or None if lines merged, info, S_raw, S_san)"""
    src = '\n'.join(lines) + '\n'
    out, info = sanitize_input(source=src, frontend=FP)
    out_lines = out.split('\n')
    ok = out.endswith('\n') and len(out_lines) - 1 == len(lines)
    return (out_lines[:-1] if ok else None), info, '\n'.join(lines).strip('\n'), out.strip('\n')


# ------------------------------------------------------------------ program-unit contexts and entry points

DECL = '  integer :: a, iu\n  character(len=80) :: fn\n'
KINDS = ['sub', 'fun', 'modsub', 'modfun', 'intsub', 'intfun']
SPEC_KINDS = ['subspec', 'funspec', 'modspec']
ENTRIES = ['sf', 'pu', 'rx']


def ctx_source(kind, text):
    """the tagged text between two marker statements inside the body (or spec) of a program unit of the given kind"""
    mark = f'  a = 10\n{text}\n  a = 20\n'
    smark = f'  integer :: mark10\n{text}\n  integer :: mark20\n'
    if kind == 'sub':
        return f'subroutine s(a0)\n  integer :: a0\n{DECL}{mark}end subroutine s\n'
    if kind == 'fun':
        return f'function f(a0) result(r)\n  integer :: a0, r\n{DECL}{mark}  r = a\nend function f\n'
    if kind == 'modsub':
        return f'module m\n  implicit none\ncontains\nsubroutine s(a0)\n  integer :: a0\n{DECL}{mark}end subroutine s\nend module m\n'
    if kind == 'modfun':
        return ('module m\n  implicit none\ncontains\nfunction f(a0) result(r)\n  integer :: a0, r\n'
                f'{DECL}{mark}  r = a\nend function f\nend module m\n')
    if kind == 'intsub':
        return ('subroutine outer(a1)\n  integer :: a1\n  call s(a1)\ncontains\nsubroutine s(a0)\n  integer :: a0\n'
                f'{DECL}{mark}end subroutine s\nend subroutine outer\n')
    if kind == 'intfun':
        return ('subroutine outer(a1)\n  integer :: a1\n  a1 = f(a1)\ncontains\nfunction f(a0) result(r)\n  integer :: a0, r\n'
                f'{DECL}{mark}  r = a\nend function f\nend subroutine outer\n')
    if kind == 'subspec':
        return f'subroutine s(a0)\n  integer :: a0\n{smark}  a0 = 1\nend subroutine s\n'
    if kind == 'funspec':
        return f'function f(a0) result(r)\n  integer :: a0, r\n{smark}  r = a0\nend function f\n'
    if kind == 'modspec':
        return f'module m\n  implicit none\n{smark}contains\nsubroutine s(a0)\n  integer :: a0\n  a0 = 1\nend subroutine s\nend module m\n'
    raise ValueError(kind)


def parse_unit(kind, entry, src):
    """parse through one of the frontend entry points; returns (regenerated code, IR object)"""
    if entry == 'sf':
        obj = Sourcefile.from_source(src, frontend=FP)
    elif entry == 'rx':
        obj = Sourcefile.from_source(src, frontend=REGEX)
        obj.make_complete(frontend=FP)
    elif kind.startswith('mod'):
        obj = Module.from_source(src, frontend=FP)
    else:
        obj = Subroutine.from_source(src, frontend=FP)
    return obj.to_fortran(), obj


def decode_tag(tag):
    """'f' | 'f:<kind>:<entry>' -> (kind, entry) or None for correspondence-only requests"""
    parts = str(tag).split(':')
    if parts[0] != 'f':
        return None
    if len(parts) == 1:
        return 'sub', 'pu'
    return parts[1], parts[2]


# ------------------------------------------------------------------ generator

TRIGGERS = PPTOKS + ['@PROCESS', 'CONVERT=', 'NEWUNIT=', "CONVERT='BIG_ENDIAN'", 'newunit=iu', 'a.fypp', '# 1 x.fypp']
FUZZ = ['__FILE__', '__FILENAME__', '__DATE__', '__VERSION__', '__LINE__', '@PROCESS', 'CONVERT=', "'BIG_ENDIAN'",
        '"LITTLE_ENDIAN"', 'NEWUNIT=', 'OPEN', 'open', '(', ')', ',', ' ', '  ', '&', '#', '# 1', '"', "'", '!', '.fypp"',
        '.hypp"', ' 12', 'iu', 'x', '_', '__', 'FILE', 'LINE__', '=', '1', 'newunıt=', 'bİg_endian', '\t',
        'convert=', 'Convert=', "'big_endian'", 'a.fypp"', '@PROC', 'ESS', ' ', '7', '\xa0', '　', '0', ', ']


def in_quote(t, q):
    """trigger text as it is written inside a literal delimited by q"""
    return t.replace(q, q + q)


def structured(rng):
    """Fortran-valid lines (tag f: the direct oracle parses them with the real frontend)"""
    out = []
    for t in TRIGGERS:
        for q in ("'", '"'):
            tq = in_quote(t, q)
            for pre, post in (('', ''), ('a ', ' b'), ('x', 'y'), ("it''s " if q == "'" else 'say ', '')):
                out.append(('lit-assign', f'  fn = {q}{pre}{tq}{post}{q}'))
                out.append(('lit-print', f'  print *, {q}{pre}{tq}{post}{q}, a'))
            out.append(('lit-call', f'  call foo({q}{tq}{q}, a)'))
            out.append(('lit-if', f'  if (fn == {q}{tq}{q}) a = 1'))
            out.append(('lit-two', f'  fn = {q}p{q} // {q}{tq}{q}'))
        for pre, post in (('', ''), ('see ', ' here'), ("it's ", '')):
            out.append(('comment', f'  ! {pre}{t}{post}'))
            out.append(('comment-inline', f'  a = 1 ! {pre}{t}{post}'))
        out.append(('comment-after-lit', f"  fn = 'x' ! {t} 'y"))
        out.append(('directive', f'#define FOO {t}'))
    for t in PPTOKS:
        out.append(('ident', f'  my{t}var = 1'))
        out.append(('ident', f'  {t}x = 1'))
        out.append(('ident', f'  a = x{t}'))
        out.append(('ident', f'  a = x_{t}_y + 1'))
    out += [('code', '  a = __LINE__'), ('code', '  fn = __FILE__'), ('code', '  print *, __FILE__, __LINE__'),
            ('code', '  call foo(__DATE__, __LINE__)'), ('code', '  fn = __VERSION__ // __FILENAME__'),
            ('code', "  print *, 'at', __LINE__, 'of', __FILE__ ! where"),
            ('directive', '#define HERE __FILE__ // __LINE__'), ('directive', '  #define X __DATE__'),
            ('annotation', '# 12 "file.fypp"'), ('annotation', '# 1 "a/b.hypp" 2'), ('annotation', '@PROCESS NOOPT'),
            ('annotation', '  # 7 "indented.fypp" 1'), ('annotation', '  @PROCESS HOT(NOVECTOR) NOSTRICT'),
            ('annotation', '  print *, "# 1 ", "a.fypp"'), ('annotation', '  fn = "# 1 " // "a.fypp"'),
            ('annotation', "  print *, 'see @PROCESS' ! or # 1 \"x.fypp\""), ('annotation', '  a = 1 ! # 2 "b.hypp" 3')]
    # OPEN statements: CONVERT= / NEWUNIT= in every argument position, spellings, case, spacing
    units = ['UNIT=iu', 'iu', 'NEWUNIT=iu', 'newunit=iu', 'NewUnit=iu']
    convs = ["CONVERT='BIG_ENDIAN'", 'convert="little_endian"', "Convert='Big_Endian'", 'CONVERT="LITTLE_ENDIAN"', None]
    files = ['FILE=fn', "FILE='data.bin'", "file='a, CONVERT=\"BIG_ENDIAN\"'", "file='x NEWUNIT=b'", "file='__FILE__'",
             "file='it''s'"]
    others = ["STATUS='OLD'", "FORM='UNFORMATTED'", 'IOSTAT=a', "ACTION='READ'"]
    for _ in range(260):
        u = rng.choice(units)
        c = rng.choice(convs)
        rest = rng.sample(others, rng.randint(0, 2)) + ([rng.choice(files)] if rng.random() < 0.8 else [])
        args = rest + ([c] if c else [])
        rng.shuffle(args)
        if u == 'iu' or rng.random() < 0.5:
            args = [u] + args
        else:
            args.insert(rng.randint(0, len(args)), u)
        sep = rng.choice([', ', ',', ' , ', ',  '])
        head = rng.choice(['OPEN(', 'open(', 'Open (', 'OPEN  ( ', 'open( '])
        tail = rng.choice([')', ' )', ')  ', ') ! open it', ") ! , CONVERT='BIG_ENDIAN'", ') ! NEWUNIT=x, y'])
        out.append(('open', rng.choice(['', '  ', '    ']) + head + sep.join(args) + tail))
    return out


def open_args(rng):
    units = ['UNIT=iu', 'iu', 'NEWUNIT=iu', 'newunit=iu', 'NewUnit=iu']
    convs = ["CONVERT='BIG_ENDIAN'", 'convert="little_endian"', "Convert='Big_Endian'", None]
    files = ['FILE=fn', "FILE='data.bin'", "file='it''s'", "file='a & b'"]
    others = ["STATUS='OLD'", "FORM='UNFORMATTED'", 'IOSTAT=a', "ACTION='READ'", 'recl=8']
    u = rng.choice(units)
    c = rng.choice(convs)
    args = rng.sample(others, rng.randint(1, 3)) + [rng.choice(files)] + ([c] if c else [])
    rng.shuffle(args)
    if u == 'iu' or rng.random() < 0.5:
        args = [u] + args
    else:
        args.insert(rng.randint(0, len(args)), u)
    return args


def continued_open(rng):
    """an OPEN statement continued over 2-3 lines with & (keyword arguments before/after the break, NEWUNIT/CONVERT on the
    first or a later line, with and without leading & on the continuation lines)"""
    while True:
        args = open_args(rng)
        if len(args) >= 3:
            break
    nl = rng.choice([2, 2, 3]) if len(args) >= 4 else 2
    cuts = sorted(rng.sample(range(1, len(args)), nl - 1))
    parts = [args[i:j] for i, j in zip([0] + cuts, cuts + [len(args)])]
    sep = rng.choice([', ', ','])
    head = rng.choice(['OPEN(', 'open(', 'Open (', 'open( '])
    lead = rng.choice(['', '& ', '&'])
    ind = rng.choice(['  ', '    '])
    lines = []
    for i, part in enumerate(parts):
        txt = sep.join(part)
        if i == 0:
            txt = ind + head + txt
        else:
            txt = ind + rng.choice(['  ', ' ']) + lead + txt
        txt += (rng.choice([', &', ',&', ', &  ']) if i < len(parts) - 1 else ')')
        lines.append(txt)
    return '\n'.join(lines)


SPEC_TEMPLATES = ["  character(len=40), parameter :: cs = {q}{t}{q}", "  ! spec comment {t}", "  integer :: sv ! {t}", "#define SPECMACRO {t}"]


def generate(rng, tier):
    seen = set()
    full = tier != 'quick'

    def case(stream, body, nl, tag, op='line'):
        line = [A(op), body, nl, A(tag)] if op == 'line' else [A(op), body, A(tag)]
        key = (op, body, nl, tag)
        if key in seen:
            return None
        seen.add(key)
        nontriv = any(t in body for t in PPTOKS + ['@PROCESS', '.fypp"', '.hypp"']) or \
            has_ci('CONVERT=', body) or has_ci('NEWUNIT=', body)
        return Case(line, stream=stream, nontrivial=nontriv)

    def contexts(k):
        """k (kind, entry) pairs; all 18 when k is None"""
        allc = [(kd, e) for kd in KINDS for e in ENTRIES]
        return allc if k is None else rng.sample(allc, k)

    for stream, body in structured(rng):
        is_open = stream == 'open'
        if is_open and not full and rng.random() < 0.5:
            continue                      # quick tier: half of the single-line OPEN statements
        for kd, e in contexts(9 if (is_open and full) else (2 if is_open else (3 if full else 1))):
            c = case(stream, body, True, f'f:{kd}:{e}')
            if c:
                yield c
        yield Case([A('segs'), body], stream='segs', nontrivial='!' in body or "'" in body or '"' in body)
    # statements continued with &
    for _ in range({'quick': 70, 'thorough': 200, 'search': 120}.get(tier, 70)):
        text = continued_open(rng)
        for kd, e in contexts(None if full else 3):
            c = case('open-continued', text, True, f'f:{kd}:{e}', op='stmt')
            if c:
                yield c
    # specification part
    for t in TRIGGERS[:8]:
        for q in ("'", '"'):
            for tpl in SPEC_TEMPLATES:
                body = tpl.format(q=q, t=in_quote(t, q) if '{q}' in tpl else t)
                for kd in (SPEC_KINDS if full else [rng.choice(SPEC_KINDS)]):
                    c = case('spec', body, True, f'f:{kd}:{rng.choice(ENTRIES)}')
                    if c:
                        yield c
    n = {'quick': 2500, 'thorough': 60000, 'search': 15000}.get(tier, 2500)
    for _ in range(n):
        k = rng.randint(0, 9)
        b = ''.join(rng.choice(FUZZ) for _ in range(k))
        if rng.random() < 0.4:
            b = rng.choice(['OPEN(', ' open (', 'OPEN(1', 'open(unit=1,', '  Open(file=fn']) + b
        if rng.random() < 0.1:
            b = rng.choice(['#', ' #', '# 1 "', '#define A ']) + b
        c = case('fuzz', b, rng.random() < 0.85, 'x')
        if c:
            yield c
        if rng.random() < 0.15:
            yield Case([A('segs'), b], stream='segs', nontrivial='!' in b or "'" in b or '"' in b)
        if rng.random() < 0.08:
            # correspondence of the continuation branch of the callbacks on fuzzed multi-line statements
            b2 = ''.join(rng.choice(FUZZ + [', &', '&', ' & ']) for _ in range(rng.randint(0, 6)))
            b3 = ''.join(rng.choice(FUZZ) for _ in range(rng.randint(0, 5)))
            text = '\n'.join([b + rng.choice(['', ', &', '&', ' & ']), b2] + ([b3] if rng.random() < 0.4 else []))
            if not any(ch in text for ch in LINEBREAKS.replace('\n', '')):
                c = case('fuzz-continued', text, True, 'x', op='stmt')
                if c:
                    yield c




def strip_all_ws(s):
    return ''.join(s.split())


class C05(Prop):
    id = 'C05'
    title = 'Frontend input sanitisation leaves untargeted text untouched'
    model_modules = ['LokiModel.C05.Model']
    props_module = 'LokiModel.Props.C05'
    driver = 'Drivers/C05.lean'
    theorems = ['C05_registry_pinned', 'C05_no_trigger_identity', 'C05_untargeted_partial', 'C05_tokInProt_eq_classes',
                'C05_targeted_restored_convert', 'C05_targeted_restored_newunit', 'C05_targeted_restored',
                'C05_directive_rules_anchored', 'C05_pp_directive_untouched', 'C05_full_false',
                'C05_newunit_continued_restored', 'C05_convert_continued_restored', 'C05_continued_tail_missing_witness']
    design_ref = 'DESIGN.md 4.A C05'
    level_text = ('Theorems (Lean kernel; every line = any list of Unicode characters, with or without final newline, no length bound) '
                  'about a line-level model of the six rules of sanitize_registry[FP] and of the two re-insertion callbacks (the code '
                  'after the three fix: commits): C05_no_trigger_identity (full strength) — a line containing none of the trigger texts '
                  '(@PROCESS, the five macro tokens, CONVERT=/NEWUNIT= in any case, .fypp"/.hypp") is returned verbatim with empty '
                  'pp_info; C05_targeted_restored_convert/_newunit and C05_targeted_restored (full strength since the fix) — whenever an '
                  'OPEN rule fires the recorded groups concatenate to exactly the line the rule was applied to, and after the callbacks '
                  '(reverse registry order) the statement text is the line as it was before the OPEN rules, also when both rules fire; '
                  'C05_directive_rules_anchored (full strength) — the @PROCESS and Fypp rules fire only on lines made of blanks + the '
                  'directive and delete exactly that line; C05_pp_directive_untouched (full strength) — a # directive line with a macro '
                  'token after the # passes the macro rules verbatim (now also __LINE__); C05_newunit_continued_restored / '
                  'C05_convert_continued_restored — for a statement continued with &, each callback gives back the first line followed by '
                  'the remaining lines whenever the first occurrence of its tail group in the node source string is the one at the end of '
                  'the first line (otherwise: open class open-continued-tail-missing, C05_continued_tail_missing_witness); C05_untargeted_partial — if no macro token '
                  'lies inside a literal or comment (the open classes macro-in-string / macro-in-comment) and the line is not a deleted '
                  'directive line, the statement text after sanitisation and re-insertion is the line with only its code stretches '
                  'rewritten, every character-literal stretch and the comment carried over verbatim in place; C05_full_false (witness '
                  "print *, '__LINE__') refutes the full statement; C05_registry_pinned — the rule names, order, regex source texts, "
                  'flags, replacements and callbacks regenerated from /repo are the ones the model was written for. The model is tied to '
                  'the code by diffing sanitize_input output text, pp_info of every rule and the text produced by the real sanitize_ir '
                  'with the Lean driver on generated lines; "the program still parses", identifiers and IR-level literal/comment values '
                  'are checked by the direct oracle only (open classes macro-in-identifier, open-convert-first, open-key-in-protected).')
    level_note = ('The model is hand-written per regex (leftmost match with greedy/lazy priorities made explicit) and validated by '
                  'correspondence, not derived from the regex text; a changed text breaks C05_registry_pinned. Per-line model: faithful '
                  'for multi-line sources as long as no rule removes a newline before a later rule runs (rule 4 corner case). '
                  'The & continuation branch of both callbacks is modelled at callback level (effectiveCont on a given source string, raw and '
                  'sanitised variant) and diffed with the real sanitize_ir; which string the frontend stores per entry point, the program-unit '
                  'visitors that must pass pp_info (subroutine / function / module procedure / internal procedure bodies and specs) and '
                  'trailing comments after & are oracle-only. Not modelled: str.splitlines separators other than \\n '
                  'inside a line, \\d beyond ASCII digits in the Fypp rule, the Fortran parser itself, the REGEX-frontend registry.')
    technique = ('Lean 4 theorems about a hand-written line-level model of the six FP sanitisation rules + correspondence with '
                 'sanitize_input / the re-insertion callbacks + parse/regenerate oracle with the real FP frontend')
    rule = ('structured stream: every trigger text (5 macro tokens, @PROCESS, CONVERT=, NEWUNIT=, full CONVERT argument, newunit=iu, '
            'fypp names) inside \'..\' and ".." literals (with prefix/suffix text and doubled quotes) in assignment, print, call, '
            'if and concatenation statements, in standalone/inline/after-literal comments, in #define lines, glued to identifiers, as '
            'code; 260 random single-line OPEN statements and 70/200 OPEN statements continued over 2-3 lines with & (NEWUNIT/CONVERT '
            'on the first or a later line, with/without leading &); specification-part lines (parameter initialisers, comments, '
            'directives). Every oracle case is placed in one of 6 program-unit kinds (subroutine, function, module subroutine/function, '
            'internal subroutine/function; spec of subroutine/function/module) and parsed through one of 3 entry points '
            '(Sourcefile.from_source, Subroutine/Module.from_source, REGEX + make_complete(FP)): quick = 1-3 random combinations per '
            'line, thorough = 9 for single-line and all 18 for continued OPEN statements; PROGRAM units are not supported by the frontend. Fuzz stream: random '
            'concatenations of 49 fragments with OPEN/# prefixes, also as 2-3 line statements with & (callback continuation branch); '
            'segmenter stream: the same lines through the Python mirror of `segments`; non-trivial = contains a trigger; distinct by request')
    trusted_base = ['harness/props/c05.py: Python mirror of the segmenter/classifier (diffed with the Lean one on every line)',
                    'harness/props/c05.py: oracle extraction of literal values and comments from regenerated code',
                    'Lean driver evaluation of the model definitions']
    assumptions = ['lines are split at \\n only (no \\r, \\f, \\v, U+2028 … inside the generated lines)',
                   'no trailing comment after the & of a continued OPEN line',
                   'Fypp annotation line numbers use ASCII digits']
    extra_obligations = ['correspondence: segmenter and known-class predicates (Python mirror vs Lean)',
                         'oracle: parse with the real FP frontend + fgen, literal values / comments / identifiers / OPEN arguments preserved']

    def classes(self):
        return list(CLASSES)

    # ---- tables
    def tables(self):
        rows = registry_table()
        body = ',\n'.join('  (%s, %s, %s, %d, %s, %s)' % (lean_str(n), lean_str(k), lean_str(p), f, lean_str(r), lean_str(pp))
                          for n, k, p, f, r, pp in rows)
        txt = ('/-! GENERATED by harness/props/c05.py from loki/frontend/preprocessing.py (sanitize_registry[FP]) — do not edit.\n'
               'Rows: (rule name, "regex"|"str", pattern source text, re flags, replacement (string or source of the lambda), '
               'postprocess callback), in registry order. -/\n'
               'namespace LokiModel.Generated.C05\n\n'
               'def fpRules : List (String × String × String × Nat × String × String) := [\n' + body + '\n]\n\n'
               'end LokiModel.Generated.C05\n')
        return {'LokiModel/Generated/C05Tables.lean': txt}

    # ---- generator
    def gen(self, rng, tier):
        yield from generate(rng, tier)

    # ---- real code -> canonical response
    @staticmethod
    def _line_resp(out_text, per):
        """canonical response items for one line: output text and pp_info of the six rules"""
        def hits(name):
            return [[A('pp'), d['pp']] if d['pp'] is not None else [A('else'), d['else']] for d in per[name]]
        conv, newu = per['CONVERT_ENDIAN'], per['OPEN_NEWUNIT']
        assert len(conv) <= 1 and len(newu) <= 1
        return [out_text,
                [A('ibm'), bool(per['IBM_DIRECTIVES'])],
                [A('strpp')] + hits('STRING_PP_DIRECTIVES'),
                [A('intpp')] + hits('INTEGER_PP_DIRECTIVES'),
                [A('convert'), [conv[0][k] for k in ('ws', 'pre', 'convert', 'post')] if conv else A('none')],
                [A('newunit'), [newu[0]['ws'], newu[0]['open'], newu[0]['args1'],
                                newu[0]['delim'] if newu[0]['delim'] is not None else A('none'),
                                newu[0]['newunit_key'], newu[0]['newunit_val'], newu[0]['args2']] if newu else A('none')],
                [A('fypp'), bool(per['FYPP ANNOTATIONS'])]]

    def impl(self, req):
        op = str(req[0])
        if op == 'segs':
            return [A('ok')] + [[c, A(k), p] for c, k, p in segments(req[1])]
        if op == 'stmt':
            return self._impl_stmt(req[1])
        body, nl = req[1], str(req[2]).lower() == 'true'
        if any(c in body for c in LINEBREAKS):
            return [A('error'), A('multiline')]
        out, info, per = run_sanitize(body, nl)
        out_body = out[:-1] if out.endswith('\n') else out
        conv = per['CONVERT_ENDIAN']
        newu = per['OPEN_NEWUNIT']
        amp = (bool(conv) and rstrip_ws(conv[0]['post']).endswith('&')) or (bool(newu) and rstrip_ws(newu[0]['args2']).endswith('&'))
        eff = A('amp') if amp else run_reinsert(out_body, info)
        return [A('ok')] + self._line_resp(out, per) + [[A('effective'), eff], [A('known')] + known_flags(body, per)]

    def _impl_stmt(self, text):
        """a statement of several lines: real sanitize_input on all lines, real sanitize_ir on a node that carries the raw /
        the sanitised statement as source string (the two situations the frontend entry points create)"""
        lines = text.split('\n')
        if any(c in l for l in lines for c in LINEBREAKS):
            return [A('error'), A('multiline')]
        outs, info, s_raw, s_san = stmt_variants(lines)
        if outs is None:
            return [A('error'), A('merged')]
        resp = []
        for i, o in enumerate(outs):
            per = {n: list(info[n].get(i + 1, [])) for n in NAMES}
            resp.append(self._line_resp(o + '\n', per))
        effs, miss = [], []
        per1 = {n: list(info[n].get(1, [])) for n in NAMES}
        for S in (s_raw, s_san):
            node = ir.GenericStmt(text=S, source=Source(lines=(1, len(lines)), string=S))
            sec = sanitize_ir(ir.Section(body=(node,)), FP, pp_registry=sanitize_registry[FP], pp_info=info)
            effs.append(FindNodes(ir.GenericStmt).visit(sec)[0].text)
            miss.append(py_effective_cont(per1['CONVERT_ENDIAN'], per1['OPEN_NEWUNIT'], S)[1])
        return [A('ok'), resp, [A('effective'), effs[0], effs[1]], [A('missing'), miss[0], miss[1]]]

    # ---- direct oracle
    def classify(self, body):
        """known-finding classes the line falls in (priority order)"""
        try:
            out, info, per = run_sanitize(body, True, strict=False)
        except ValueError:
            return []
        return [c for c, f in zip(CLASSES, known_flags(body, per)) if f]

    def classify_stmt(self, lines, entry):
        cls = []
        for l in lines:
            for c in self.classify(l):
                if c not in cls:
                    cls.append(c)
        if len(lines) > 1:
            outs, info, s_raw, s_san = stmt_variants(lines)
            per1 = {n: list(info[n].get(1, [])) for n in NAMES}
            S = s_raw if entry == 'sf' else s_san      # Sourcefile keeps the raw text, from_source / make_complete the sanitised one
            if py_effective_cont(per1['CONVERT_ENDIAN'], per1['OPEN_NEWUNIT'], S)[1]:
                cls.append('open-continued-tail-missing')
        return cls

    def oracle(self, req):
        op = str(req[0])
        if op not in ('line', 'stmt'):
            return []
        ctx = decode_tag(req[3] if op == 'line' else req[2])
        if ctx is None:
            return []
        kind, entry = ctx
        text = req[1]
        lines = text.split('\n')
        cls = (self.classify_stmt(lines, entry) or [None])[0]
        src = ctx_source(kind, text)
        where = f'[{kind} via {entry}]'
        try:
            code, obj = parse_unit(kind, entry, src)
            Sourcefile.from_source(code, frontend=FP)      # the regenerated program parses again
        except Exception as e:  # pylint: disable=broad-except
            return [Failure(f'{where} the program no longer parses/regenerates with {text!r}: {type(e).__name__} {str(e)[:120]!r}', cls)]
        out = code.splitlines()
        m0, m1 = ('integer :: mark10', 'integer :: mark20') if kind in SPEC_KINDS else ('a = 10', 'a = 20')
        try:
            i0 = next(i for i, l in enumerate(out) if l.strip().lower() == m0)
            i1 = next(i for i, l in enumerate(out) if l.strip().lower() == m1)
        except StopIteration:
            return [Failure(f'{where} marker statements lost around {text!r}', cls)]
        region = out[i0 + 1:i1]
        fails = []
        sb = text.strip()
        if sb.startswith('#'):
            # a preprocessor directive is untargeted text as a whole (annotations of Fypp are the target of rule 6)
            if not re.match(r'# [1-9].*".*\.(?:fypp|hypp)"(?:\s+\d+)?$', sb) and sb not in [l.strip() for l in region]:
                fails.append(Failure(f'{where} directive line {sb!r} regenerated as {[l.strip() for l in region]!r}', cls))
            return fails
        if sb.startswith('@PROCESS'):
            return fails   # IBM directive line: the target of rule 1 (dropped)
        lits, coms = [], []
        for l in lines:
            a, b = literals_and_comments(l)
            lits += a
            if b is not None:
                coms.append(b.rstrip())
        rl, rc = [], []
        for l in region:
            a, b = literals_and_comments(l)
            rl += a
            if b is not None:
                rc.append(b.rstrip())
        for v in lits:
            if v not in rl:
                fails.append(Failure(f'{where} string literal {v!r} of {text!r} is regenerated as {region!r}', cls))
                break
        for com in coms:
            if com not in rc:
                fails.append(Failure(f'{where} comment {com!r} of {text!r} is regenerated as {region!r}', cls))
        # IR level: literal values of expressions
        if kind not in SPEC_KINDS:
            routines = [r for r in (obj.all_subroutines if isinstance(obj, Sourcefile) else
                                    ([obj] + list(getattr(obj, 'members', ())) + list(getattr(obj, 'subroutines', ()))))]
            routines += [m for r in list(routines) for m in getattr(r, 'members', ())]
            target = [r for r in routines if r.name.lower() in ('s', 'f')]
            if target:
                body_nodes = list(target[0].body.body)
                irl = [l.value for l in FindLiterals().visit(target[0].body) if isinstance(l, sym.StringLiteral)]
                if any(isinstance(n, (ir.Assignment, ir.CallStatement, ir.Conditional)) for n in body_nodes[1:-1]) and \
                        not any(isinstance(n, ir.GenericStmt) for n in body_nodes[1:-1]):
                    irv = set(irl) | {x.replace("''", "'") for x in irl} | {x.replace('""', '"') for x in irl}
                    for v in lits:
                        if v not in irv and not fails:
                            fails.append(Failure(f'{where} string literal {v!r} of {text!r} has IR values {irl!r}', cls))
        # identifiers that merely contain a macro token keep their name
        for l in lines:
            for code_part, _, _ in segments(l):
                for ident in re.findall(r'[A-Za-z_][A-Za-z0-9_]*', code_part):
                    if ident not in PPTOKS and any(t in ident for t in PPTOKS) and \
                            ident.lower() not in ''.join(region).lower():
                        fails.append(Failure(f'{where} identifier {ident!r} of {text!r} is regenerated as {region!r}', cls))
        if open_head(lines[0]):
            # the targeted arguments must be back in the regenerated statement
            _, info, _, _ = stmt_variants(lines)
            per = {n: list(info[n].get(1, [])) for n in NAMES}
            joined = strip_all_ws(''.join(region))
            for name, keys in (('CONVERT_ENDIAN', ('convert',)), ('OPEN_NEWUNIT', ('newunit_key', 'newunit_val'))):
                for g in per[name]:
                    arg = strip_all_ws(''.join(g[k] for k in keys)).lstrip(',')
                    if arg not in joined:
                        fails.append(Failure(f'{where} OPEN argument {arg!r} of {sb!r} is not restored: {region!r}', cls))
            # every specifier keyword of the statement is still there (NEWUNIT= must not turn into UNIT=)
            code_only = ''.join(c for l in lines for c, _, _ in segments(l))
            low = strip_all_ws(''.join(''.join(c for c, _, _ in segments(l)) for l in region)).lower()
            for kw in re.findall(r'([A-Za-z]+)\s*=', code_only):
                if not re.search(r'(?<![a-z])' + kw.lower() + '=', low):
                    fails.append(Failure(f'{where} OPEN specifier {kw}= of {sb!r} is missing from {region!r}', cls))
                    break
            if (per['CONVERT_ENDIAN'] or per['OPEN_NEWUNIT']) and not fails:
                # the statement node of a sanitised OPEN carries its text verbatim: the whole statement must be back
                def norm(ls):
                    return [strip_all_ws(''.join(c + (p if k != 'comment' else '') for c, k, p in segments(l))) for l in ls]
                want, got = norm(lines), norm(region)
                if not any(got[i:i + len(want)] == want for i in range(len(got) - len(want) + 1)):
                    fails.append(Failure(f'{where} OPEN statement {sb!r} is regenerated as {region!r}', cls))
        return fails


PROP = C05()
READY = True
