"""C42 — lint results do not depend on parallelism or completion order.

Trace validation: generated file sets (parsable modules with routines some of which a harness rule flags,
and unparsable files) are linted by the real ``Linter`` / ``lint_files_glob`` / ``Reporter`` /
``workqueue`` code with 1..8 workers.  Completion order is perturbed by a harness-side lint rule whose
``check_file`` sleeps a per-file delay taken from the rule configuration (no repo change).  Three real
handlers are attached (``DefaultHandler``, ``JunitXmlHandler``, ``ViolationFileHandler``; the first and
the last through thin subclasses that tag every list entry with the file name so that the order of every
handler list is observable).  The observed per-handler orders are part of the request; the Lean driver
must find a run of the model with exactly these orders.

Every real lint run happens in a forked child (own session, stdio to /dev/null).
"""
import logging
import os
import pickle
import re
import shutil
import signal
import sys
import tempfile
import time
import xml.etree.ElementTree as ET
from pathlib import Path

import yaml

import loki.logging as ll
from loki.lint import (Linter, Reporter, GenericRule, RuleType, DefaultHandler, JunitXmlHandler,
                       ViolationFileHandler, LazyTextfile)
from loki.lint.linter import lint_files_glob, lint_files

from ..core import Prop, Case, Failure, REPO
from ..sexpr import A

RUN_TIMEOUT = 150

try:
    sys.path.insert(0, str(REPO / 'lint_rules'))
    from lint_rules.ifs_coding_standards_2011 import (ImplicitNoneRule, Fortran90OperatorsRule,
                                                      MaxDummyArgsRule, LimitSubroutineStatementsRule)
    BUILTIN = [ImplicitNoneRule, Fortran90OperatorsRule, MaxDummyArgsRule, LimitSubroutineStatementsRule]
except Exception:      # pragma: no cover
    BUILTIN = []


# warm the frontend caches once in the parent so that forked children do not pay the parser start-up each time
from loki import Sourcefile as _Sourcefile
_Sourcefile.from_source('module warm\ncontains\nsubroutine w(a)\nreal :: a\nif (a .gt. 0.) a = 1.\nend subroutine w\nend module warm\n')


# ------------------------------------------------------------------ harness-side rules and handler tags

def _append(path, text):
    fd = os.open(path, os.O_WRONLY | os.O_APPEND | os.O_CREAT)
    os.write(fd, (text + '\n').encode())
    os.close(fd)


class C42SleepRule(GenericRule):
    """first rule: logs the start of the check, sleeps the configured per-file delay, flags routines named bad*"""
    type = RuleType.INFO
    docs = {'id': 'C42.1', 'title': 'Routines called bad* are flagged (after a configurable delay)'}
    config = {'delays': {}, 'log': None}

    @classmethod
    def check_file(cls, sourcefile, rule_report, config):
        name = Path(sourcefile.path).name
        if config.get('log'):
            _append(config['log'], f'b {name} {os.getpid()}')
        time.sleep(config['delays'].get(name, 0) / 1000.0)

    @classmethod
    def check_subroutine(cls, subroutine, rule_report, config, **kwargs):
        if subroutine.name.lower().startswith('bad'):
            rule_report.add(f'routine {subroutine.name} is flagged', subroutine)


class C42ModuleRule(GenericRule):
    """second rule: a module with three or more routines is reported"""
    type = RuleType.WARN
    docs = {'id': 'C42.2', 'title': 'Modules with three or more routines'}

    @classmethod
    def check_module(cls, module, rule_report, config):
        if len(module.subroutines) >= 3:
            rule_report.add(f'module {module.name} has {len(module.subroutines)} routines', module)


class C42EndRule(GenericRule):
    """last rule: logs the end of the check of a file"""
    type = RuleType.INFO
    docs = {'id': 'C42.3', 'title': 'end marker'}
    config = {'log': None}

    @classmethod
    def check_file(cls, sourcefile, rule_report, config):
        if config.get('log'):
            _append(config['log'], f'e {Path(sourcefile.path).name} {os.getpid()}')


class LineFile(LazyTextfile):
    def write(self, msg):
        super().write(msg + '\n')


class TagDefault(DefaultHandler):
    """DefaultHandler whose list entries carry the file name"""
    def handle(self, file_report):
        return (str(file_report.filename), super().handle(file_report))

    def output(self, handler_reports):
        super().output([r[1] for r in handler_reports])


class TagViolation(ViolationFileHandler):
    """ViolationFileHandler whose list entries carry the file name"""
    def handle(self, file_report):
        return (str(file_report.filename), super().handle(file_report))

    def output(self, handler_reports):
        super().output([r[1] for r in handler_reports])


# ------------------------------------------------------------------ request codec

def dec_call(items):
    d = {str(x[0]): x[1:] for x in items}
    files = [(int(str(f[1])), str(f[2]), [int(str(b)) for b in f[3]]) for f in d['files']]
    w = int(str(d['w'][0]))
    orders = [[int(str(i)) for i in o] for o in d.get('orders', [])]
    delays = [int(str(x)) for x in d.get('delays', [])]
    return files, w, orders, delays


def dec(req):
    """request -> (calls [(files, w, delays)], nh, per-call observed orders); `lint` = a session of one call"""
    op = str(req[0])
    if op == 'lint':
        files, w, orders, delays = dec_call(req[1:])
        nh = int(str({str(x[0]): x[1:] for x in req[1:]}['nh'][0]))
        return [(files, w, delays)], nh, [orders]
    assert op == 'session'
    nh = int(str(req[1][1]))
    assert str(req[1][0]) == 'nh'
    calls, orders = [], []
    for c in req[2:]:
        assert str(c[0]) == 'call'
        files, w, o, delays = dec_call(c[1:])
        calls.append((files, w, delays))
        orders.append(o)
    return calls, nh, orders


def enc_session(calls, orders):
    return [A('session'), [A('nh'), 3]] + [
        [A('call'), [A('files')] + [[A('f'), i, A(k), list(fl)] for i, k, fl in files], [A('w'), w],
         [A('orders')] + [list(o) for o in os_], [A('delays')] + list(delays)]
        for (files, w, delays), os_ in zip(calls, orders)]


def enc(files, w, orders, delays):
    return [A('lint'),
            [A('files')] + [[A('f'), i, A(k), list(fl)] for i, k, fl in files],
            [A('nh'), 3], [A('w'), w],
            [A('orders')] + [list(o) for o in orders],
            [A('delays')] + list(delays)]


def fname(i):
    return f'f{i:02d}.F90'


def fid(name):
    m = re.search(r'f(\d\d)\.F90', str(name))
    return int(m.group(1)) if m else -1


def ftext(i, kind, flags):
    if kind == 'bad':
        return [f'module m{i:02d}\n  subroutine oops(\nend module\n', f'subroutine s{i:02d}\n integer :: a\n a = = 1\nend subroutine\n',
                'this is not fortran (((\n'][i % 3]
    lines = [f'module m{i:02d}', '  implicit none', 'contains']
    for j, b in enumerate(flags):
        name = f'bad{i:02d}_{j}' if b else f'r{i:02d}_{j}'
        args = ', '.join(f'a{k}' for k in range(1 + (i + j) % 7))
        lines += [f'  subroutine {name}({args})']
        if (i + j) % 3:
            lines += ['    implicit none']
        lines += [f'    real, intent(inout) :: {args}',
                  f'    if (a0 .{"gt" if (i + j) % 2 else "lt"}. 0.0) a0 = a0 + {j}.0' if (i * 3 + j) % 4 == 0 else f'    a0 = a0 + {j}.0',
                  f'  end subroutine {name}']
    lines += [f'end module m{i:02d}', '']
    return '\n'.join(lines)


# ------------------------------------------------------------------ real runs

def write_sources(src, files):
    src.mkdir()
    for i, kind, flags in files:
        (src / fname(i)).write_text(ftext(i, kind, flags))


def rules_and_config(files, delays, log):
    rules = [C42SleepRule, C42ModuleRule] + BUILTIN + [C42EndRule]
    config = {'C42SleepRule': {'delays': {fname(f[0]): d for f, d in zip(files, delays)}, 'log': str(log)},
              'C42EndRule': {'log': str(log)}}
    return rules, config


def _child_lint(tmp, calls):
    """forked child: ONE Linter/Reporter with three real handlers, one lint_files_glob call per element of ``calls``
    (files, workers, delays), then Reporter.output().  A single call lints ``src``, several calls lint ``src/c<j>``."""
    ll.logger.setLevel(logging.CRITICAL + 1)
    src = tmp / 'src'
    log = tmp / 'events.log'
    log.write_text('')
    if len(calls) == 1:
        dirs = [src]
        write_sources(src, calls[0][0])
    else:
        src.mkdir()
        dirs = [src / f'c{j}' for j in range(len(calls))]
        for d, (files, _, _) in zip(dirs, calls):
            write_sources(d, files)
    allfiles = [f for files, _, _ in calls for f in files]
    alldelays = [d for _, _, delays in calls for d in delays]
    rules, config = rules_and_config(allfiles, alldelays, log)
    out = dict(error=None, count=None, counts=[], raw=None, snaps=[], default=None, junit=None, viol=None, events=[])
    try:
        handlers = [TagDefault(target=LineFile(tmp / 'default.txt').write, immediate_output=False, basedir=str(src)),
                    JunitXmlHandler(target=LazyTextfile(tmp / 'junit.xml').write, basedir=str(src)),
                    TagViolation(target=LazyTextfile(tmp / 'viol.yml').write, basedir=str(src), use_line_hashes=True)]
        linter = Linter(reporter=Reporter(handlers), rules=rules, config=config)

        def snapshot():
            raw = []
            for handler, reports in linter.reporter.handlers_reports.items():
                raw.append((type(handler).__name__, [reports[k] for k in range(len(reports))]))
            return raw
        for d, (files, w, _) in zip(dirs, calls):
            out['counts'].append(lint_files_glob(linter, str(d), ['*.F90'], max_workers=w))
            out['snaps'].append([[str(e[0]) for e in l] for _, l in snapshot()])    # file names per handler after this call
        out['count'] = sum(out['counts'])
        out['raw'] = snapshot()
        linter.reporter.output()
        # no harness-side flush/close here: the files are read exactly as Reporter.output() left them (LazyTextfile.write
        # flushes since the fix: commit for class parallel-output-lost; before it they were empty at this point in the
        # parallel path)
    except BaseException as e:     # noqa
        out['error'] = type(e).__name__ + ': ' + str(e)[:200]
    for key, fn in (('default', 'default.txt'), ('junit', 'junit.xml'), ('viol', 'viol.yml')):
        p = tmp / fn
        out[key] = p.read_text() if p.exists() else None
    out['events'] = [l.split() for l in log.read_text().splitlines() if l.strip()]
    return out


def cli_main(spec):
    """body of the stand-alone process used by cli_lint: the public entry point lint_files, then a normal exit"""
    with open(spec, 'rb') as fh:
        tmp, files, w, delays = pickle.load(fh)
    ll.logger.setLevel(logging.CRITICAL + 1)
    tmp = Path(tmp)
    src = tmp / 'src'
    write_sources(src, files)
    rules, config = rules_and_config(files, delays, tmp / 'events.log')
    config.update(basedir=str(src), include=['*.F90'], max_workers=w, junitxml_file=str(tmp / 'junit.xml'),
                  violations_file=str(tmp / 'viol.yml'))
    n = lint_files(rules, config)
    (tmp / 'count.txt').write_text(str(n))


def cli_lint(files, w, delays):
    """lint_files(...) in a fresh interpreter that then exits; returns what is on disk afterwards"""
    import subprocess
    tmp = Path(tempfile.mkdtemp(prefix='verif_c42cli_'))
    try:
        spec = tmp / 'spec.pkl'
        with open(spec, 'wb') as fh:
            pickle.dump((str(tmp), files, w, delays), fh)
        verif = str(Path(__file__).resolve().parent.parent.parent)
        code = f'import sys; sys.path.insert(0, {verif!r}); from harness.props.c42 import cli_main; cli_main(sys.argv[1])'
        try:
            p = subprocess.run([sys.executable, '-W', 'ignore', '-c', code, str(spec)], stdout=subprocess.DEVNULL,
                               stderr=subprocess.PIPE, text=True, timeout=RUN_TIMEOUT, start_new_session=True)
        except subprocess.TimeoutExpired:
            return dict(error='timeout')
        if p.returncode != 0 or not (tmp / 'count.txt').exists():
            return dict(error='exit %d: %s' % (p.returncode, p.stderr[-300:]))
        res = dict(error=None, count=int((tmp / 'count.txt').read_text()), default=None, raw=None, events=[],
                   junit=(tmp / 'junit.xml').read_text() if (tmp / 'junit.xml').exists() else None,
                   viol=(tmp / 'viol.yml').read_text() if (tmp / 'viol.yml').exists() else None)
    finally:
        shutil.rmtree(tmp, ignore_errors=True)
    return normalise(res)


def isolated(fn, resfile, timeout=RUN_TIMEOUT):
    pid = os.fork()
    if pid == 0:
        code = 0
        try:
            os.setsid()
            dn = os.open(os.devnull, os.O_RDWR)
            os.dup2(dn, 0)
            os.dup2(dn, 1)
            os.dup2(dn, 2)
            try:
                res = ('ok', fn())
            except BaseException as e:   # noqa
                res = ('exc', type(e).__name__ + ': ' + str(e)[:300])
            with open(str(resfile) + '.tmp', 'wb') as fh:
                pickle.dump(res, fh)
            os.rename(str(resfile) + '.tmp', str(resfile))
        except BaseException:            # noqa
            code = 3
        finally:
            os._exit(code)
    end = time.time() + timeout
    timed_out = False
    while True:
        done, _ = os.waitpid(pid, os.WNOHANG)
        if done:
            break
        if time.time() > end:
            timed_out = True
            break
        time.sleep(0.004)
    try:
        os.killpg(pid, signal.SIGKILL)
    except (ProcessLookupError, PermissionError):
        pass
    if timed_out:
        try:
            os.waitpid(pid, 0)
        except ChildProcessError:
            pass
        return ('exc', 'timeout')
    try:
        with open(resfile, 'rb') as fh:
            return pickle.load(fh)
    except Exception as e:
        return ('exc', 'no-result ' + type(e).__name__)


def norm_junit_entry(entry):
    """(filename, [(kwargs, messages)]) -> (file id, [(rule, classname stem, messages)]) without timings/paths"""
    filename, cases = entry
    out = []
    for kwargs, messages in cases:
        out.append((kwargs['name'], Path(str(kwargs['classname'])).name, tuple(norm_msg(m) for m in messages)))
    return (fid(filename), tuple(out))


def norm_msg(m):
    m = str(m)
    m = re.sub(r'/\S*/src/', '', m)            # absolute tmp paths (error reports are not made relative)
    return m


def real_lint(calls):
    """calls = [(files, workers, delays)] on one linter/reporter"""
    tmp = Path(tempfile.mkdtemp(prefix='verif_c42_'))
    try:
        tag, res = isolated(lambda: _child_lint(tmp, calls), tmp / 'result.pkl')[:2]
    finally:
        shutil.rmtree(tmp, ignore_errors=True)
    if tag != 'ok':
        return dict(error='harness:' + str(res))
    if res['error']:
        return res
    res = normalise(res)
    # per call: the entries each handler list gained for the files of that call, in list order (from the final lists)
    res['call_orders'] = []
    res['call_stats'] = []
    for files, w, _ in calls:
        ids = {f[0] for f in files}
        res['call_orders'].append([[i for i in o if i in ids] for o in res['orders']])
        ev = [e for e in res['events'] if fid(e[1]) in ids]
        cur = top = 0
        for e in ev:
            if e[0] == 'b':
                cur += 1
                top = max(top, cur)
            elif e[0] == 'e':
                cur -= 1
        res['call_stats'].append((top, len({e[2] for e in ev if e[0] == 'b'})))
    return res


def normalise(res):
    res.setdefault('raw', None)
    res['n_default'] = sorted(norm_msg(l) for l in (res['default'] or '').splitlines() if l.strip())
    try:
        res['n_viol'] = yaml.safe_load(res['viol']) if res['viol'] else {}
    except yaml.YAMLError as e:
        res['n_viol'] = 'unparsable yaml: ' + str(e)[:100]
    nj = {}
    dup = []
    if res['junit']:
        root = ET.fromstring(res['junit'])
        for suite in root.iter('testsuite'):
            key = fid(suite.get('name'))
            cases = sorted((tc.get('name'), Path(tc.get('classname') or '').name,
                            tuple(sorted(norm_msg(f.get('message') or '') for f in tc.findall('failure'))))
                           for tc in suite.findall('testcase'))
            if key in nj:
                dup.append(key)
            nj[key] = cases
        res['junit_order'] = [fid(s.get('name')) for s in root.iter('testsuite')]
    res['n_junit'] = nj
    res['junit_dup'] = dup
    if res['raw'] is not None:
        names = [n for n, _ in res['raw']]
        lists = [l for _, l in res['raw']]
        res['handler_names'] = names
        res['orders'] = [[fid(e[0]) for e in l] for l in lists]
        res['n_raw'] = [sorted([repr((fid(e[0]), [norm_msg(m) for m in e[1]])) for e in lists[0]]),
                        sorted([repr(norm_junit_entry(e)) for e in lists[1]]),
                        sorted([repr((fid(e[0]), norm_msg(e[1]))) for e in lists[2]])]
        res['junit_raw'] = [norm_junit_entry(e) for e in lists[1]]
    res['pids'] = sorted({e[2] for e in res['events'] if e[0] == 'b'})
    cur = top = 0
    for e in res['events']:
        if e[0] == 'b':
            cur += 1
            top = max(top, cur)
        elif e[0] == 'e':
            cur -= 1
    res['max_overlap'] = top
    return res


def reports_of(junit_raw):
    """per-file reports as the driver prints them: (id ok j…) / (id error), sorted by id"""
    out = []
    for i, cases in sorted(junit_raw):
        mine = [c for c in cases if c[0] == 'C42SleepRule']
        if mine:
            idx = sorted(int(re.search(r'routine bad\d+_(\d+) is flagged', m).group(1)) for m in mine[0][2])
            out.append([i, A('ok')] + idx)
        else:
            out.append([i, A('error')])
    return out


class C42(Prop):
    id = 'C42'
    title = 'Lint results do not depend on parallelism or completion order'
    model_modules = ['LokiModel.C42.Model']
    props_module = 'LokiModel.Props.C42'
    driver = 'Drivers/C42.lean'
    theorems = ['C42_each_once', 'C42_handlers_perm', 'C42_per_file', 'C42_count', 'C42_workers_independent',
                'C42_progress', 'C42_serial_run', 'C42_accept_sound', 'C42_disk']
    design_ref = 'DESIGN.md 4.G C42'
    findings_module = 'LokiModel.Findings.C42'
    level = 'proof'
    level_text = (
        'Lean theorems about a transition-system model of lint_files_glob / check_and_fix_file / Reporter.add_file_report '
        '(files pending/running/done, w workers, per running file a counter of handlers already served because '
        'add_file_report appends to one handler list after the other; events start / append / finish in any interleaving), '
        'for EVERY file list, per-file lint function (report or error), handler functions, worker count and reachable state: '
        'C42_each_once (pending+running+done is always a permutation of the files; in a final state the completion order '
        'and the files appended to each handler are permutations of the file list), C42_handlers_perm (every final handler '
        'list is a permutation of files.map (handle o lint), i.e. of the serial result), C42_per_file (same for any '
        'per-file selection), C42_count (checked_count = number of successful files), C42_workers_independent (any two sessions - sequences of '
        'lint_files_glob calls with arbitrary worker counts on ONE reporter, the model call event keeps the accumulated lists as '
        'Reporter.init_parallel does - that submit the same files end with equal counts and permutation-equal handler lists), C42_progress (no deadlock), C42_serial_run (the '
        'serial loop is a run ending with done = files), C42_accept_sound (a replayed event list is a run), C42_disk (what is on '
        'disk after Reporter.output is a permutation of the serial result for every w - full strength since the fix: commit for '
        'parallel-output-lost, the former behaviour is kept in Findings/C42.lean) - all at full strength by an inductive invariant. Tied to the code by trace validation: real lint runs with 1..8 workers on '
        'generated file sets incl. unparsable files and multi-call sessions on one Linter/Reporter (serial then parallel, parallel '
        'then parallel, ...), completion order perturbed by a sleeping harness rule; the Lean driver '
        'must construct a run whose per-handler list orders equal the observed ones (FIFO starts, worker bound) and its '
        'per-file reports and count must equal the real ones; a Python oracle compares the normalised outputs of the three '
        'real handlers (text, JUnit XML, violations YAML), the raw handler lists and the count of each parallel run with a '
        'serial run, and checks exactly-once and the worker bound.')
    level_note = (
        'Partial. The per-file function lint is abstract in the theorems (determinism of Linter.check / rules on one file is '
        'an assumption, exercised but not proved); handler.handle and output formatting are abstract functions. Exhibited '
        'only by the real runs: multiprocessing.Manager dict/list proxies (atomicity of ListProxy.append, handlers pickled as '
        'dict keys), pickling of the linter and of handle results into/out of workers, ProcessPoolExecutor FIFO queue and '
        'OS scheduling, logging through the queue listener, the scheduler-based path lint_files_scheduler, --fix. The model '
        'is hand-written.')
    technique = 'Lean 4 invariant proof over all interleavings of a transition system + trace validation of real lint runs'
    rule = ('random file sets (1..10 files, each parsable with 1..4 routines of which some are flagged and some trigger built-in '
            'IFS rules, or unparsable in one of three ways), w in 1..8, seed-derived per-file delays 0..40 ms (random / '
            'reverse-staggered / zero); non-trivial = w >= 2, at least two worker processes took part and some handler order '
            'differs from the file order; distinct by (files, w, delays)')
    trusted_base = ['harness/props/c42.py (sleep rule, tagging handler subclasses, normalisation of handler outputs)',
                    'Lean driver evaluation of model definitions (acceptEvents is re-checked by replay)', 'PyYAML, ElementTree']
    assumptions = ['Linter.check on one file is a deterministic function of the file (no state shared between files)',
                   'ListProxy.append is atomic and the list order is the order of the appends',
                   'ProcessPoolExecutor hands queued calls to workers in submission order (FIFO), one call per worker at a time']
    extra_obligations = ['acceptance: the observed per-handler orders of every real run are a run of the model',
                         'reports/count: per-file reports and checked_count of every real run equal the model',
                         'oracle: parallel = serial for all three real handler outputs, raw lists, count; exactly-once; worker bound']

    def __init__(self):
        self._runs = {}

    @staticmethod
    def key(calls, via=False):
        return repr((calls, via))

    def run(self, calls, via=False):
        """via=False: forked child, one Linter + one lint_files_glob per call; via=True (single call only): lint_files in
        a fresh interpreter that exits"""
        k = self.key(calls, via)
        if k not in self._runs:
            self._runs[k] = cli_lint(*calls[0]) if via else real_lint(calls)
        return self._runs[k]

    @staticmethod
    def gen_files(rng, ids):
        files = []
        for i in ids:
            if rng.random() < 0.18:
                files.append((i, 'bad', []))
            else:
                files.append((i, 'ok', [int(rng.random() < 0.35) for _ in range(rng.randint(1, 4))]))
        return files

    @staticmethod
    def gen_delays(rng, n):
        style = rng.choice(['rand', 'rand', 'reverse', 'zero'])
        if style == 'zero':
            return [0] * n
        if style == 'reverse':
            return [8 * (n - k) for k in range(n)]
        return [rng.choice([0, 0, 5, 10, 20, 40]) for _ in range(n)]

    def gen(self, rng, tier):
        n_cases = {'quick': 6, 'thorough': 24, 'search': 14}.get(tier, 6)
        n_sessions = {'quick': 3, 'thorough': 12, 'search': 8}.get(tier, 3)
        for _ in range(n_cases):
            n = rng.randint(1, 10 if tier != 'quick' else 8)
            ids = sorted(rng.sample(range(30), n))
            files = self.gen_files(rng, ids)
            w = rng.choice([1, 2, 2, 3, 4, 5, 8])
            delays = self.gen_delays(rng, n)
            calls = [(files, w, delays)]
            run = real_lint(calls)
            self._runs[self.key(calls)] = run
            orders = run.get('orders') or []
            req = enc(files, w, orders, delays)
            nontriv = w >= 2 and len(run.get('pids', [])) >= 2 and any(o != ids for o in orders)
            yield Case(req, stream='w1' if w == 1 else 'parallel', nontrivial=nontriv, key=repr(calls))
        # sessions: several lint_files_glob calls with different worker counts on ONE linter/reporter, then output()
        patterns = [[1, 2], [2, 1], [2, 3], [1, 3, 1], [2, 1, 2], [1, 1, 4], [3, 2]]
        for k in range(n_sessions):
            ws = patterns[k % len(patterns)] if k < len(patterns) else [rng.choice([1, 2, 3, 4]) for _ in range(rng.randint(2, 4))]
            pool = rng.sample(range(40), 40)
            calls = []
            for w in ws:
                n = rng.randint(1, 4)
                ids = sorted(pool[:n])
                pool = pool[n:]
                calls.append((self.gen_files(rng, ids), w, self.gen_delays(rng, n)))
            run = real_lint(calls)
            self._runs[self.key(calls)] = run
            orders = run.get('call_orders') or [[] for _ in calls]
            yield Case(enc_session(calls, orders), stream='session', nontrivial=any(w >= 2 for w in ws), key=repr(calls))

    def impl(self, req):
        calls, nh, orders = dec(req)
        run = self.run(calls)
        if run.get('error'):
            return [A('error'), A('lint-failed'), run['error']]
        return [A('ok'), [A('accepted'), True], [A('count'), run['count']],
                [A('reports')] + reports_of(run['junit_raw']),
                [A('same-multiset'), True]]

    def oracle(self, req):
        calls, nh, orders = dec(req)
        allfiles = [f for files, _, _ in calls for f in files]
        ids = sorted(f[0] for f in allfiles)
        if not (calls and all(files and w >= 1 and len(delays) == len(files) and [f[0] for f in files] == sorted(f[0] for f in files)
                              for files, w, delays in calls)
                and len(set(ids)) == len(ids) and all(0 <= i < 100 for i in ids)
                and all(k in ('ok', 'bad') for _, k, _ in allfiles) and all(fl or k == 'bad' for _, k, fl in allfiles)):
            raise ValueError('ill-formed request (not a generated input)')
        ws = [w for _, w, _ in calls]
        wdesc = f'{ws[0]} workers' if len(ws) == 1 else f'worker counts {ws} on one linter'
        par = self.run(calls)
        if par.get('error'):
            return [Failure(f'real lint run with {wdesc} raised {par["error"]}')]
        sercalls = [(files, 1, delays) for files, _, delays in calls]
        ser = self.run(sercalls) if any(w != 1 for w in ws) else par
        if ser.get('error'):
            return [Failure(f'real lint run with one worker raised {ser["error"]}')]
        fails = []
        n_ok = sum(1 for _, k, _ in allfiles if k == 'ok')
        for what, r, rws in ((f'run with {wdesc}', par, ws), ('run with one worker', ser, [1] * len(ws))):
            for h, o in zip(r['handler_names'], r['orders']):
                if sorted(o) != ids:
                    fails.append(Failure(f'{what}: list of {h} has entries for files {o}, expected each of {ids} exactly once'))
            if r['junit_dup'] or sorted(r['n_junit']) != ids:
                fails.append(Failure(f'{what}: JUnit XML has suites for {sorted(r["n_junit"])} (duplicates {r["junit_dup"]}), expected {ids}'))
            if r['count'] != n_ok:
                fails.append(Failure(f'{what}: checked_count = {r["count"]}, {n_ok} files are parsable'))
            for j, ((top, npids), ww) in enumerate(zip(r['call_stats'], rws)):
                if top > max(ww, 1) or npids > max(ww, 1):
                    fails.append(Failure(f'{what}: call {j}: {top} checks overlapped in {npids} processes with {ww} workers'))
        for j, ((files, _, _), co) in enumerate(zip(calls, ser['call_orders'])):
            if any(o != [f[0] for f in files] for o in co):
                fails.append(Failure(f'run with one worker: call {j}: handler lists {co} are not in file order'))
        for name in ('n_default', 'n_viol', 'n_junit', 'count'):
            if par[name] != ser[name]:
                fails.append(Failure(f'{name[2:] if name != "count" else name} output of the run with {wdesc} differs from the run '
                                     f'with one worker: {str(par[name])[:300]} vs {str(ser[name])[:300]}'))
        for k, h in enumerate(par['handler_names']):
            if par['n_raw'][k] != ser['n_raw'][k]:
                fails.append(Failure(f'list of {h} of the run with {wdesc} is not a permutation of the one-worker one'))
        # the public entry point lint_files in a stand-alone process (config keys junitxml_file / violations_file,
        # LazyTextfile targets): what is on disk after the process has exited
        if len(calls) == 1 and self.wants_cli(calls[0][0], ws[0]):
            files, w, delays = calls[0]
            api = self.run(calls, True)
            if api.get('error'):
                fails.append(Failure(f'lint_files with {w} workers in a stand-alone process failed: {api["error"]}'))
            else:
                if api['count'] != ser['count']:
                    fails.append(Failure(f'lint_files(max_workers={w}) returned {api["count"]}, the serial run {ser["count"]}'))
                for name, raw in (('n_junit', 'junit'), ('n_viol', 'viol')):
                    if api[name] != ser[name]:
                        lost = not (api[raw] or '').strip() and bool((ser[raw] or '').strip())
                        fails.append(Failure(
                            f'lint_files(max_workers={w}) in a stand-alone process: {raw} file on disk after exit '
                            + ('is EMPTY' if lost else f'differs: {str(api[name])[:200]}')
                            + f'; the serial run wrote {len(ser[raw] or "")} characters ({str(ser[name])[:120]}...)',
                            None))
        # ground truth from the generator for the harness rule
        exp = [[i, A('ok')] + [j for j, b in enumerate(fl) if b] if k == 'ok' else [i, A('error')]
               for i, k, fl in sorted(allfiles)]
        if reports_of(par['junit_raw']) != exp:
            fails.append(Failure(f'run with {wdesc} reports {reports_of(par["junit_raw"])}, the files contain {exp}'))
        return fails

    @staticmethod
    def wants_cli(files, w):
        """the stand-alone-process run costs an interpreter start: done for a deterministic third of the inputs"""
        return sum(f[0] for f in files) % 3 == 0

    def classes(self):
        return []        # parallel-output-lost is fixed (known_findings.json); nothing is tolerated any more


PROP = C42()
READY = True
