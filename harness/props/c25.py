"""C25 — Renaming, duplicating and removing items keeps the scheduler graph consistent.

Request = (ops (oplist <op>…) (project (cinc b) (units …) (routines …) (config …))).
``gen`` draws a project with the C22 project generator (call DAG over routines placed in modules / as free routines in
files, header modules), renders it with its own renderer (free callees optionally declared through
``#include "x.intfb.h"``, module variables imported by name), and a sequence of 1-4 operations
    (dup k sub suffix msuffix)   DuplicateKernel(duplicate_kernels=k, duplicate_suffix, duplicate_module_suffix, duplicate_subgraph)
    (rem k)                      RemoveKernel(remove_kernels=k)
    (wrap msuffix)               ModuleWrapTransformation(module_suffix)
    (dep suffix msuffix)         DependencyTransformation(suffix, module_suffix)
``impl`` writes the project into a mkdtemp directory and runs the real Scheduler twice: planning mode (REGEX frontend,
full_parse=False, ProcessingStrategy.PLAN) and conversion mode (FP, full parse, SEQUENCE, FileWriteTransformation at the
end); after every operation it exports (graph items, dependencies, item-cache keys); the conversion run also exports the
program units defined / referenced by the written files.  The Lean driver computes the same from the project spec alone.
"""
import re
import shutil
import subprocess
import tempfile
from pathlib import Path

import networkx as nx

from loki import Scheduler, SchedulerConfig, Transformation, ProcessingStrategy
from loki.batch import ExternalItem, FileItem, ProcedureItem, ModuleItem
from loki.frontend import REGEX, FP
from loki.transformations.build_system import (FileWriteTransformation, DependencyTransformation,
                                               ModuleWrapTransformation)
from loki.transformations.dependency import DuplicateKernel, RemoveKernel
import loki.logging as _ll

from ..core import Prop, Case, Failure
from ..sexpr import A, dumps
from . import c22
from .c22 import b, ob, ostr, dstr, field

_ll.set_log_level(_ll.ERROR)

ROOT = '$R'


# ------------------------------------------------------------------ project (ground truth) and its rendering

def home_of(proj):
    """routine name -> module name or None"""
    h = {}
    for _, kind, name, rs in proj['units']:
        for i in rs:
            h[i] = name if kind == 'mod' else None
    return h


def gen_project(rng):
    """C22 call DAG / placement, restricted to what C25 models: no unresolved externals, no typedef imports, no
    internal procedures; module variables are imported from header modules and (rarely) from kernel modules"""
    proj = c22.gen_project(rng, cyc_bias=0.0)
    for u in proj['units']:         # C25 keeps routine names (not indices) in the units, so that names can be decorated
        u[3] = [f'r{i}' for i in u[3]]
    nf = max(u[0] for u in proj['units']) + 1
    if rng.random() < 0.7:
        # one top-level program unit per file (the usual layout of the code bases Loki is applied to)
        for i, u in enumerate(proj['units']):
            u[0] = i
    else:
        # header modules always get a file of their own (a header in a kernel file makes the file graph cyclic)
        for u in proj['units']:
            if u[1] == 'mod' and not u[3]:
                u[0] = nf
                nf += 1
    kmods = [u[2] for u in proj['units'] if u[1] == 'mod' and u[3]]
    hmods = [u[2] for u in proj['units'] if u[1] == 'mod' and not u[3]]
    home = home_of(proj)
    fof = {}
    for f, kind, name, rs in proj['units']:
        for i in rs:
            fof[i] = f
    kvar = rng.random() < 0.25
    for r in proj['routines']:
        r['ext'], r['xmod'], r['uset'], r['member'] = [], False, [], False
        usev = [m for m in r['usev'] if m in hmods]
        if kvar:
            # a variable of a kernel module further down the call tree (keeps the file graph acyclic)
            usev += [home[c] for c in r['calls'] if home[c] is not None and home[c] != home[r['name']]
                     and fof[c] != fof[r['name']] and rng.random() < 0.5]
        r['usev'] = list(dict.fromkeys(usev))
    proj['cinc'] = rng.random() < 0.6
    return proj


def gen_config(rng, proj):
    names = [r['name'] for r in proj['routines']]
    home = home_of(proj)
    cfg = dict(strict=rng.random() < 0.5, dmode='idem', ddisable=[], dignore=[], routines=[], seeds=['r0'])
    if rng.random() < 0.2 and len(names) > 2:
        cfg['seeds'].append(rng.choice(names[1:]))
    cfg['seeds'] = [f"{home[n] or ''}#{n}" for n in cfg['seeds']]
    for r in proj['routines']:
        ent = {}
        if r['name'] == 'r0' or rng.random() < 0.04:
            ent['role'] = 'driver'
        if ent:
            cfg['routines'].append([r['name'], ent])
    return cfg


def routine_text(r, home, cinc):
    me = home[r['name']]
    lines = [f"subroutine {r['name']}(x)"]
    by_mod = {}
    for c in r['calls']:
        m = home.get(c)
        if m is not None and m != me:
            by_mod.setdefault(m, []).append(c)
    for m in r['usev']:
        if m != me:
            by_mod.setdefault(m, []).append(f'v_{m}')
    for m, syms in by_mod.items():
        lines.append(f"  use {m}, only: {', '.join(syms)}")
    lines.append('  implicit none')
    lines.append('  integer, intent(inout) :: x')
    if cinc:
        for c in r['calls']:
            if home.get(c) is None:
                lines.append(f'#include "{c}.intfb.h"')
    for c in r['calls']:
        lines.append(f'  call {c}(x)')
    for m in r['usev']:
        lines.append(f'  x = x + v_{m}')
    lines.append('  x = x + 1')
    lines.append(f"end subroutine {r['name']}")
    return '\n'.join(lines) + '\n'


def intfb_text(name):
    return (f'interface\nsubroutine {name}(x)\n  implicit none\n  integer, intent(inout) :: x\n'
            f'end subroutine {name}\nend interface\n')


def write_project(proj, root):
    home = home_of(proj)
    rmap = {r['name']: r for r in proj['routines']}
    files = {}
    src = Path(root) / 'src'
    src.mkdir(parents=True, exist_ok=True)
    (Path(root) / 'build').mkdir(exist_ok=True)
    for f, kind, name, rs in proj['units']:
        if kind == 'mod':
            txt = [f'module {name}', '  implicit none', f'  integer :: v_{name} = 1']
            if rs:
                txt.append('contains')
                for i in rs:
                    txt.append(routine_text(rmap[i], home, proj['cinc']))
            txt.append(f'end module {name}')
            files.setdefault(f, []).append('\n'.join(txt) + '\n')
        else:
            for i in rs:
                files.setdefault(f, []).append(routine_text(rmap[i], home, proj['cinc']))
                if proj['cinc']:
                    (src / f'{i}.intfb.h').write_text(intfb_text(i))
    for f, parts in files.items():
        (src / f'f{f}.F90').write_text('\n'.join(parts))


def project_sexp(proj, cfg):
    units = [[u[0], A(u[1]), ostr(u[2]), [A(i) for i in u[3]]] for u in proj['units']]
    rts = [[A(r['name']), [A(c) for c in r['calls']], [A(c) for c in r['usev']]] for r in proj['routines']]
    ents = []
    for name, ent in cfg['routines']:
        ents.append([A(name)] + [[A(k)] + ([v] if isinstance(v, str) else [A(x) for x in v])
                                 for k, v in sorted(ent.items())])
    return [A('project'), [A('cinc'), b(proj['cinc'])], [A('units')] + units, [A('routines')] + rts,
            [A('config'), b(cfg['strict']), [A(x) for x in cfg['seeds']]] + ents]


def project_from_sexp(px):
    units = [[int(str(u[0])), str(u[1]), dstr(u[2]), [str(r) for r in u[3]]] for u in field(px, 'units')]
    for u in units:
        if u[1] not in ('mod', 'free') or (u[1] == 'mod') != (u[2] is not None) or (u[1] == 'free' and len(u[3]) != 1):
            raise ValueError('malformed unit')
    routines = [dict(name=str(r[0]), calls=[str(c) for c in r[1]], usev=[str(c) for c in r[2]], ext=[], uset=[],
                     xmod=False, member=False) for r in field(px, 'routines')]
    names = [r['name'] for r in routines]
    placed = sorted(i for u in units for i in u[3])
    if sorted(names) != placed or len(set(names)) != len(names):
        raise ValueError('routines and units disagree')
    mods = {u[2] for u in units if u[1] == 'mod'}
    for r in routines:
        if any(c not in names for c in r['calls']) or any(m not in mods for m in r['usev']):
            raise ValueError('dangling name in project')
    c = field(px, 'config')
    cfg = dict(strict=ob(c[0]), dmode='idem', ddisable=[], dignore=[], seeds=[str(x) for x in c[1]], routines=[])
    for e in c[2:]:
        ent = {}
        for kv in e[1:]:
            k = str(kv[0])
            ent[k] = str(kv[1]) if k in ('role', 'mode') else [str(x) for x in kv[1:]]
        cfg['routines'].append([str(e[0]), ent])
    proj = dict(units=units, routines=routines, cinc=ob(field(px, 'cinc')[0]))
    return proj, cfg


def make_config(cfg):
    default = {'role': 'kernel', 'expand': True, 'strict': cfg['strict'], 'enable_imports': True, 'mode': 'idem'}
    routines = {}
    for name, ent in cfg['routines']:
        routines[name] = {k: (v if isinstance(v, str) else list(v)) for k, v in ent.items()}
    return SchedulerConfig.from_dict({'default': default, 'routines': routines})


# ------------------------------------------------------------------ operations

def op_sexp(op):
    k = op[0]
    if k == 'dup':
        return [A('dup'), A(op[1]), b(op[2]), op[3], ostr(op[4])]
    if k == 'rem':
        return [A('rem'), A(op[1])]
    if k == 'wrap':
        return [A('wrap'), op[1]]
    if k == 'dep':
        return [A('dep'), op[1], ostr(op[2])]
    raise ValueError(k)


def op_from_sexp(x):
    k = str(x[0])
    if k == 'dup' and len(x) == 5:
        return ['dup', str(x[1]), ob(x[2]), str(x[3]), dstr(x[4])]
    if k == 'rem' and len(x) == 2:
        return ['rem', str(x[1])]
    if k == 'wrap' and len(x) == 2:
        return ['wrap', str(x[1])]
    if k == 'dep' and len(x) == 3:
        return ['dep', str(x[1]), dstr(x[2])]
    raise ValueError(f'malformed op {x}')


def make_op(op, root):
    k = op[0]
    if k == 'dup':
        return DuplicateKernel(duplicate_kernels=(op[1],), duplicate_suffix=op[3], duplicate_module_suffix=op[4],
                               duplicate_subgraph=op[2])
    if k == 'rem':
        return RemoveKernel(remove_kernels=(op[1],))
    if k == 'wrap':
        return ModuleWrapTransformation(module_suffix=op[1])
    if k == 'dep':
        return DependencyTransformation(suffix=op[1], module_suffix=op[2], include_path=Path(root) / 'build')
    raise ValueError(k)


def _residual_listed():
    from ..core import load_known
    try:
        return any(k['property'] == 'C25' and k['class'] == 'dep-module-suffix-changed' for k in load_known())
    except Exception:  # pylint: disable=broad-except
        return False


RESIDUAL_LISTED = _residual_listed()


def gen_ops(rng, proj):
    names = [r['name'] for r in proj['routines']]
    callees = sorted({c for r in proj['routines'] for c in r['calls']}) or names[1:] or names
    n = rng.choice([1, 1, 2, 2, 3, 4])
    ops = []
    realistic = rng.random() < 0.6
    for i in range(n):
        if realistic:
            # duplications / removals first, then module wrapping, then dependency injection (loki_transform order)
            stage = i / n
            kind = rng.choice(['dup', 'dup', 'rem']) if stage < 0.5 and n > 1 else rng.choice(['wrap', 'dep', 'dep'])
            if i == n - 1 and n > 1:
                kind = 'dep'
            if n > 2 and i == n - 2:
                kind = 'wrap'
        else:
            kind = rng.choice(['dup', 'rem', 'wrap', 'dep'])
        if kind == 'dup':
            suf = rng.choice(['_dup'] * 10 + ['_d2'] * 8 + ['_D'])
            ops.append(['dup', rng.choice(callees), rng.random() < 0.5, suf, rng.choice([None, '_dm', suf])])
        elif kind == 'rem':
            ops.append(['rem', rng.choice(callees)])
        elif kind == 'wrap':
            ops.append(['wrap', rng.choice(['_mod', '_mod', '_w'])])
        else:
            ops.append(['dep', rng.choice(['_x', '_x', '_loki']), rng.choice(['_mod', '_mod', None])])
    if dep_mod_suffix_changed(ops) and not RESIDUAL_LISTED:
        # class dep-module-suffix-changed is proposed, not listed yet: repeat the first module suffix
        first = {}
        for o in ops:
            if o[0] == 'dep':
                o[2] = first.setdefault(o[1], o[2])
    return ops


def gen_family(rng):
    """the families of the strengthening round: suffix renaming (optionally after wrapping) of a project in which a
    kernel module keeps a routine outside the graph (removed as inactive, its cache entry must go) and some names contain
    the suffix; one top-level unit per file"""
    for _ in range(60):
        proj = gen_project(rng)
        for i, u in enumerate(proj['units']):
            u[0] = i
        big = [u for u in proj['units'] if u[1] == 'mod' and len(u[3]) >= 2 and 'r0' not in u[3]]
        if big and all(len(u[3]) == 1 for u in proj['units'] if 'r0' in u[3]):
            break
    for u in big[:1]:
        victim = u[3][-1]
        for r in proj['routines']:
            r['calls'] = [c for c in r['calls'] if c != victim]
    for r in proj['routines']:      # no variable imports from kernel modules (known class retained-module)
        hm = {u[2] for u in proj['units'] if u[1] == 'mod' and not u[3]}
        r['usev'] = [m for m in r['usev'] if m in hm]
    cfg = gen_config(rng, proj)
    cfg['seeds'] = cfg['seeds'][:1]
    cfg['routines'] = [e for e in cfg['routines'] if e[0] == 'r0']
    dep = ['dep', rng.choice(['_x', '_gpu', '_t']), rng.choice(['_mod', '_mod', None])]
    ops = rng.choice([[dep], [dep], [['wrap', '_mod'], dep]])
    if len(ops) == 2:
        proj['cinc'] = True
    return decorate(rng, proj, cfg, ops, force=True)


def decorate(rng, proj, cfg, ops, force=False):
    """names that contain the suffixes of the operations (the transformations append, strip and compare suffixes as plain
    strings): some routines / modules are renamed so that a suffix occurs at the start, in the middle, or twice inside the
    name (never at its end: `name.endswith(suffix)` is the documented idempotence test).  Consistent over project, config,
    seeds and operations."""
    sufs = [o[1] for o in ops if o[0] == 'dep'] + [o[2] for o in ops if o[0] == 'dep' and o[2]] + \
           [o[1] for o in ops if o[0] == 'wrap'] + [o[3] for o in ops if o[0] == 'dup']
    sufs = [x.lower() for x in sufs if x]
    if not sufs or not (force or rng.random() < 0.3):
        return proj, cfg, ops
    names = [r['name'] for r in proj['routines']]
    mods = [u[2] for u in proj['units'] if u[1] == 'mod']
    ren = {}
    for n in rng.sample(names, min(len(names), rng.randint(1, 3))):
        x = rng.choice(sufs)
        ren[n] = rng.choice([f'{n}{x}k', f'a{x}_{n}', f'{n}{x}{x}q', f'{n}{x[:2]}{x}z'])
    for m in rng.sample(mods, min(len(mods), rng.randint(0, 2))):
        x = rng.choice(sufs)
        ren[m] = rng.choice([f'{m}{x}q', f'b{x}_{m}'])
    f = lambda n: ren.get(n, n)        # noqa: E731
    proj2 = dict(proj, units=[[u[0], u[1], f(u[2]) if u[2] else u[2], [f(i) for i in u[3]]] for u in proj['units']],
                 routines=[dict(r, name=f(r['name']), calls=[f(c) for c in r['calls']], usev=[f(m) for m in r['usev']])
                           for r in proj['routines']])

    def fseed(s_):
        m, n = s_.split('#')
        return f'{f(m) if m else m}#{f(n)}'
    cfg2 = dict(cfg, seeds=[fseed(x) for x in cfg['seeds']], routines=[[f(n), e] for n, e in cfg['routines']])
    ops2 = [[o[0], f(o[1])] + o[2:] if o[0] in ('dup', 'rem') else o for o in ops]
    return proj2, cfg2, ops2


# ------------------------------------------------------------------ the real runs

class Probe(Transformation):
    """later processing: records the items a default transformation visits"""

    def __init__(self):
        self.rec = []

    def transform_subroutine(self, routine, **kw):
        self.rec.append([kw['item'].name, routine.name.lower(), (routine.parent.name.lower() if routine.parent else '')])

    plan_subroutine = transform_subroutine


class Writer(FileWriteTransformation):
    """FileWriteTransformation that records the paths it writes"""

    def __init__(self, **kw):
        super().__init__(**kw)
        self.written = []

    def transform_file(self, sourcefile, **kwargs):
        item = kwargs['item']
        path = self._get_file_path(item, kwargs.get('build_args'))
        self.written.append([item.name, str(path)])
        super().transform_file(sourcefile, **kwargs)


def rel(s, root):
    s = str(s)
    r = str(root)
    return s.replace(r, ROOT).replace(r.lower(), ROOT)


def snapshot(sched, root):
    """(items, deps, cache) after an operation; file keys are made relative to the scratch root"""
    sg = sched.sgraph
    items = sorted(it.name for it in sg.items)
    deps = sorted([a.name, c.name] for a, c in sg.dependencies)
    cache = []
    badkeys = []
    for k, it in sched.item_factory.item_cache.items():
        if isinstance(it, FileItem):
            continue
        cache.append(k)
        if k != it.name:
            badkeys.append([k, it.name])
    stale = sorted(it.name for it in sg.items
                   if not isinstance(it, ExternalItem) and sched.item_factory.item_cache.get(it.name) is not it)
    # cache entries whose program unit does not exist in the source they point to (a deleted / renamed-away unit)
    dead = []
    for k, it in sched.item_factory.item_cache.items():
        if isinstance(it, (FileItem, ExternalItem)) or not isinstance(it, (ProcedureItem, ModuleItem)):
            continue
        try:
            if isinstance(it, ModuleItem):
                ok = it.name in it.source
            elif not it.scope_name:
                ok = it.local_name in it.source
            else:
                ok = it.scope_name in it.source and it.local_name in it.source[it.scope_name]
        except Exception:  # pylint: disable=broad-except
            ok = False
        if not ok:
            dead.append(it.name)
    external = sorted(it.name for it in sg.items if isinstance(it, ExternalItem))
    procs = sorted(it.name for it in sg.items if isinstance(it, ProcedureItem))
    return dict(items=items, deps=deps, cache=sorted(cache), badkeys=sorted(badkeys), stale=stale, external=external,
                procs=procs, dead=sorted(dead))


DEF_RE = re.compile(r'^\s*(module|subroutine)\s+(\w+)', re.I)
END_RE = re.compile(r'^\s*end\s+(module|subroutine)\b', re.I)
USE_RE = re.compile(r'^\s*use\s+(\w+)\s*(?:,\s*only\s*:\s*(.*))?$', re.I)
CALL_RE = re.compile(r'^\s*call\s+(\w+)', re.I)
INC_RE = re.compile(r'^\s*#include\s+"(\w+)\.intfb\.h"', re.I)


def scan(text):
    """program units defined and referenced by a Fortran file (generated / fgen style, one statement per line):
    defs = [(kind, module or '', name)], refs = [(unit, 'call'|'use'|'sym'|'inc', module or '', name)]"""
    defs, refs = [], []
    stack = []
    for line in text.splitlines():
        if END_RE.match(line):
            if stack:
                stack.pop()
            continue
        m = DEF_RE.match(line)
        if m and not re.match(r'^\s*module\s+procedure', line, re.I):
            kind, name = m.group(1).lower(), m.group(2).lower()
            mod = stack[0][1] if stack and stack[0][0] == 'module' else ''
            if kind == 'module':
                defs.append(['module', '', name])
            elif not any(k == 'subroutine' for k, _ in stack):
                defs.append(['subroutine', mod, name])
            stack.append((kind, name))
            continue
        if not stack or any(k == 'interface' for k, _ in stack):
            continue
        unit = '#'.join(n for _, n in stack)
        m = USE_RE.match(line)
        if m:
            mod = m.group(1).lower()
            refs.append([unit, 'use', '', mod])
            for s in (m.group(2) or '').split(','):
                s = s.strip().lower()
                if s:
                    refs.append([unit, 'sym', mod, s.split('=>')[-1].strip()])
            continue
        m = CALL_RE.match(line)
        if m:
            refs.append([unit, 'call', '', m.group(1).lower()])
            continue
        m = INC_RE.match(line)
        if m:
            refs.append([unit, 'inc', '', m.group(1).lower()])
    return defs, refs


def run_mode(proj, cfg, ops, plan):
    """one real run; returns dict(trace=[snapshot per op], exc=…, probe=…, written=…, files=…)"""
    root = tempfile.mkdtemp(prefix='c25_')
    res = dict(trace=[], exc=None, probe=None, written=[], files={}, orig={}, headers=[])
    try:
        write_project(proj, root)
        conf = make_config(cfg)
        out = Path(root) / 'build'
        try:
            sched = Scheduler(paths=[Path(root) / 'src'], config=conf, seed_routines=cfg['seeds'], full_parse=not plan,
                              frontend=REGEX if plan else FP, output_dir=out, xmods=[out])
        except (nx.NetworkXUnfeasible, RuntimeError) as e:
            res['exc'] = ['init', type(e).__name__, str(e)[:160]]
            return res
        strat = ProcessingStrategy.PLAN if plan else ProcessingStrategy.SEQUENCE
        res['init'] = snapshot(sched, root)
        for i, op in enumerate(ops):
            try:
                sched.process(make_op(op, root), proc_strategy=strat)
            except nx.NetworkXUnfeasible:
                res['exc'] = [i, 'NetworkXUnfeasible', '']
                return res
            except Exception as e:  # pylint: disable=broad-except
                res['exc'] = [i, type(e).__name__, rel(str(e), root)[:200]]
                return res
            res['trace'].append(snapshot(sched, root))
        try:
            probe = Probe()
            sched.process(probe, proc_strategy=strat)
            res['probe'] = sorted(probe.rec)
            if not plan:
                w = Writer(include_module_var_imports=True)
                sched.process(w, proc_strategy=strat)
                res['written'] = [[rel(a, root), rel(c, root)] for a, c in w.written]
        except Exception as e:  # pylint: disable=broad-except
            res['exc'] = ['final', type(e).__name__, rel(str(e), root)[:200]]
            return res
        if not plan:
            for p in sorted(out.glob('*.F90')):
                res['files'][p.name] = p.read_text()
            res['headers'] = sorted(p.name for p in out.glob('*.intfb.h'))
            res['hdrtext'] = {p.name: p.read_text() for p in list(out.glob('*.intfb.h')) +
                              list((Path(root) / 'src').glob('*.intfb.h'))}
            res['srchdr'] = sorted(p.name.split('.')[0] for p in (Path(root) / 'src').glob('*.intfb.h'))
            for p in sorted((Path(root) / 'src').glob('*.F90')):
                res['orig'][p.name] = p.read_text()
    finally:
        shutil.rmtree(root, ignore_errors=True)
    return res


# ------------------------------------------------------------------ direct oracle (real side only)

def build_set(res):
    """files the build consists of after the conversion: the written files plus the original files that were not
    replaced (a written file `fN.idem.F90` / `<name>.idem.F90` replaces the original of the same stem)"""
    out = dict(res['files'])
    replaced = {n.split('.')[0] for n in out}
    for n, txt in res['orig'].items():
        if n.split('.')[0] not in replaced:
            out['orig:' + n] = txt
    return out


def check_files(res):
    """[(what, tag)] about the written files: every CALL target / USE module / imported procedure named in a written
    file is defined in the build set; no program unit is defined twice; no output path is written twice"""
    probs = []
    files = build_set(res)
    defs = {}
    for n, txt in files.items():
        for kind, mod, name in scan(txt)[0]:
            defs.setdefault((kind, mod, name), []).append(n)
    mods = {k[2] for k in defs if k[0] == 'module'}
    free = {k[2] for k in defs if k[0] == 'subroutine' and k[1] == ''}
    inmod = {(k[1], k[2]) for k in defs if k[0] == 'subroutine' and k[1]}
    paths = [p for _, p in res['written']]
    twice = sorted({p for p in paths if paths.count(p) > 1})
    if twice:
        probs.append((f'output file(s) {twice} written more than once (different file items map to the same path; the last '
                      f'writer wins)', 'twice'))
    for k, where in sorted(defs.items()):
        w = [x for x in where if not x.startswith('orig:')]
        if len(where) > 1 and w:
            probs.append((f'{k[0]} {k[1] + "#" if k[1] else ""}{k[2]} is defined in several files of the build: {sorted(where)}',
                          'dupdef'))
    for n, txt in files.items():
        if n.startswith('orig:'):
            continue
        _, refs = scan(txt)
        imported = {}
        for unit, kind, mod, name in refs:
            if kind == 'sym':
                imported.setdefault(unit, {})[name] = mod
        for unit, kind, mod, name in refs:
            top = unit.split('#')[0]
            if kind == 'use' and name not in mods:
                probs.append((f'{n}: {unit} uses module {name}, which no file of the build defines', 'ref'))
            elif kind == 'sym' and mod in mods and not name.startswith('v_') and (mod, name) not in inmod:
                probs.append((f'{n}: {unit} imports {name} from module {mod}, which does not define it', 'ref'))
            elif kind == 'call':
                m = imported.get(unit, {}).get(name)
                if m is not None:
                    continue        # reported through the import
                if (top, name) in inmod and top in mods:
                    continue        # same module
                if name not in free:
                    probs.append((f'{n}: {unit} calls {name}, which no file of the build defines as an external '
                                  f'subroutine and which is not imported', 'ref'))
            elif kind == 'inc' and name + '.intfb.h' not in res['headers'] and name not in res.get('srchdr', ()):
                probs.append((f'{n}: {unit} includes {name}.intfb.h, which was not generated', 'inc'))
    return probs


def compile_link(res, seeds):
    """gfortran: compile the build set (written files + untouched originals) and link it with a main program calling
    the seeds; returns an error text or None"""
    d = tempfile.mkdtemp(prefix='c25g_')
    try:
        files = build_set(res)
        # written files, plus the untouched originals they need (transitively) for a module or an external routine
        chosen = {n: t for n, t in files.items() if not n.startswith('orig:')}
        pool = {n: t for n, t in files.items() if n.startswith('orig:')}
        while True:
            have = [x for t in chosen.values() for x in scan(t)[0]]
            hm = {x[2] for x in have if x[0] == 'module'}
            hf = {x[2] for x in have if x[0] == 'subroutine' and not x[1]}
            want = [r for t in chosen.values() for r in scan(t)[1]]
            add = [n for n, t in pool.items() if any(
                (d[0] == 'module' and d[2] not in hm and any(r[1] == 'use' and r[3] == d[2] for r in want)) or
                (d[0] == 'subroutine' and not d[1] and d[2] not in hf and any(r[1] == 'call' and r[3] == d[2] for r in want))
                for d in scan(t)[0])]
            if not add:
                break
            for n in add:
                chosen[n] = pool.pop(n)
        texts = {}
        for n, txt in chosen.items():
            texts[n.replace('orig:', 'o_')] = txt
        # main program: calls every seed that still exists under its name
        alld = [x for t in texts.values() for x in scan(t)[0]]
        lines = ['program main']
        calls = []
        for s in seeds:
            mod, name = s.split('#')
            if mod and ['subroutine', mod, name] in alld:
                lines.append(f'  use {mod}, only: {name}')
                calls.append(name)
            elif not mod and ['subroutine', '', name] in alld:
                calls.append(name)
        lines += ['  implicit none', '  integer :: x', '  x = 0'] + [f'  call {c}(x)' for c in calls] + \
                 ['  print *, x', 'end program main']
        texts['zz_main.F90'] = '\n'.join(lines) + '\n'
        for n, t in texts.items():
            (Path(d) / n).write_text(t)
        for h in res.get('hdrtext', {}):
            (Path(d) / h).write_text(res['hdrtext'][h])
        # order by module dependencies
        provides = {n: {x[2] for x in scan(t)[0] if x[0] == 'module'} for n, t in texts.items()}
        needs = {n: {r[3] for r in scan(t)[1] if r[1] == 'use'} for n, t in texts.items()}
        hdr = res.get('hdrtext', {})

        def hdr_uses(name, seen):       # modules used by the interface blocks of (transitively) included headers
            if name in seen:
                return set()
            seen.add(name)
            h = hdr.get(name + '.intfb.h', '')
            out = {m.lower() for m in re.findall(r'^\s*use\s+(\w+)', h, re.I | re.M)}
            for inc in re.findall(r'^\s*#include\s+"(\w+)\.intfb\.h"', h, re.I | re.M):
                out |= hdr_uses(inc.lower(), seen)
            return out
        for n, t in texts.items():
            for r in scan(t)[1]:
                if r[1] == 'inc':
                    needs[n] |= hdr_uses(r[3], set())
        order, done, pending = [], set(), sorted(n for n in texts if n != 'zz_main.F90')
        while pending:
            progress = False
            for n in list(pending):
                if all(m in done or not any(m in provides[o] for o in pending if o != n) for m in needs[n]):
                    order.append(n)
                    done |= provides[n]
                    pending.remove(n)
                    progress = True
            if not progress:
                order += pending
                break
        order.append('zz_main.F90')
        p = subprocess.run(['gfortran', '-cpp', '-I.', '-o', 'a.out'] + order, cwd=d, stdout=subprocess.PIPE,
                           stderr=subprocess.STDOUT, text=True, timeout=120)
        if p.returncode != 0:
            msg = [l for l in p.stdout.splitlines() if 'Error' in l or 'undefined' in l or 'multiple' in l]
            return ' | '.join(msg[:3])[:300] or p.stdout[-300:]
        return None
    finally:
        shutil.rmtree(d, ignore_errors=True)


def check_run(res, plan, ops, cfg, link=False):
    """[(what, tag)] — the property evaluated on one real run"""
    probs = []
    mode = 'plan' if plan else 'conversion'
    if res['exc']:
        i = res['exc'][0]
        at = f'operation {i} {ops[i]}' if isinstance(i, int) else str(i)
        probs.append((f"{mode} run raises {res['exc'][1]} at {at}: {res['exc'][2]}", 'exc'))
        return probs
    for i, t in enumerate(res['trace']):
        if t['badkeys']:
            probs.append((f"{mode} run, after operation {i} {ops[i]}: item cache keys differ from item names: {t['badkeys'][:3]}",
                          'badkeys'))
        if t['stale']:
            probs.append((f"{mode} run, after operation {i} {ops[i]}: graph nodes {t['stale'][:3]} are not the cache entries of "
                          f"their names", 'stale'))
        if t.get('dead'):
            probs.append((f"{mode} run, after operation {i} {ops[i]}: the item cache holds {t['dead'][:3]}, whose program "
                          f"units do not exist in the sources the items point to (deleted or renamed away)", 'deadcache'))
        ext = [n for n in t['items'] if n in t.get('external', ())]
        if ext:
            probs.append((f'{mode} run, after operation {i} {ops[i]}: graph contains unresolved items {ext[:3]}', 'external'))
    for i, o in enumerate(ops):
        if o[0] == 'dup' and not o[2] and i < len(res['trace']):
            # the documented naming: <scope><duplicate_module_suffix or duplicate_suffix>#<kernel><duplicate_suffix>
            before = res['trace'][i - 1] if i else res['init']
            for n in before['items']:
                sc, _, loc = n.partition('#')
                if loc == o[1] and n in before['procs'] and any(e[1] == n for e in before['deps']):
                    want_name = f"{sc + (o[4] or o[3]) if sc else ''}#{loc}{o[3]}"
                    if want_name.lower() not in res['trace'][i]['items']:
                        probs.append((f'{mode} run: after operation {i} {o} the graph has no item {want_name.lower()} '
                                      f"(items {res['trace'][i]['items']})", 'dupname'))
        if o[0] == 'rem':
            for j in range(i + 1, len(res['trace'])):
                back = [e for e in res['trace'][j]['deps'] if e[1].split('#')[-1] == o[1]]
                if back:
                    probs.append((f'{mode} run: kernel {o[1]} was removed by operation {i}, after operation {j} {ops[j]} the '
                                  f'graph has the dependency {back[0]} again', 'removed-back'))
                    break
    last = res['trace'][-1] if res['trace'] else res['init']
    want = sorted(n for n in last['items'] if n in last['procs'])
    got = sorted(x[0] for x in res['probe'])
    if got != want:
        probs.append((f'{mode} run: later processing visits {got} but the procedure items of the graph are {want}', 'visit'))
    for name, rname, pname in res['probe']:
        if name != f'{pname}#{rname}':
            probs.append((f'{mode} run: item {name} is processed with routine {rname} in scope "{pname}"', 'irname'))
    if not plan:
        probs += check_files(res)
        if link and not any(t in ('ref', 'dupdef', 'twice') for _, t in probs):
            err = compile_link(res, cfg['seeds'])
            if err:
                probs.append((f'gfortran cannot compile and link the written files: {err}', 'link'))
    return probs


# ------------------------------------------------------------------ request / response

def make_request(proj, cfg, ops, plan):
    return [A('ops'), [A('mode'), A('plan' if plan else 'seq')], [A('oplist')] + [op_sexp(o) for o in ops],
            project_sexp(proj, cfg)]


def decode(req):
    if str(req[0]) != 'ops':
        raise ValueError('not an ops request')
    mode = str(field(req, 'mode')[0])
    if mode not in ('plan', 'seq'):
        raise ValueError('bad mode')
    ops = [op_from_sexp(x) for x in field(req, 'oplist')]
    proj, cfg = project_from_sexp([A('project')] + field(req, 'project'))
    return proj, cfg, ops, mode == 'plan'


def top_level(keys):
    """cache keys of top-level program units (modules, routines outside modules); module members are created on demand"""
    return [k for k in keys if '#' not in k or k.startswith('#')]


def state_sexp(t):
    return [A('state'), [A('dead')] + list(t.get('dead', [])), [A('items')] + t['items'], [A('deps')] + [f'{a} {c}' for a, c in t['deps']],
            [A('cache')] + top_level(t['cache']), [A('badkeys')] + [k for k, _ in t['badkeys']]]


ERRKIND = {'RuntimeError': 'runtime', 'NetworkXUnfeasible': 'unfeasible'}


def response(res):
    if res['exc'] and res['exc'][0] == 'init':
        return [A('error'), A('init')]
    out = [A('ok'), state_sexp(res['init'])] + [state_sexp(t) for t in res['trace']]
    if res['exc'] and isinstance(res['exc'][0], int):
        out.append([A('error'), res['exc'][0], A(ERRKIND.get(res['exc'][1], res['exc'][1]))])
    return out


_memo = {}


def run_case(req):
    key = dumps(req)
    if key not in _memo:
        proj, cfg, ops, plan = decode(req)
        if len(_memo) > 2000:
            _memo.clear()
        _memo[key] = (run_mode(proj, cfg, ops, plan), (proj, cfg, ops, plan))
    return _memo[key]


# ------------------------------------------------------------------ class predicates (Python mirrors of the Lean Bool defs)

def split_layout(proj):
    files = [u[0] for u in proj['units']]
    return len(set(files)) == len(files)


def no_driver_callee(proj, cfg):
    home = home_of(proj)
    drivers = driver_names(cfg)
    called = {c for r in proj['routines'] for c in r['calls']}
    mixed = any(home[d] is not None and any(home[r['name']] == home[d] and r['name'] not in drivers
                                            for r in proj['routines']) for d in drivers if d in home)
    return not (drivers & called) and not mixed


def dep_mod_suffix_changed(ops):
    """Lean: depModSuffixChanged"""
    deps = [o for o in ops if o[0] == 'dep']
    return any(a[1] == c[1] and (a[2] or '') != (c[2] or '') for i, a in enumerate(deps) for c in deps[i + 1:])


def covered(proj, ops, plan, cfg=None):
    """Lean: LokiModel.C25.Covered"""
    if cfg is not None and not no_driver_callee(proj, cfg):
        return False
    def lower(o):
        return all(s is None or s == s.lower() for s in o[1:] if not isinstance(s, bool))
    return (split_layout(proj) and all(lower(o) for o in ops) and not any(o[0] == 'dup' and o[2] for o in ops)
            and (plan or not dep_mod_suffix_changed(ops)))


def driver_names(cfg):
    return {n for n, ent in cfg['routines'] if ent.get('role') == 'driver'}


def classify(proj, cfg, ops, plan):
    """the known-finding classes a request falls in, decidable on the request.  Lean mirrors: the conjuncts of
    `Covered` in C25/Model.lean (splitLayout ~ shared-file, noDriverCallee ~ driver-callee, depLast ~ dep-not-last, isSub ~
    dup-subgraph, noDupAfterRem ~ plan-removal-not-inherited); the other classes lie inside `Covered`: there the model follows
    the defect (correspondence) and the theorem needs `LocalClosed` of the result, which fails (Findings/C25.lean)"""
    home = home_of(proj)
    drivers = driver_names(cfg)
    cls = []
    called = {c for r in proj['routines'] for c in r['calls']}
    kinds = [o[0] for o in ops]
    if not split_layout(proj) and any(k in ('dup', 'wrap', 'dep') for k in kinds):
        cls.append('shared-file')
    mixed = any(home[d] is not None and any(home[r['name']] == home[d] and r['name'] not in drivers
                                            for r in proj['routines']) for d in drivers)
    if not plan and (drivers & called or mixed) and any(k in ('wrap', 'dep') for k in kinds):
        cls.append('driver-callee')
    kvar = any(m in {home[x['name']] for x in proj['routines']} for r in proj['routines'] for m in r['usev'])
    if not plan and kvar and 'dep' in kinds:
        cls.append('retained-module')
    if not plan and dep_mod_suffix_changed(ops):
        cls.append('dep-module-suffix-changed')
    free_kernel = any(home[r['name']] is None and r['name'] not in drivers and r['name'] in called
                      for r in proj['routines'])
    if not plan and 'wrap' in kinds and free_kernel and not proj['cinc']:
        cls.append('wrap-without-interface')
    # routines of a processed module that are not reachable from the seeds (or may become so by a removal)
    rmap = {r['name']: r for r in proj['routines']}
    reach, todo = set(), [s.split('#')[1] for s in cfg['seeds']]
    while todo:
        x = todo.pop()
        if x in reach or x not in rmap:
            continue
        reach.add(x)
        todo += rmap[x]['calls']
    inactive = any(kind == 'mod' and len(rs) > 1 and (any(i not in reach for i in rs) or 'rem' in kinds)
                   and any(i in reach for i in rs) for _, kind, _, rs in proj['units'])
    if not plan and inactive and any(k == 'wrap' and 'dep' not in kinds[i + 1:] for i, k in enumerate(kinds)):
        cls.append('inactive-sibling')
    if not plan and any(o[0] == 'dup' and home.get(o[1]) is not None and any(
            home[r['name']] == home[o[1]] and o[1] in r['calls'] for r in proj['routines']) for o in ops):
        cls.append('inactive-sibling')
    for i, o in enumerate(ops):
        if o[0] == 'dup' and home.get(o[1]) is None and 'wrap' in kinds[i + 1:] and not plan:
            cls.append('dup-free-then-wrap')
        if o[0] == 'dup' and o[2]:
            cls.append('dup-subgraph')
    return list(dict.fromkeys(cls))


CLASSES = ['shared-file', 'driver-callee', 'retained-module', 'dep-module-suffix-changed',
           'wrap-without-interface', 'inactive-sibling', 'dup-free-then-wrap', 'dup-subgraph']


CACHE_TAGS = ('deadcache', 'badkeys', 'stale')
CACHE_CLASSES = ('shared-file', 'dup-subgraph')


def twin(req, plan):
    return [x if not (isinstance(x, list) and x and str(x[0]) == 'mode') else [A('mode'), A('plan' if plan else 'seq')]
            for x in req]


def compilable(proj):
    """the generated project itself compiles file by file: no program unit uses a module defined later in its own file"""
    home = home_of(proj)
    rmap = {r['name']: r for r in proj['routines']}
    byfile = {}
    for u in proj['units']:
        byfile.setdefault(u[0], []).append(u)
    for us in byfile.values():
        for i, u in enumerate(us):
            later = {v[2] for v in us[i + 1:] if v[1] == 'mod'}
            for k in u[3]:
                r = rmap[k]
                used = {home[c] for c in r['calls'] if home.get(c)} | set(r['usev'])
                if used & later:
                    return False
    return True


def oracle_case(req, link=False):
    res, (proj, cfg, ops, plan) = run_case(req)
    if res['exc'] and res['exc'][0] == 'init':
        return []           # the scheduler cannot be built (cyclic file graph: C21/C22), nothing to check
    probs = check_run(res, plan, ops, cfg, link=link and compilable(proj))
    if plan and not res['exc'] and all(o[0] in ('dup', 'rem') for o in ops):
        # planning and conversion must leave the same graph (the operations that have a planning implementation)
        other, _ = run_case(twin(req, False))
        if not other['exc'] and other['trace'] and other['trace'][-1]['items'] != res['trace'][-1]['items']:
            probs.append((f"planning leaves the items {res['trace'][-1]['items']} but the conversion "
                          f"{other['trace'][-1]['items']}", 'plan-vs-conversion'))
        elif not other['exc'] and other['trace'] and other['trace'][-1]['deps'] != res['trace'][-1]['deps']:
            a, c = res['trace'][-1]['deps'], other['trace'][-1]['deps']
            probs.append((f"planning and conversion leave the same items but different dependencies: only planning "
                          f"{[e for e in a if e not in c][:4]}, only conversion {[e for e in c if e not in a][:4]}",
                          'plan-vs-conversion'))
    cls = classify(proj, cfg, ops, plan)

    def cls_of(tag):
        # failures about the item cache are expected only where a unit is processed twice (shared file, repeated suffix
        # renaming) or the subgraph duplication renames inside a clone; every other class is about references / files
        ok = [c for c in cls if tag not in CACHE_TAGS or c in CACHE_CLASSES]
        return ok[0] if ok else None
    probs.sort(key=lambda p: p[1] not in CACHE_TAGS)       # cache failures first
    return [Failure(what, cls_of(tag)) for what, tag in probs[:3]]


class C25(Prop):
    id = 'C25'
    title = 'Renaming, duplicating and removing items keeps the graph consistent'
    model_modules = ['LokiModel.C25.Model']
    props_module = 'LokiModel.Props.C25'
    findings_module = 'LokiModel.Findings.C25'
    driver = 'Drivers/C25.lean'
    theorems = ['C25_refs_present', 'C25_op_preserves_keys', 'C25_op_closure', 'C25_ops_keys_closure',
                'C25_rekey_nodup', 'C25_rekey_complete', 'C25_rekey_no_deleted', 'C25_depCache_no_deleted',
                'C25_depCache_complete', 'C25_replaceLast_append', 'C25_depRef_import_renamed', 'C25_depRef_idempotent', 'C25_present_of_localClosed', 'C25_rem_preserves_consistent',
                'C25_rems_preserve_consistent', 'C25_op_noerr', 'C25_op_preserves_consistent_partial']
    design_ref = 'DESIGN.md 4.D C25'
    level = 'proof'
    level_text = ('Lean theorems about a model (`Rename`) of DuplicateKernel, RemoveKernel, ModuleWrapTransformation, '
                  'DependencyTransformation, rekey_item_cache and the re-discovery on (program units with resolved references, item '
                  'cache, graph): for ALL states, operations and operation sequences, planning and conversion: the cache keys equal '
                  'the current item names (C25_op_preserves_keys, C25_rekey_nodup, C25_rekey_complete), no deleted item survives the rebuild of the cache (C25_rekey_no_deleted, C25_depCache_no_deleted, C25_depCache_complete), the import of a kernel of another module is renamed together with its call for every name, also one that contains the suffix (C25_replaceLast_append about the modelled replace_last, C25_depRef_import_renamed) and a reference whose name already ends with the suffix is left alone (C25_depRef_idempotent, the repaired idempotence), the graph is exactly the '
                  'closure of the seeds in the rewritten sources and was built without error (C25_op_closure, C25_op_noerr, '
                  'C25_ops_keys_closure by list induction), every call/import of a graph item names a present graph item under the '
                  'invariant (C25_refs_present). Full invariant `Consistent` preserved by RemoveKernel and sequences of removals '
                  '(C25_rem_preserves_consistent, C25_rems_preserve_consistent). _partial: for duplicate / wrap / suffix the '
                  'presence of every graph item is reduced to a local condition on the rewritten units '
                  '(C25_present_of_localClosed, C25_op_preserves_consistent_partial with LocalClosed / DefsCached of the result as '
                  'hypotheses); that the real rewriting meets it outside the known-finding classes is established by the '
                  'correspondence (state after every operation: items, dependencies, top-level cache keys, key/name mismatches, '
                  'error kind) and the direct oracle, not by proof.')
    level_note = ('The model stores references resolved to item names; the textual resolution (same module / USE ONLY / bare '
                  'name / #include) and fgen are not modelled: the correspondence runs the real frontends (REGEX in planning, FP '
                  'in conversion) and compares the exported scheduler state after every operation with the model fed with the '
                  'project spec alone. Names are lower-case in the covered class (no model of lower()). Covered class of the '
                  'correspondence (Lean `Covered`, Python `covered`): one top-level program unit per file, lower-case suffixes, '
                  'no duplicate_subgraph, no repeated suffix renaming with a changed module suffix; other '
                  'requests answer (uncovered) on both sides and are judged by the oracle only.')
    technique = 'Lean 4 theorems about a hand-written model + correspondence with the real code'
    rule = ('C22 project generator (call DAG over 3-10 routines in modules / outside modules, header modules; 70% one unit per '
            'file), own renderer (interface includes for external callees in 60%, module-variable imports from header modules and '
            'in 25% from kernel modules), config: strict, extra seed, 4% further driver roles; 1-4 operations (60% in '
            'loki_transform order: duplicate/remove, wrap, suffix; else random) with suffix / module-suffix options; in 30% some '
            'routine / module names are decorated so that they contain a suffix of the sequence at the start, in the middle or '
            'twice; plus a family stream (kernel module with a routine outside the graph, dep or wrap+dep, decorated names); every '
            'project in planning (REGEX, PLAN) and conversion mode (FP, SEQUENCE, files written to a mkdtemp dir); non-trivial '
            '= conversion run; distinct by request line')
    trusted_base = ['harness/props/c25.py snapshot()/scan() (export of the scheduler state, scanner of the written Fortran)',
                    'harness/props/c25.py check_run/check_files/compile_link (direct oracle), gfortran 12 in the thorough tier',
                    'C21 generic worklist lemmas (LokiModel.C21.Lemmas, own check)', 'Lean driver evaluation of model definitions']
    assumptions = ['item names and suffixes are lower-case (covered class)',
                   'the untouched original files needed by the written files stay in the build, written files replace the '
                   'original of the same stem (CMake plan semantics, C24)']
    extra_obligations = ['oracle: cache keys = item names, every cached procedure / module item has a program unit in its source, graph nodes are the cache entries, later processing visits exactly the '
                         'procedure items under their IR names, every call / USE / imported procedure in the written files is '
                         'defined in the build set, nothing defined or written twice, planning vs conversion graph',
                         'thorough tier: gfortran compiles and links the written files with a main program calling the seeds']
    link = 99       # gfortran link for projects with at most this many routines: all in a replay and in the thorough tier,
                    # in the quick tier only the small ones (corpus lines and small generated projects)

    def gen(self, rng, tier):
        nproj = {'quick': 10, 'thorough': 70, 'search': 40}.get(tier, 22)
        self.link = 99 if tier == 'thorough' else 5
        for _ in range(nproj):
            proj = gen_project(rng)
            cfg = gen_config(rng, proj)
            ops = gen_ops(rng, proj)
            proj, cfg, ops = decorate(rng, proj, cfg, ops)
            for plan in (True, False):
                req = make_request(proj, cfg, ops, plan)
                yield Case(req, stream=('plan:' if plan else 'seq:') + ('covered' if covered(proj, ops, plan, cfg) else 'uncovered'),
                           nontrivial=len(ops) >= 1 and not plan, key=dumps(req))
        for _ in range({'quick': 3, 'thorough': 25, 'search': 15}.get(tier, 3)):
            proj, cfg, ops = gen_family(rng)
            for plan in (False,):
                req = make_request(proj, cfg, ops, plan)
                yield Case(req, stream=('plan:' if plan else 'seq:') + ('covered' if covered(proj, ops, plan, cfg) else 'uncovered'),
                           nontrivial=len(ops) >= 1 and not plan, key=dumps(req))

    def impl(self, req):
        res, (proj, cfg, ops, plan) = run_case(req)
        if res['exc'] and res['exc'][0] == 'init':
            return [A('error'), A('init')]
        if not covered(proj, ops, plan, cfg):
            return [A('uncovered')]
        return response(res)

    def oracle(self, req):
        nr = len(field([A('project')] + field(req, 'project'), 'routines'))
        return oracle_case(req, link=nr <= self.link)

    def classes(self):
        return list(CLASSES)


PROP = C25()
READY = True
