"""
Shared expression-layer helpers for the harness (used by C06, C07, C08, C09 ...).

* ``from_sexp`` / ``to_sexp``: the wire form of the Lean type ``LokiModel.C06.E`` <-> real Loki trees
* ``tokenize``: Fortran free-form expression tokeniser producing the Lean ``Tok`` wire atoms
* ``parse_tokens``: reference recursive-descent parser for the Fortran expression grammar
  (F2018 R1002-R1022 restricted to these tokens) producing a semantic tree (nested tuples), and
  ``eval_sem`` evaluating it with the same value functions as ``feval``
* generators of random trees / valuations
"""
import re
from fractions import Fraction

import pymbolic.primitives as pmbl

from loki import Scope, SymbolAttributes, BasicType
from loki.expression import symbols as sym
from loki.expression import operations as lop

from .sexpr import A
from .feval import EvalError, tdiv, _div, _pow, _num

CMP = {'==': 'eq', '!=': 'ne', '<': 'lt', '<=': 'le', '>': 'gt', '>=': 'ge'}
CMP_INV = {v: k for k, v in CMP.items()}

_scope = Scope()
_types = {'int': SymbolAttributes(BasicType.INTEGER), 'real': SymbolAttributes(BasicType.REAL),
          'logical': SymbolAttributes(BasicType.LOGICAL)}


def var(name, typ='int'):
    return sym.Variable(name=name, scope=_scope, type=_types[typ])


# ------------------------------------------------------------------ wire form <-> Loki

def from_sexp(x, vartypes=None):
    """build the real Loki tree from the wire form of ``E``"""
    vartypes = vartypes or {}
    if not isinstance(x, list) or not x or isinstance(x[0], list):
        raise ValueError('malformed E')
    h = str(x[0])
    rec = lambda y: from_sexp(y, vartypes)
    arity = {'ilit': 2, 'rlit': 2, 'blit': 2, 'pyint': 2, 'var': 2, 'quot': 4, 'pow': 4, 'cmp': 4, 'lnot': 2}
    if h in arity and len(x) != arity[h]:
        raise ValueError(f'malformed {h}')
    if h in ('sum', 'prod') and (len(x) < 3 or str(x[1]) not in ('true', 'false')):
        raise ValueError(f'malformed {h}')
    if h in ('quot', 'pow') and str(x[1]) not in ('true', 'false'):
        raise ValueError(f'malformed {h}')
    if h in ('land', 'lor') and len(x) < 2:
        raise ValueError(f'malformed {h}')
    if h == 'ilit':
        return sym.IntLiteral(int(x[1]))
    if h == 'rlit':
        return sym.FloatLiteral(str(x[1]))
    if h == 'blit':
        return sym.LogicLiteral(str(x[1]) == 'true')
    if h == 'pyint':
        return int(x[1])
    if h == 'var':
        return var(str(x[1]), vartypes.get(str(x[1]).lower(), 'int'))
    par = str(x[1]) == 'true' if h in ('sum', 'prod', 'quot', 'pow') else None
    if h == 'sum':
        return (lop.ParenthesisedAdd if par else sym.Sum)(tuple(rec(c) for c in x[2:]))
    if h == 'prod':
        return (lop.ParenthesisedMul if par else sym.Product)(tuple(rec(c) for c in x[2:]))
    if h == 'quot':
        return (lop.ParenthesisedDiv if par else sym.Quotient)(rec(x[2]), rec(x[3]))
    if h == 'pow':
        return (lop.ParenthesisedPow if par else sym.Power)(rec(x[2]), rec(x[3]))
    if h == 'cmp':
        return sym.Comparison(rec(x[2]), CMP_INV[str(x[1])], rec(x[3]))
    if h == 'lnot':
        return sym.LogicalNot(rec(x[1]))
    if h == 'land':
        return sym.LogicalAnd(tuple(rec(c) for c in x[1:]))
    if h == 'lor':
        return sym.LogicalOr(tuple(rec(c) for c in x[1:]))
    raise ValueError(f'bad E head {h}')


class Unsupported(Exception):
    pass


def to_sexp(e):
    """wire form of ``E`` for a real Loki tree (raises Unsupported for node kinds outside the model)"""
    from loki.expression import operations as op
    if isinstance(e, bool):
        raise Unsupported('bool')
    if isinstance(e, int):
        return [A('pyint'), e]
    if isinstance(e, sym.IntLiteral):
        if e.kind is not None:
            raise Unsupported('kind')
        return [A('ilit'), int(e.value)]
    if isinstance(e, sym.FloatLiteral):
        if e.kind is not None or str(e.value).startswith('-'):
            raise Unsupported('float literal form')
        return [A('rlit'), str(e.value)]
    if isinstance(e, sym.LogicLiteral):
        return [A('blit'), bool(e.value)]
    if isinstance(e, (sym.Scalar, sym.DeferredTypeSymbol)):
        if getattr(e, 'parent', None) is not None:
            raise Unsupported('member')
        return [A('var'), str(e.name)]
    if isinstance(e, pmbl.Sum):
        return [A('sum'), isinstance(e, op.ParenthesisedAdd)] + [to_sexp(c) for c in e.children]
    if isinstance(e, pmbl.Product):
        return [A('prod'), isinstance(e, op.ParenthesisedMul)] + [to_sexp(c) for c in e.children]
    if isinstance(e, pmbl.Quotient):
        return [A('quot'), isinstance(e, op.ParenthesisedDiv), to_sexp(e.numerator), to_sexp(e.denominator)]
    if isinstance(e, pmbl.Power):
        return [A('pow'), isinstance(e, op.ParenthesisedPow), to_sexp(e.base), to_sexp(e.exponent)]
    if isinstance(e, pmbl.Comparison):
        return [A('cmp'), A(CMP[e.operator]), to_sexp(e.left), to_sexp(e.right)]
    if isinstance(e, pmbl.LogicalNot):
        return [A('lnot'), to_sexp(e.child)]
    if isinstance(e, pmbl.LogicalAnd):
        return [A('land')] + [to_sexp(c) for c in e.children]
    if isinstance(e, pmbl.LogicalOr):
        return [A('lor')] + [to_sexp(c) for c in e.children]
    raise Unsupported(type(e).__name__)


# ------------------------------------------------------------------ tokeniser

_TOK = re.compile(r"""\s*(?:
    (?P<real>(?:\d+\.\d*|\.\d+)(?:[eEdD][+-]?\d+)?(?:_\w+)?|\d+[eEdD][+-]?\d+(?:_\w+)?)
  | (?P<int>\d+(?:_\w+)?)
  | (?P<dot>\.(?:true|false|not|and|or|eq|ne|lt|le|gt|ge|eqv|neqv)\.)
  | (?P<id>[A-Za-z_]\w*)
  | (?P<op>\*\*|==|/=|<=|>=|<|>|\+|-|\*|/|\(|\)|,|%)
)""", re.X | re.I)

_OPS = {'**': 'pow', '==': 'eq', '/=': 'ne', '<=': 'le', '>=': 'ge', '<': 'lt', '>': 'gt',
        '+': 'plus', '-': 'minus', '*': 'star', '/': 'slash', '(': 'lp', ')': 'rp', ',': 'comma', '%': 'pct'}
_DOTS = {'.true.': 'tru', '.false.': 'fls', '.not.': 'not', '.and.': 'and', '.or.': 'or', '.eq.': 'eq', '.ne.': 'ne',
         '.lt.': 'lt', '.le.': 'le', '.gt.': 'gt', '.ge.': 'ge', '.eqv.': 'eqv', '.neqv.': 'neqv'}


def tokenize(text):
    """Fortran expression text -> list of wire tokens (kind suffixes of literals are dropped)"""
    out, pos = [], 0
    text = text.strip()
    while pos < len(text):
        m = _TOK.match(text, pos)
        if not m or m.end() == pos:
            raise ValueError(f'cannot tokenise {text[pos:]!r}')
        pos = m.end()
        if m.group('real'):
            out.append([A('rnum'), m.group('real').split('_')[0]])
        elif m.group('int'):
            out.append(A('num:' + str(int(m.group('int').split('_')[0]))))
        elif m.group('dot'):
            out.append(A(_DOTS[m.group('dot').lower()]))
        elif m.group('id'):
            out.append([A('id'), m.group('id')])
        else:
            out.append(A(_OPS[m.group('op')]))
    return out


# ------------------------------------------------------------------ reference grammar (harness side)

class ParseError(Exception):
    pass


def parse_tokens(toks):
    """Fortran expression grammar on wire tokens -> semantic tree as nested tuples
    ('int',n) ('real',txt) ('var',s) ('bool',b) ('neg',a) ('add',a,b) ... ('cmp',op,a,b) ('not',a) ('and',a,b) ('or',a,b)"""
    pos = 0

    def peek():
        return toks[pos] if pos < len(toks) else None

    def is_(t, name):
        return isinstance(t, str) and str(t) == name

    def eat(name):
        nonlocal pos
        if not is_(peek(), name):
            raise ParseError(f'expected {name} at {pos}')
        pos += 1

    def primary():
        nonlocal pos
        t = peek()
        if t is None:
            raise ParseError('eof')
        if isinstance(t, list):
            pos += 1
            k = str(t[0])
            if k == 'rnum':
                return ('real', str(t[1]))
            if k == 'id':
                return ('var', str(t[1]).lower())
            raise ParseError(k)
        s = str(t)
        if s.startswith('num:'):
            pos += 1
            return ('int', int(s[4:]))
        if s in ('tru', 'fls'):
            pos += 1
            return ('bool', s == 'tru')
        if s == 'lp':
            pos += 1
            e = expr()
            eat('rp')
            return e
        raise ParseError(f'unexpected {s}')

    def mult_operand():   # level-1 [ ** mult-operand ]
        nonlocal pos
        a = primary()
        if is_(peek(), 'pow'):
            pos += 1
            return ('pow', a, mult_operand())
        return a

    def add_operand():    # [ add-operand mult-op ] mult-operand
        nonlocal pos
        a = mult_operand()
        while is_(peek(), 'star') or is_(peek(), 'slash'):
            o = str(peek())
            pos += 1
            b = mult_operand()
            a = ('mul' if o == 'star' else 'div', a, b)
        return a

    def level2():         # [ [ level-2 ] add-op ] add-operand
        nonlocal pos
        if is_(peek(), 'minus'):
            pos += 1
            a = ('neg', add_operand())
        elif is_(peek(), 'plus'):
            pos += 1
            a = add_operand()
        else:
            a = add_operand()
        while is_(peek(), 'plus') or is_(peek(), 'minus'):
            o = str(peek())
            pos += 1
            b = add_operand()
            a = ('add' if o == 'plus' else 'sub', a, b)
        return a

    def level4():
        nonlocal pos
        a = level2()
        t = peek()
        if isinstance(t, str) and str(t) in ('eq', 'ne', 'lt', 'le', 'gt', 'ge'):
            pos += 1
            b = level2()
            return ('cmp', str(t), a, b)
        return a

    def and_operand():
        nonlocal pos
        if is_(peek(), 'not'):
            pos += 1
            return ('not', level4())
        return level4()

    def or_operand():
        nonlocal pos
        a = and_operand()
        while is_(peek(), 'and'):
            pos += 1
            a = ('and', a, and_operand())
        return a

    def expr():
        nonlocal pos
        a = or_operand()
        while is_(peek(), 'or'):
            pos += 1
            a = ('or', a, or_operand())
        return a

    r = expr()
    if pos != len(toks):
        raise ParseError(f'trailing tokens at {pos}')
    return r


def eval_sem(s, env):
    """value of a semantic tree under Fortran semantics (same value functions as feval)"""
    k = s[0]
    if k == 'int':
        return s[1]
    if k == 'real':
        return Fraction(s[1].lower().replace('d', 'e'))
    if k == 'bool':
        return s[1]
    if k == 'var':
        if s[1] not in env:
            raise EvalError('unbound ' + s[1])
        return env[s[1]]
    if k == 'neg':
        return -_num(eval_sem(s[1], env))
    if k in ('add', 'sub', 'mul'):
        a, b = _num(eval_sem(s[1], env)), _num(eval_sem(s[2], env))
        return a + b if k == 'add' else a - b if k == 'sub' else a * b
    if k == 'div':
        return _div(eval_sem(s[1], env), eval_sem(s[2], env))
    if k == 'pow':
        return _pow(eval_sem(s[1], env), eval_sem(s[2], env))
    if k == 'cmp':
        a, b = _num(eval_sem(s[2], env)), _num(eval_sem(s[3], env))
        return {'eq': a == b, 'ne': a != b, 'lt': a < b, 'le': a <= b, 'gt': a > b, 'ge': a >= b}[s[1]]
    if k == 'not':
        v = eval_sem(s[1], env)
        if not isinstance(v, bool):
            raise EvalError('non-logical')
        return not v
    if k in ('and', 'or'):
        a, b = eval_sem(s[1], env), eval_sem(s[2], env)
        if not (isinstance(a, bool) and isinstance(b, bool)):
            raise EvalError('non-logical')
        return (a and b) if k == 'and' else (a or b)
    raise EvalError(k)


def sem_to_sexp(s):
    k = s[0]
    if k == 'int':
        return [A('int'), s[1]]
    if k in ('real', 'var'):
        return [A(k), s[1]]
    if k == 'bool':
        return [A('bool'), s[1]]
    if k == 'cmp':
        return [A('cmp'), A(s[1]), sem_to_sexp(s[2]), sem_to_sexp(s[3])]
    return [A(k)] + [sem_to_sexp(c) for c in s[1:]]


# ------------------------------------------------------------------ generators

INT_VARS = ['a', 'b', 'c', 'n']
REAL_VARS = ['x', 'y', 'Z']
LOG_VARS = ['p', 'q']
VARTYPES = {**{v.lower(): 'int' for v in INT_VARS}, **{v.lower(): 'real' for v in REAL_VARS},
            **{v.lower(): 'logical' for v in LOG_VARS}}


def gen_valuation(rng, nonzero=True):
    env = {}
    for v in INT_VARS:
        x = rng.randint(-7, 7)
        env[v.lower()] = x if (x or not nonzero) else rng.choice([-3, -1, 1, 2, 5])
    for v in REAL_VARS:
        k = rng.randint(-40, 40) or 3
        env[v.lower()] = Fraction(k, 8)
    for v in LOG_VARS:
        env[v.lower()] = rng.random() < 0.5
    return env


def gen_arith(rng, depth, typ='int', programmatic=True):
    """random arithmetic E (wire form); ``programmatic`` allows shapes the frontend never builds"""
    if depth <= 0 or rng.random() < 0.22:
        r = rng.random()
        if r < 0.55:
            return [A('var'), rng.choice(INT_VARS if typ == 'int' or rng.random() < 0.4 else REAL_VARS)]
        if typ == 'real' and r < 0.7:
            return [A('rlit'), rng.choice(['1.5', '2.0', '0.25', '3.0e0', '0.5'])]
        if programmatic and r < 0.78:
            return [A('ilit'), rng.randint(-4, -1)]
        if programmatic and r < 0.82:
            return [A('pyint'), rng.choice([-2, -1, 2, 3])]
        return [A('ilit'), rng.randint(1, 5)]
    r = rng.random()
    sub = lambda: gen_arith(rng, depth - 1, typ, programmatic)
    par = (rng.random() < 0.3)
    if r < 0.22:
        n = rng.choice([2, 2, 3])
        return [A('sum'), par] + [sub() for _ in range(n)]
    if r < 0.34:   # subtraction / negation, frontend shape
        if rng.random() < 0.3:
            return [A('prod'), False, [A('pyint'), -1], sub()]
        return [A('sum'), par, sub(), [A('prod'), False, [A('pyint'), -1], sub()]]
    if r < 0.58:
        n = rng.choice([2, 2, 3])
        kids = [sub() for _ in range(n)]
        if programmatic and rng.random() < 0.15:
            kids[0] = [A(rng.choice(['pyint', 'ilit'])), -1]
        return [A('prod'), par] + kids
    if r < 0.82:
        return [A('quot'), par, sub(), sub()]
    e = rng.choice([[A('ilit'), 2], [A('ilit'), 3], [A('var'), 'n']]) if rng.random() < 0.7 else gen_arith(rng, min(depth - 1, 1), 'int', programmatic)
    return [A('pow'), par, sub(), e]


def gen_logical(rng, depth, programmatic=True):
    if depth <= 0 or rng.random() < 0.2:
        r = rng.random()
        if r < 0.35:
            return [A('var'), rng.choice(LOG_VARS)]
        if r < 0.45:
            return [A('blit'), rng.random() < 0.5]
        op = rng.choice(['eq', 'ne', 'lt', 'le', 'gt', 'ge'])
        t = rng.choice(['int', 'real'])
        return [A('cmp'), A(op), gen_arith(rng, 2, t, programmatic), gen_arith(rng, 2, t, programmatic)]
    r = rng.random()
    sub = lambda: gen_logical(rng, depth - 1, programmatic)
    if r < 0.3:
        return [A('lnot'), sub()]
    if r < 0.65:
        return [A('land')] + [sub() for _ in range(rng.choice([2, 2, 3]))]
    return [A('lor')] + [sub() for _ in range(rng.choice([2, 2, 3]))]


def size(x):
    return 1 + sum(size(c) for c in x[1:] if isinstance(c, list)) if isinstance(x, list) else 0


# ------------------------------------------------------------------ source-level generation (frontend-shaped trees)

def gen_text(rng, depth, typ='int'):
    """random well-formed Fortran arithmetic expression text over the harness variables"""
    if depth <= 0 or rng.random() < 0.2:
        r = rng.random()
        if r < 0.6:
            return rng.choice(INT_VARS if typ == 'int' or rng.random() < 0.4 else REAL_VARS)
        if typ == 'real' and r < 0.75:
            return rng.choice(['1.5', '2.0', '0.25', '0.5'])
        return str(rng.randint(1, 5))
    sub = lambda: gen_text(rng, depth - 1, typ)
    r = rng.random()
    if r < 0.18:
        return f'{sub()} + {sub()}'
    if r < 0.34:
        return f'{sub()} - {sub()}'
    if r < 0.50:
        return f'{sub()} * {sub()}'
    if r < 0.64:
        return f'{sub()} / {sub()}'
    if r < 0.72:
        return f'(-{sub()})'
    if r < 0.80:
        return f'{sub()} ** {rng.choice(["2", "3", "n", "(-n)", "(" + gen_text(rng, 1, "int") + ")"])}'
    return f'({sub()})'


def gen_logical_text(rng, depth):
    if depth <= 0 or rng.random() < 0.25:
        r = rng.random()
        if r < 0.3:
            return rng.choice(LOG_VARS)
        t = rng.choice(['int', 'real'])
        return f'{gen_text(rng, 2, t)} {rng.choice(["==", "/=", "<", "<=", ">", ">="])} {gen_text(rng, 2, t)}'
    sub = lambda: gen_logical_text(rng, depth - 1)
    r = rng.random()
    if r < 0.25:
        return f'.not. ({sub()})'
    if r < 0.55:
        return f'{sub()} .and. {sub()}'
    if r < 0.8:
        return f'{sub()} .or. {sub()}'
    return f'({sub()})'


_keepalive = []


def frontend_parse(texts, logical=()):
    """parse expression texts with the real Fortran frontend; returns one rhs tree per text (None where the frontend
    rejects the text).  Texts are parsed in one routine; on a frontend error the batch is halved recursively."""
    try:
        return _frontend_parse(texts, logical)
    except Exception:
        if len(texts) <= 1:
            return [None] * len(texts)
        h = len(texts) // 2
        left = frontend_parse(texts[:h], {i for i in logical if i < h})
        right = frontend_parse(texts[h:], {i - h for i in logical if i >= h})
        return left + right


def _frontend_parse(texts, logical=()):
    from loki import Subroutine, FindNodes, Assignment
    from loki.frontend import FP
    decl = ('  integer :: ' + ', '.join(INT_VARS) + ', ri\n  real :: ' + ', '.join(REAL_VARS) + ', rr\n  logical :: '
            + ', '.join(LOG_VARS) + ', rl\n')
    body = ''
    for i, t in enumerate(texts):
        lhs = 'rl' if i in logical else 'rr'
        body += f'  {lhs} = {t}\n'
    src = f'subroutine harness_exprs({", ".join(INT_VARS + REAL_VARS + LOG_VARS)})\n{decl}{body}end subroutine harness_exprs\n'
    routine = Subroutine.from_source(src, frontend=FP)
    _keepalive.append(routine)   # symbols hold weak references to their scope
    del _keepalive[:-8]
    return [a.rhs for a in FindNodes(Assignment).visit(routine.body)]


def shrink_E(e):
    """structure-preserving smaller variants of a wire-form E: a subtree replaced by one of its children of the same sort,
    or one operand dropped from an n-ary node with more than two operands"""
    if not isinstance(e, list):
        return
    h = str(e[0])
    first = 2 if h in ('sum', 'prod', 'quot', 'pow', 'cmp') else 1
    kids = [i for i in range(first, len(e)) if isinstance(e[i], list)]
    arith = {'ilit', 'rlit', 'pyint', 'var', 'sum', 'prod', 'quot', 'pow'}
    for i in kids:
        same_sort = (h in arith) == (str(e[i][0]) in arith)
        if same_sort:
            yield e[i]
    if h in ('sum', 'prod', 'land', 'lor') and len(kids) > 2:
        for i in kids:
            yield e[:i] + e[i + 1:]
    for i in kids:
        for v in shrink_E(e[i]):
            yield e[:i] + [v] + e[i + 1:]
