from .core import main
main()
