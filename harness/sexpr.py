"""S-expression codec for the line protocol (mirror of lean/LokiModel/Sexp.lean).

Python value        wire form
A('foo')            foo            (bare atom)
int                 -12            (bare atom)
True/False          true/false     (bare atom)
str                 "text"         (quoted, escapes \\" \\\\ \\n)
list/tuple          ( ... )
"""


class A(str):
    """bare atom"""
    __slots__ = ()

    def __repr__(self):
        return f'A({str.__repr__(self)})'


def dumps(x):
    if isinstance(x, A):
        return str(x)
    if isinstance(x, bool):
        return 'true' if x else 'false'
    if isinstance(x, int):
        return str(x)
    if isinstance(x, str):
        return '"' + x.replace('\\', '\\\\').replace('"', '\\"').replace('\n', '\\n') + '"'
    if isinstance(x, (list, tuple)):
        return '(' + ' '.join(dumps(i) for i in x) + ')'
    if x is None:
        return 'none'
    raise TypeError(f'cannot encode {type(x)}')


def loads(s):
    pos = 0
    n = len(s)

    def skip():
        nonlocal pos
        while pos < n and s[pos] in ' \t\r\n':
            pos += 1

    def parse():
        nonlocal pos
        skip()
        if pos >= n:
            raise ValueError('eof')
        c = s[pos]
        if c == '(':
            pos += 1
            out = []
            while True:
                skip()
                if pos >= n:
                    raise ValueError('unclosed')
                if s[pos] == ')':
                    pos += 1
                    return out
                out.append(parse())
        if c == ')':
            raise ValueError('unexpected )')
        if c == '"':
            pos += 1
            buf = []
            while pos < n and s[pos] != '"':
                if s[pos] == '\\':
                    pos += 1
                    buf.append('\n' if s[pos] == 'n' else s[pos])
                else:
                    buf.append(s[pos])
                pos += 1
            pos += 1
            return ''.join(buf)
        start = pos
        while pos < n and s[pos] not in ' \t\r\n()':
            pos += 1
        return A(s[start:pos])

    r = parse()
    skip()
    if pos != n:
        raise ValueError('trailing')
    return r


def atom_int(x):
    return int(str(x))
