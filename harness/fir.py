"""
FIR ("mini-Fortran") tool box of the harness: generator, pretty printer, reference interpreter, gfortran runner,
Loki-IR exporter.  Shared by the builders of C01-C03 and C26-C41.  Documentation: notes/FIR.md.

The *wire form* of programs is the one documented at the top of lean/LokiModel/Fir/Codec.lean: python lists whose
heads are ``harness.sexpr.A`` atoms.  Conventions of this module (all accepted by the Lean decoder):

* names are ``A`` atoms (lower case); the only python ``str`` in a program is the text of a ``(nop kind "text")``;
* "absent" (``param``, ``step``, triplet parts) is ``A('none')``;
* integers are python ints and logical literals ``(b true|false)`` python bools in freshly built programs, atoms after
  ``canon``; accessors accept both - compare programs with ``dumps(a) == dumps(b)``;
* negative numbers inside *expressions* are written ``(neg (i 3))`` (see ``normalize``); values in input sets and
  results are plain ``(i -3)`` / ``(r -3 8)``.

Public API
    wire constructors     I R Bl V IDX SEC AT RNG BIN NEG NOT CALL ilit rlit NONE, canon, normalize, stmt_kinds
    gen_program(rng, cfg) / gen_inputs(rng, prog, k) / DEFAULT_CFG
    emit_fortran(prog, wrap_program=True, inputs=None, ...)
    interp(prog, inputs, fuel=100000, stats=None) / result_to_sexp / parse_result / run_lean / compare_results
    run_gfortran(items, workdir=None, ...)
    export_unit(obj, main=None) / parse_fortran(src) / export_stats / Unsupported
"""
import itertools
import os
import re
import shutil
import subprocess
import tempfile
from collections import Counter
from concurrent.futures import ThreadPoolExecutor
from fractions import Fraction
from pathlib import Path

from .sexpr import A, dumps, loads
from .feval import EvalError, tdiv, _div, _pow

VERIF = Path(__file__).resolve().parent.parent
LEAN = VERIF / 'lean'
GFORTRAN = '/usr/bin/gfortran'
GFORTRAN_FLAGS = ['-O0', '-fdefault-real-8', '-ffree-line-length-none', '-fcheck=bounds', '-ffpe-trap=invalid,zero', '-w']

NONE = A('none')
INTRINSICS = ('mod', 'min', 'max', 'abs', 'real', 'int')
ARITH = ('add', 'sub', 'mul', 'div', 'pow')
CMPS = ('eq', 'ne', 'lt', 'le', 'gt', 'ge')


# ====================================================================== wire constructors / accessors

def I(n):
    return [A('i'), int(n)]


def R(q):
    q = Fraction(q)
    return [A('r'), q.numerator, q.denominator]


def Bl(b):
    return [A('b'), bool(b)]


def ilit(n):
    """integer literal as an *expression* (negative numbers as ``(neg (i k))``, the only form a Fortran parser builds)"""
    n = int(n)
    return I(n) if n >= 0 else [A('neg'), I(-n)]


def rlit(q):
    q = Fraction(q)
    return R(q) if q >= 0 else [A('neg'), R(-q)]


def V(x):
    return [A('v'), A(x)]


def IDX(x, *subs):
    return [A('idx'), A(x)] + list(subs)


def SEC(x, *dims):
    return [A('sec'), A(x)] + list(dims)


def AT(e):
    return [A('at'), e]


def RNG(lo=None, hi=None, step=None):
    f = lambda e: NONE if e is None else e
    return [A('rng'), f(lo), f(hi), f(step)]


def BIN(op, a, b):
    return [A('bin'), A(op), a, b]


def NEG(a):
    return [A('neg'), a]


def NOT(a):
    return [A('not'), a]


def CALL(f, *args):
    return [A('call'), A(f)] + list(args)


def _h(x):
    """head of a wire list ('' for atoms)"""
    return str(x[0]) if isinstance(x, list) and x and not isinstance(x[0], list) else ''


def _is_none(x):
    return x is None or (not isinstance(x, list) and str(x) == 'none')


def _truth(x):
    return x is True or (not isinstance(x, bool) and str(x) == 'true')


def canon(x):
    """the structure a replay sees: ``loads(dumps(x))``"""
    return loads(dumps(x))


def prog_units(prog):
    """[(name, args, decls, body)] of a program in wire form"""
    return [(str(u[1]), [str(a) for a in u[2]], u[3], u[4]) for u in prog[2:]]


def prog_main(prog):
    return str(prog[1])


def find_unit(prog, name):
    for u in prog[2:]:
        if str(u[1]) == name:
            return u
    return None


def decl_fields(d):
    """(name, ty, intent, dims[(lo, hi)], param-or-None) of a decl in wire form"""
    return str(d[1]), str(d[2]), str(d[3]), [(b[0], b[1]) for b in d[4]], (None if _is_none(d[5]) else d[5])


def _map_ex(f, e):
    """rebuild expression ``e`` bottom-up applying ``f`` to every (rebuilt) node"""
    h = _h(e)
    if h in ('i', 'r', 'b', 'v'):
        return f(e)
    if h == 'idx' or h == 'call':
        return f(e[:2] + [_map_ex(f, c) for c in e[2:]])
    if h == 'sec':
        return f(e[:2] + [_map_dim(f, d) for d in e[2:]])
    if h in ('neg', 'not'):
        return f([e[0], _map_ex(f, e[1])])
    if h == 'bin':
        return f([e[0], e[1], _map_ex(f, e[2]), _map_ex(f, e[3])])
    raise ValueError(f'malformed expression {dumps(e)}')


def _map_dim(f, d):
    if _h(d) == 'at':
        return [d[0], _map_ex(f, d[1])]
    return [d[0]] + [x if _is_none(x) else _map_ex(f, x) for x in d[1:4]]


def _map_stmt(fe, s, fs=None):
    """rebuild statement ``s`` applying ``fe`` to every expression (bottom-up) and ``fs`` (list -> list) to every body"""
    h = _h(s)
    ex = lambda e: _map_ex(fe, e)
    body = lambda b: (fs or (lambda l: l))([_map_stmt(fe, t, fs) for t in b])
    if h == 'assign':
        return [s[0], ex(s[1]), ex(s[2])]
    if h == 'do':
        return [s[0], s[1], ex(s[2]), ex(s[3]), s[4] if _is_none(s[4]) else ex(s[4]), body(s[5])]
    if h == 'while':
        return [s[0], ex(s[1]), body(s[2])]
    if h == 'if':
        return [s[0], ex(s[1]), body(s[2]), body(s[3])]
    if h == 'select':
        return [s[0], ex(s[1]), [[list(c[0]), body(c[1])] for c in s[2]], body(s[3])]
    if h == 'assoc':
        return [s[0], [[b[0], ex(b[1])] for b in s[1]], body(s[2])]
    if h == 'callsub':
        return s[:2] + [ex(a) for a in s[2:]]
    if h == 'print':
        return s[:1] + [ex(a) for a in s[1:]]
    if h in ('exit', 'cycle', 'nop'):
        return list(s)
    raise ValueError(f'malformed statement {dumps(s)}')


def map_program(prog, fe=lambda e: e, fs=None):
    """rebuild a program applying ``fe`` to every expression node (bottom-up; declarations included) and ``fs`` to
    every statement list"""
    ex = lambda e: _map_ex(fe, e)
    units = []
    for u in prog[2:]:
        decls = [[d[0], d[1], d[2], d[3], [[ex(b[0]), ex(b[1])] for b in d[4]], d[5] if _is_none(d[5]) else ex(d[5])]
                 for d in u[3]]
        body = (fs or (lambda l: l))([_map_stmt(fe, s, fs) for s in u[4]])
        units.append([u[0], u[1], list(u[2]), decls, body])
    return [prog[0], prog[1]] + units


def normalize(prog):
    """Normal form under which ``export_unit(parse_fortran(emit_fortran(p, wrap_program=False)))`` equals ``p``:

    * negative literals in expressions become ``(neg literal)`` (a parser never builds a negative literal);
    * comment nops with empty text are dropped, nop texts are stripped;
    * names, numbers and absent parts become atoms (``canon``).
    """
    def fe(e):
        h = _h(e)
        if h == 'i' and int(str(e[1])) < 0:
            return [A('neg'), [A('i'), -int(str(e[1]))]]
        if h == 'r' and int(str(e[1])) < 0:
            return [A('neg'), [A('r'), -int(str(e[1])), int(str(e[2]))]]
        return e

    def fs(stmts):
        out = []
        for s in stmts:
            if _h(s) == 'nop':
                s = [s[0], A(str(s[1])), str(s[2]).strip()]
                if str(s[1]) == 'comment' and not s[2]:
                    continue
            out.append(s)
        return out
    return canon(map_program(canon(prog), fe, fs))


def stmt_kind(s):
    h = _h(s)
    if h == 'assign':
        l = _h(s[1])
        return {'v': 'assign_var', 'idx': 'assign_elem', 'sec': 'assign_section'}.get(l, 'assign_other')
    if h == 'nop':
        return 'nop_' + str(s[1])
    return {'callsub': 'call'}.get(h, h)


def iter_stmts(stmts):
    """all statements of a statement list, nested ones included (pre-order)"""
    for s in stmts:
        yield s
        h = _h(s)
        if h == 'do':
            yield from iter_stmts(s[5])
        elif h in ('while', 'assoc'):
            yield from iter_stmts(s[2])
        elif h == 'if':
            yield from iter_stmts(s[2])
            yield from iter_stmts(s[3])
        elif h == 'select':
            for c in s[2]:
                yield from iter_stmts(c[1])
            yield from iter_stmts(s[3])


def stmt_kinds(prog):
    """Counter of statement kinds of a program (``assign_var`` covers scalar and whole-array targets)"""
    c = Counter()
    for u in prog[2:]:
        for s in iter_stmts(u[4]):
            c[stmt_kind(s)] += 1
    return c


# ====================================================================== reference interpreter
#
# Written from the semantics notes at the top of lean/LokiModel/Fir/Sem.lean and the Fortran standard:
#   values: python int / Fraction / bool (None = undefined); integer division truncates (feval.tdiv); mixed mode
#   promotes to real; assignment converts to the declared type (real -> integer truncates toward zero);
#   DO: bounds and trip count max(0, (hi-lo+step)/step) fixed at entry, the variable is set at the start of every
#   iteration and holds lo+trips*step after normal termination, EXIT leaves it as it is;
#   array assignment: whole right-hand side first, then the stores (array element order);
#   ASSOCIATE: location of variable / element / section selectors, value of other expressions, bound at entry;
#   CALL: copy-in / copy-out in dummy order, scalars first on the way in (array bounds may mention scalar dummies),
#   array actuals sequence associated (flat), element actual = the array from that element on;
#   errors: undefined read, subscript out of bounds, type error, division by zero.
# Two things are taken over from the Lean model *as protocol* so that responses compare equal as strings: the error
# messages (one per statement kind) and the fuel discipline (fuel bounds the depth of the evaluation: it decreases
# by one along every statement of a list, every loop iteration and every nesting level).

class _Fail(Exception):
    """an evaluation step has no value (Lean: Option.none)"""


class _Err(Exception):
    """statement level error with the protocol message"""


class _Fuel(Exception):
    pass


class _Cell:
    __slots__ = ('ty', 'bounds', 'data')

    def __init__(self, ty, bounds, data):
        self.ty = ty            # 'int' | 'real' | 'logical'
        self.bounds = bounds    # None for scalars, [(lo, hi)] for arrays
        self.data = data        # list of values (None = undefined); scalars have one entry


class _State:
    __slots__ = ('store', 'alias')

    def __init__(self):
        self.store = []     # [[name, cell]] first match wins (ASSOCIATE value cells are prepended)
        self.alias = []     # [(name, loc)] first match wins; loc = ('whole', y) | ('elem', y, idx) | ('section', y, dims)

    def cell(self, x):
        for n, c in self.store:
            if n == x:
                return c
        return None

    def loc(self, x):
        for n, l in self.alias:
            if n == x:
                return l
        return None


NORMAL, EXIT, CYCLE = 'normal', 'exit', 'cycle'


def _is_int(v):
    return isinstance(v, int) and not isinstance(v, bool)


def _coerce(ty, v):
    if ty == 'int':
        if _is_int(v):
            return v
        if isinstance(v, Fraction):
            return tdiv(v.numerator, v.denominator)
    elif ty == 'real':
        if _is_int(v):
            return Fraction(v)
        if isinstance(v, Fraction):
            return v
    elif ty == 'logical':
        if isinstance(v, bool):
            return v
    raise _Fail()


def _offset(bounds, idx):
    if len(bounds) != len(idx):
        raise _Fail()
    off, mult = 0, 1
    for (lo, hi), i in zip(bounds, idx):
        if not lo <= i <= hi:
            raise _Fail()
        off += (i - lo) * mult
        mult *= max(0, hi - lo + 1)
    return off


def _trip(lo, hi, step):
    return max(0, tdiv(hi - lo + step, step))


def _positions(shape):
    """all 0-based position tuples of a shape, first dimension fastest"""
    if not shape:
        return [()]
    return [tuple(reversed(p)) for p in itertools.product(*[range(n) for n in reversed(shape)])]


class Interp:
    """one run of a program; ``stats`` (optional dict) receives ``max_int`` (largest integer magnitude produced),
    ``real_bits`` (largest significand width of a real produced), ``dyadic`` (all reals were dyadic), ``steps``"""

    def __init__(self, prog, stats=None):
        self.prog = prog
        self.units = {}
        for u in prog[2:]:
            self.units.setdefault(str(u[1]), u)
        self.out = []
        self.max_int = 0
        self.real_bits = 0
        self.real_exp = 0
        self.dyadic = True
        self.steps = 0
        self.cur = None
        self.stats = stats

    # ---------------------------------------------------------------- values
    def track(self, v):
        if isinstance(v, bool):
            return v
        if isinstance(v, int):
            if abs(v) > self.max_int:
                self.max_int = abs(v)
        elif isinstance(v, Fraction):
            d = v.denominator
            if d & (d - 1):
                self.dyadic = False
            n = abs(v.numerator)
            if n:
                e = abs(n.bit_length() - d.bit_length())
                if e > self.real_exp:
                    self.real_exp = e
                n >>= ((n & -n).bit_length() - 1)
                bits = max(n.bit_length(), 1)
                # magnitude counts too: |v| up to 2^k with k large is fine for doubles, keep only the significand
                if bits > self.real_bits:
                    self.real_bits = bits
        return v

    def binop(self, op, a, b):
        if op in ARITH:
            if isinstance(a, bool) or isinstance(b, bool):
                raise _Fail()
            try:
                if op == 'add':
                    r = a + b
                elif op == 'sub':
                    r = a - b
                elif op == 'mul':
                    r = a * b
                elif op == 'div':
                    r = _div(a, b)
                else:
                    if not _is_int(b):
                        raise _Fail()
                    r = _pow(a, b)
            except EvalError:
                raise _Fail()
            return self.track(r)
        if op in CMPS:
            if isinstance(a, bool) or isinstance(b, bool):
                raise _Fail()
            return {'eq': a == b, 'ne': a != b, 'lt': a < b, 'le': a <= b, 'gt': a > b, 'ge': a >= b}[op]
        if op in ('and', 'or'):
            if not (isinstance(a, bool) and isinstance(b, bool)):
                raise _Fail()
            return (a and b) if op == 'and' else (a or b)
        raise _Fail()

    @staticmethod
    def _minmax(name, args):
        """MIN/MAX folded pairwise from the left; a mixed integer/real pair yields a real"""
        if not args or any(isinstance(a, bool) for a in args):
            raise _Fail()
        acc = args[0]
        for b in args[1:]:
            take_a = acc <= b if name == 'min' else acc >= b
            r = acc if take_a else b
            if _is_int(r) and isinstance(b if take_a else acc, Fraction):
                r = Fraction(r)
            acc = r
        return acc

    def intrinsic(self, f, args):
        n = len(args)
        if f == 'mod' and n == 2 and _is_int(args[0]) and _is_int(args[1]):
            if args[1] == 0:
                raise _Fail()
            return args[0] - tdiv(args[0], args[1]) * args[1]
        if f == 'abs' and n == 1 and not isinstance(args[0], bool):
            return abs(args[0])
        if f in ('min', 'max') and n >= 1:
            return self._minmax(f, args)
        if f == 'real' and n == 1 and not isinstance(args[0], bool):
            return Fraction(args[0])
        if f == 'int' and n == 1 and not isinstance(args[0], bool):
            return _coerce('int', args[0])
        raise _Fail()

    # ---------------------------------------------------------------- store access
    def resolve(self, st, x, subs):
        loc = st.loc(x)
        if loc is None:
            return x, list(subs)
        if loc[0] == 'whole':
            return loc[1], list(subs)
        if loc[0] == 'elem':
            if subs:
                raise _Fail()
            return loc[1], list(loc[2])
        idx, rest = [], list(subs)
        for fixed, trip in loc[2]:
            if trip is None:
                idx.append(fixed)
            else:
                if not rest:
                    raise _Fail()
                s = rest.pop(0)
                idx.append(trip[0] + (s - 1) * trip[1])     # associated sections have lower bound 1
        if rest:
            raise _Fail()
        return loc[1], idx

    def read_at(self, st, x, subs):
        y, idx = self.resolve(st, x, subs)
        c = st.cell(y)
        if c is None:
            raise _Fail()
        if c.bounds is None:
            if idx:
                raise _Fail()
            v = c.data[0]
        else:
            v = c.data[_offset(c.bounds, idx)]
        if v is None:
            raise _Fail()       # undefined
        return v

    def write_at(self, st, x, subs, v):
        y, idx = self.resolve(st, x, subs)
        c = st.cell(y)
        if c is None:
            raise _Fail()
        if c.bounds is None:
            if idx:
                raise _Fail()
            c.data[0] = _coerce(c.ty, v)
        else:
            o = _offset(c.bounds, idx)
            w = _coerce(c.ty, v)
            if o >= len(c.data):
                raise _Fail()
            c.data[o] = w

    def bounds_of(self, st, x):
        """bounds of the array a name denotes (None for scalars); an associated section is only accessed by explicit
        subscripts (lower bound 1), its extents are not recorded (protocol: one placeholder dimension (1,1) per triplet)"""
        loc = st.loc(x)
        if loc is not None:
            if loc[0] == 'elem':
                return None
            c = st.cell(loc[1])
            if c is None or c.bounds is None:
                return None
            if loc[0] == 'section':
                return [(1, 1) for d in loc[2] if d[1] is not None]
            return c.bounds
        c = st.cell(x)
        return c.bounds if c is not None and c.bounds is not None else None

    # ---------------------------------------------------------------- expressions
    def eval(self, st, pos, e):
        h = _h(e)
        if h == 'i':
            return int(str(e[1]))
        if h == 'r':
            d = int(str(e[2]))
            if d <= 0:
                raise _Fail()
            return Fraction(int(str(e[1])), d)
        if h == 'b':
            return _truth(e[1])
        if h == 'v':
            x = str(e[1])
            bs = self.bounds_of(st, x)
            if bs is not None:
                if len(bs) != len(pos):
                    raise _Fail()
                return self.read_at(st, x, [b[0] + k for b, k in zip(bs, pos)])
            return self.read_at(st, x, [])
        if h == 'idx':
            return self.read_at(st, str(e[1]), self.eval_idx(st, pos, e[2:]))
        if h == 'sec':
            x = str(e[1])
            bs = self.bounds_of(st, x)
            if bs is None:
                raise _Fail()
            return self.read_at(st, x, self.eval_sec(st, pos, bs, e[2:], pos))
        if h == 'neg':
            v = self.eval(st, pos, e[1])
            if isinstance(v, bool):
                raise _Fail()
            return -v
        if h == 'not':
            v = self.eval(st, pos, e[1])
            if not isinstance(v, bool):
                raise _Fail()
            return not v
        if h == 'bin':
            a = self.eval(st, pos, e[2])
            b = self.eval(st, pos, e[3])
            return self.binop(str(e[1]), a, b)
        if h == 'call':
            return self.intrinsic(str(e[1]), [self.eval(st, pos, a) for a in e[2:]])
        raise _Fail()

    def eval_int(self, st, pos, e):
        v = self.eval(st, pos, e)
        if not _is_int(v):
            raise _Fail()
        return v

    def eval_idx(self, st, pos, es):
        return [self.eval_int(st, pos, e) for e in es]

    def eval_sec(self, st, pos, bs, dims, ks):
        """index tuple of the element of a section selected by the position counters ``ks`` (one per triplet)"""
        if len(bs) != len(dims):
            raise _Fail()
        ks = list(ks)
        out = []
        for b, d in zip(bs, dims):
            if _h(d) == 'at':
                out.append(self.eval_int(st, pos, d[1]))
            elif _h(d) == 'rng':
                if not ks:
                    raise _Fail()
                k = ks.pop(0)
                lo = b[0] if _is_none(d[1]) else self.eval_int(st, pos, d[1])
                step = 1 if _is_none(d[3]) else self.eval_int(st, pos, d[3])
                out.append(lo + k * step)
            else:
                raise _Fail()
        return out

    def sec_shape(self, st, bs, dims):
        if len(bs) != len(dims):
            raise _Fail()
        shape = []
        for b, d in zip(bs, dims):
            if _h(d) == 'at':
                continue
            if _h(d) != 'rng':
                raise _Fail()
            lo = b[0] if _is_none(d[1]) else self.eval_int(st, (), d[1])
            hi = b[1] if _is_none(d[2]) else self.eval_int(st, (), d[2])
            step = 1 if _is_none(d[3]) else self.eval_int(st, (), d[3])
            if step == 0:
                raise _Fail()
            shape.append(_trip(lo, hi, step))
        return shape

    # ---------------------------------------------------------------- statements
    def assign(self, st, lhs, rhs):
        h = _h(lhs)
        if h == 'idx':
            idx = self.eval_idx(st, (), lhs[2:])
            v = self.eval(st, (), rhs)
            self.write_at(st, str(lhs[1]), idx, v)
        elif h == 'v':
            x = str(lhs[1])
            bs = self.bounds_of(st, x)
            if bs is None:
                self.write_at(st, x, [], self.eval(st, (), rhs))
            else:
                ps = _positions([max(0, b[1] - b[0] + 1) for b in bs])
                vals = [self.eval(st, p, rhs) for p in ps]
                for p, v in zip(ps, vals):
                    self.write_at(st, x, [b[0] + k for b, k in zip(bs, p)], v)
        elif h == 'sec':
            x = str(lhs[1])
            bs = self.bounds_of(st, x)
            if bs is None:
                raise _Fail()
            ps = _positions(self.sec_shape(st, bs, lhs[2:]))
            vals = [self.eval(st, p, rhs) for p in ps]
            targets = [self.eval_sec(st, p, bs, lhs[2:], p) for p in ps]
            for t, v in zip(targets, vals):
                self.write_at(st, x, t, v)
        else:
            raise _Fail()

    def print_vals(self, st, e):
        if _h(e) == 'v':
            bs = self.bounds_of(st, str(e[1]))
            if bs is not None:
                return [self.eval(st, p, e) for p in _positions([max(0, b[1] - b[0] + 1) for b in bs])]
        return [self.eval(st, (), e)]

    def decl_cell(self, st, d):
        name, ty, intent, dims, param = decl_fields(d)
        if not dims:
            return _Cell(ty, None, [None])
        bs = [(self.eval_int(st, (), lo), self.eval_int(st, (), hi)) for lo, hi in dims]
        size = 1
        for lo, hi in bs:
            size *= max(0, hi - lo + 1)
        return _Cell(ty, bs, [None] * size)

    @staticmethod
    def fill_cell(c, vals):
        if c.bounds is None:
            c.data[0] = _coerce(c.ty, vals[0]) if vals and vals[0] is not None else None
        else:
            n = min(len(vals), len(c.data))
            c.data[:n] = vals[:n]
        return c

    def bind_loc(self, st, e):
        """location an ASSOCIATE selector denotes, or None when the selector is an expression (bound by value)"""
        h = _h(e)
        if h == 'v':
            x = str(e[1])
            return st.loc(x) or ('whole', x)
        if h == 'idx':
            y, idx = self.resolve(st, str(e[1]), self.eval_idx(st, (), e[2:]))
            return ('elem', y, idx)
        if h == 'sec':
            x = str(e[1])
            if st.loc(x) is not None:
                raise _Fail()       # sections of associate names are outside FIR
            bs = self.bounds_of(st, x)
            if bs is None or len(bs) != len(e) - 2:
                raise _Fail()
            dims = []
            for b, d in zip(bs, e[2:]):
                if _h(d) == 'at':
                    dims.append((self.eval_int(st, (), d[1]), None))
                elif _h(d) == 'rng':
                    lo = b[0] if _is_none(d[1]) else self.eval_int(st, (), d[1])
                    step = 1 if _is_none(d[3]) else self.eval_int(st, (), d[3])
                    dims.append((lo, (lo, step)))
                else:
                    raise _Fail()
            return ('section', x, dims)
        return None

    def actual_data(self, st, a, where=None):
        h = _h(a)
        if h == 'v':
            x = str(a[1])
            if st.loc(x) is not None:
                return [self.read_at(st, x, [])]
            c = st.cell(x)
            if c is None:
                raise _Fail()
            return list(c.data)
        if h == 'idx':
            y, idx = where if where is not None else self.resolve(st, str(a[1]), self.eval_idx(st, (), a[2:]))
            c = st.cell(y)
            if c is None:
                raise _Fail()
            if c.bounds is None:
                return [c.data[0]]
            return c.data[_offset(c.bounds, idx):]      # sequence association: from this element on
        return [self.eval(st, (), a)]

    def write_back(self, st, a, vals, where=None):
        """copy the final data of a dummy back to its actual argument; ``where`` = (cell name, index tuple) of an
        element actual as resolved when the call started"""
        h = _h(a)
        if h == 'v':
            x = str(a[1])
            if st.loc(x) is not None:
                if vals and vals[0] is not None:
                    self.write_at(st, x, [], vals[0])
                return
            c = st.cell(x)
            if c is None:
                raise _Fail()
            if c.bounds is None:
                if vals and vals[0] is not None:
                    c.data[0] = _coerce(c.ty, vals[0])
            else:
                c.data = vals[:len(c.data)] + c.data[len(vals):]
        elif h == 'idx':
            y, idx = where if where is not None else self.resolve(st, str(a[1]), self.eval_idx(st, (), a[2:]))
            c = st.cell(y)
            if c is None:
                raise _Fail()
            if c.bounds is None:
                if vals and vals[0] is not None:
                    c.data[0] = _coerce(c.ty, vals[0])
            else:
                o = _offset(c.bounds, idx)
                n = min(len(vals), len(c.data) - o)
                c.data[o:o + n] = vals[:n]

    def enter_unit(self, u, get_data, msg):
        """cells of a unit: scalar dummies, then array dummies (bounds may use the scalars), then locals in
        declaration order (PARAMETERs get their value)"""
        decls = {}
        for d in u[3]:
            decls.setdefault(str(d[1]), d)
        args = [str(a) for a in u[2]]
        cs = _State()
        try:
            for want_scalar in (True, False):
                for k, x in enumerate(args):
                    d = decls.get(x)
                    if (d is None or not d[4]) != want_scalar:
                        continue
                    if d is None:
                        raise _Fail()
                    c = self.decl_cell(cs, d)
                    cs.store.append([x, self.fill_cell(c, get_data(k, x))])
            for d in u[3]:
                x = str(d[1])
                if x in args:
                    continue
                c = self.decl_cell(cs, d)
                if not _is_none(d[5]):
                    c = self.fill_cell(c, [self.eval(cs, (), d[5])])
                cs.store.append([x, c])
        except _Fail:
            raise _Err(msg)
        return cs, decls, args

    def exec_stmts(self, f, stmts, st):
        for s in stmts:
            if f == 0:
                raise _Fuel()
            f -= 1
            sig = self.exec_stmt(f, s, st)
            if sig != NORMAL:
                return sig
        if f == 0:
            raise _Fuel()
        return NORMAL

    def exec_stmt(self, f, s, st):
        if f == 0:
            raise _Fuel()
        f -= 1
        self.steps += 1
        self.cur = s
        h = _h(s)
        if h == 'assign':
            try:
                self.assign(st, s[1], s[2])
            except _Fail:
                raise _Err('assign')
            return NORMAL
        if h == 'do':
            try:
                lo = self.eval_int(st, (), s[2])
                hi = self.eval_int(st, (), s[3])
                step = 1 if _is_none(s[4]) else self.eval_int(st, (), s[4])
            except _Fail:
                raise _Err('do bounds')
            if step == 0:
                raise _Err('zero step')
            return self.do_iter(f, str(s[1]), s[5], step, _trip(lo, hi, step), lo, st)
        if h == 'while':
            while True:
                if f == 0:
                    raise _Fuel()
                f -= 1
                self.cur = s
                try:
                    c = self.eval(st, (), s[1])
                except _Fail:
                    c = None
                if c is True:
                    sig = self.exec_stmts(f, s[2], st)
                    if sig == EXIT:
                        return NORMAL
                elif c is False:
                    return NORMAL
                else:
                    raise _Err('while condition')
        if h == 'if':
            try:
                c = self.eval(st, (), s[1])
            except _Fail:
                c = None
            if c is True:
                return self.exec_stmts(f, s[2], st)
            if c is False:
                return self.exec_stmts(f, s[3], st)
            raise _Err('if condition')
        if h == 'select':
            try:
                i = self.eval_int(st, (), s[1])
            except _Fail:
                raise _Err('select')
            for vals, body in s[2]:
                if any(int(str(v)) == i for v in vals):
                    return self.exec_stmts(f, body, st)
            return self.exec_stmts(f, s[3], st)
        if h == 'assoc':
            return self.exec_assoc(f, s, st)
        if h == 'callsub':
            return self.exec_call(f, s, st)
        if h == 'print':
            try:
                line = []
                for a in s[1:]:
                    line.extend(self.print_vals(st, a))
            except _Fail:
                raise _Err('print')
            self.out.append(line)
            return NORMAL
        if h == 'exit':
            return EXIT
        if h == 'cycle':
            return CYCLE
        if h == 'nop':
            return NORMAL
        raise _Err('bad statement')      # the Lean decoder rejects such a request: (error bad-op)

    def do_iter(self, f, v, body, step, n, cur, st):
        while True:
            if f == 0:
                raise _Fuel()
            f -= 1
            try:
                self.write_at(st, v, [], cur)
            except _Fail:
                raise _Err('loop variable')
            if n == 0:
                return NORMAL
            n -= 1
            sig = self.exec_stmts(f, body, st)
            if sig == EXIT:
                return NORMAL
            cur += step

    def exec_assoc(self, f, s, st):
        binds = [(str(b[0]), b[1]) for b in s[1]]
        try:
            resolved = []
            for n, e in binds:       # every selector is evaluated in the state at entry
                loc = self.bind_loc(st, e)
                resolved.append((n, loc, self.eval(st, (), e) if loc is None else None))
        except _Fail:
            raise _Err('associate')
        saved_alias = list(st.alias)
        for n, loc, v in resolved:
            if loc is not None:
                st.alias.insert(0, (n, loc))
            else:
                ty = 'logical' if isinstance(v, bool) else 'int' if isinstance(v, int) else 'real'
                st.store.insert(0, [n, _Cell(ty, None, [v])])
                st.alias = [a for a in st.alias if a[0] != n]
        value_cells = [n for n, _ in binds if st.loc(n) is None]
        sig = self.exec_stmts(f, s[2], st)
        for n in value_cells:
            for k, (m, _) in enumerate(st.store):
                if m == n:
                    del st.store[k]
                    break
        st.alias = saved_alias
        return sig

    def exec_call(self, f, s, st):
        u = self.units.get(str(s[1]))
        if u is None:
            raise _Err('unknown unit')
        actuals = s[2:]
        if len(u[2]) != len(actuals):
            raise _Err('argument count')
        # F2018 15.5.2.3: the actual argument (here: which array element) is established when the call starts
        where = []
        try:
            for a in actuals:
                where.append(self.resolve(st, str(a[1]), self.eval_idx(st, (), a[2:])) if _h(a) == 'idx' else None)
        except _Fail:
            raise _Err('actual argument')
        cs, decls, args = self.enter_unit(u, lambda k, x: self.actual_data(st, actuals[k], where[k]), 'call binding')
        sig = self.exec_stmts(f, u[4], cs)
        if sig != NORMAL:
            raise _Err('exit/cycle outside loop')
        try:
            for x, a, w in zip(args, actuals, where):       # copy out in dummy order
                if str(decls[x][3]) == 'in':
                    continue
                c = cs.cell(x)
                if c is None:
                    raise _Fail()
                self.write_back(st, a, list(c.data), w)
        except _Fail:
            raise _Err('copy out')
        return NORMAL

    def run_main(self, inputs, fuel):
        u = self.units.get(prog_main(self.prog))
        if u is None:
            return ('error', 'no main')
        given = {}
        for row in inputs:
            given.setdefault(str(row[0]), [decode_val(v) for v in row[1:]])
        try:
            cs, decls, args = self.enter_unit(u, lambda k, x: given.get(x, []), 'main binding')
            self.exec_stmts(fuel, u[4], cs)
        except _Err as e:
            if self.stats is not None and self.cur is not None:
                self.stats['failed_stmt'] = dumps(self.cur)[:400]
            return ('error', str(e))
        except _Fuel:
            return ('fuel',)
        finally:
            if self.stats is not None:
                self.stats.update(max_int=self.max_int, real_bits=self.real_bits, real_exp=self.real_exp, dyadic=self.dyadic,
                                  steps=self.steps)
        finals = {}
        for x in args:
            c = cs.cell(x)
            finals[x] = list(c.data) if c is not None else 'missing'
        return ('ok', finals, self.out)


def decode_val(v):
    """wire value -> python value (None for ``undef``)"""
    h = _h(v)
    if h == 'i':
        return int(str(v[1]))
    if h == 'r':
        return Fraction(int(str(v[1])), int(str(v[2])))
    if h == 'b':
        return _truth(v[1])
    if str(v) == 'undef':
        return None
    raise ValueError(f'bad value {dumps(v)}')


def encode_val(v):
    if v is None:
        return A('undef')
    if isinstance(v, bool):
        return [A('b'), v]
    if isinstance(v, int):
        return [A('i'), v]
    if isinstance(v, Fraction):
        return [A('r'), v.numerator, v.denominator]
    raise TypeError(f'not a FIR value: {v!r}')


def interp(prog, inputs, fuel=100000, stats=None):
    """Run the main unit of ``prog`` (wire form) on ``inputs`` (wire form ``((x val...)...)``).

    Returns ``('ok', {dummy: [values...]}, [[printed values...]...])`` (dummies in argument order, arrays flat in
    element order, ``None`` = undefined), ``('error', msg)`` or ``('fuel',)`` - the structure the Lean driver prints
    (``result_to_sexp``).  ``stats``: optional dict filled with ``max_int``, ``real_bits``, ``real_exp``, ``dyadic``,
    ``steps`` and, after an error, ``failed_stmt``."""
    return Interp(prog, stats).run_main(inputs, fuel)


def result_to_sexp(res):
    """the response S-expression of lean/Drivers/Fir.lean for a result; ``dumps(result_to_sexp(r))`` is the line"""
    if res[0] == 'ok':
        finals = [[str(x)] + ([A('missing')] if vs == 'missing' else [encode_val(v) for v in vs])
                  for x, vs in res[1].items()]
        return [A('ok'), finals, [[encode_val(v) for v in line] for line in res[2]]]
    if res[0] == 'error':
        return [A('error'), str(res[1])]
    if res[0] == 'fuel':
        return [A('fuel')]
    return [A(str(res[0]))] + [str(x) for x in res[1:]]


def parse_result(line):
    """inverse of ``dumps(result_to_sexp(.))``: a driver response line -> result tuple"""
    x = loads(line) if isinstance(line, str) else line
    h = _h(x)
    if h == 'ok':
        finals = {}
        for row in x[1]:
            finals[str(row[0])] = 'missing' if (len(row) == 2 and str(row[1]) == 'missing' and not isinstance(row[1], list)) \
                else [decode_val(v) for v in row[1:]]
        return ('ok', finals, [[decode_val(v) for v in l] for l in x[2]])
    if h == 'error':
        return ('error',) + tuple(str(a) for a in x[1:])
    return (h,)


def run_request(prog, inputs, fuel=100000):
    """the request line understood by lean/Drivers/Fir.lean"""
    return dumps([A('run'), fuel, prog, inputs])


def run_lean(reqs, jobs=None, timeout=3600):
    """Pipe request lines (strings, or ``(prog, inputs)`` / ``(prog, inputs, fuel)`` tuples) to the Lean FIR driver
    and return the response lines.  Requests are spread over ``jobs`` driver processes (default: one per 150
    requests, at most 8); the driver must have been built (``lake build LokiModel.Fir.Codec``)."""
    lines = [r if isinstance(r, str) else run_request(*r) for r in reqs]
    if not lines:
        return []
    if jobs is None:
        jobs = max(1, min(8, len(lines) // 150))
    size = -(-len(lines) // jobs)
    chunks = [lines[i:i + size] for i in range(0, len(lines), size)]

    def one(chunk):
        p = subprocess.run(['lake', 'env', 'lean', '--run', 'Drivers/Fir.lean'], cwd=LEAN, input='\n'.join(chunk) + '\n',
                           stdout=subprocess.PIPE, stderr=subprocess.PIPE, text=True, timeout=timeout)
        outs = [l for l in p.stdout.splitlines() if l.strip()]
        if p.returncode != 0 or len(outs) != len(chunk):
            raise RuntimeError(f'FIR driver failed rc={p.returncode}: {len(outs)} responses for {len(chunk)} requests: '
                               + p.stderr[-600:] + p.stdout[-300:])
        return outs
    if len(chunks) == 1:
        return one(chunks[0])
    with ThreadPoolExecutor(len(chunks)) as ex:
        return [l for outs in ex.map(one, chunks) for l in outs]


def compare_results(ref, other, undef_wild=True):
    """None when two result tuples agree, else a short description.  With ``undef_wild`` an undefined value in
    ``ref`` (interpreter) matches anything in ``other`` (a compiler cannot show undefinedness); any two errors agree
    (compilers do not share the protocol messages)."""
    if ref[0] != other[0]:
        return f'{ref[0]} vs {other[0]}' + (f' ({other[1]})' if len(other) > 1 and other[0] != 'ok' else '') \
            + (f' ({ref[1]})' if len(ref) > 1 and ref[0] != 'ok' else '')
    if ref[0] != 'ok':
        return None
    same = lambda a, b: (a is None and undef_wild) or (type(a) is type(b) and a == b)
    if list(ref[1]) != list(other[1]):
        return f'dummies {list(ref[1])} vs {list(other[1])}'
    for x in ref[1]:
        a, b = ref[1][x], other[1][x]
        if len(a) != len(b) or not all(same(p, q) for p, q in zip(a, b)):
            return f'final value of {x}: {a} vs {b}'
    if len(ref[2]) != len(other[2]):
        return f'{len(ref[2])} vs {len(other[2])} printed lines'
    for k, (a, b) in enumerate(zip(ref[2], other[2])):
        if len(a) != len(b) or not all(same(p, q) for p, q in zip(a, b)):
            return f'printed line {k}: {a} vs {b}'
    return None


# ====================================================================== pretty printer (FIR -> free-form Fortran)
#
# Independent of Loki's fgen.  Operator precedences (F2018 10.1.2): .or. 1, .and. 2, .not. 3, relational 4,
# binary/unary + - 5, * / 6, ** 7 (right associative).  Parentheses are printed exactly where the grammar needs
# them to reproduce the tree, so that parsing the text gives back the same tree.

_PREC = {'or': 1, 'and': 2, 'add': 5, 'sub': 5, 'mul': 6, 'div': 6, 'pow': 7}
_OPTXT = {'add': '+', 'sub': '-', 'mul': '*', 'div': '/', 'pow': '**', 'and': '.and.', 'or': '.or.',
          'eq': '==', 'ne': '/=', 'lt': '<', 'le': '<=', 'gt': '>', 'ge': '>='}


def _is_pow2(d):
    return d > 0 and d & (d - 1) == 0


def fmt_real(q):
    """exact decimal text of a non-negative dyadic rational (``3/8`` -> ``0.375``); other rationals are printed as a
    quotient of two real literals (not exact in binary floating point, never generated)"""
    q = Fraction(q)
    if q < 0:
        return '-' + fmt_real(-q)
    if not _is_pow2(q.denominator):
        return f'({q.numerator}.0 / {q.denominator}.0)'
    k = q.denominator.bit_length() - 1
    digits = str(q.numerator * 5 ** k).rjust(k + 1, '0')
    whole, frac = (digits[:-k], digits[-k:]) if k else (digits, '')
    frac = frac.rstrip('0') or '0'
    return f'{whole}.{frac}'


def _ex_prec(e):
    h = _h(e)
    if h == 'bin':
        o = str(e[1])
        return 4 if o in CMPS else _PREC[o]
    if h == 'neg':
        return 5
    if h == 'not':
        return 3
    if h == 'i':
        return 5 if int(str(e[1])) < 0 else 8
    if h == 'r':
        q = Fraction(int(str(e[1])), int(str(e[2])))
        return 5 if q < 0 else (8 if _is_pow2(q.denominator) else 8)
    return 8


def emit_ex(e):
    """Fortran text of an expression"""
    def par(x, need):
        t = emit_ex(x)
        return f'({t})' if need else t
    h = _h(e)
    if h == 'i':
        return str(int(str(e[1])))
    if h == 'r':
        return fmt_real(Fraction(int(str(e[1])), int(str(e[2]))))
    if h == 'b':
        return '.true.' if _truth(e[1]) else '.false.'
    if h == 'v':
        return str(e[1])
    if h == 'idx':
        return f'{e[1]}(' + ', '.join(emit_ex(s) for s in e[2:]) + ')'
    if h == 'sec':
        return f'{e[1]}(' + ', '.join(_emit_dim(d) for d in e[2:]) + ')'
    if h == 'call':
        return f'{e[1]}(' + ', '.join(emit_ex(a) for a in e[2:]) + ')'
    if h == 'neg':
        return '-' + par(e[1], _ex_prec(e[1]) <= 5)
    if h == 'not':
        return '.not. ' + par(e[1], _ex_prec(e[1]) <= 3)
    if h == 'bin':
        o = str(e[1])
        a, b = e[2], e[3]
        pa, pb = _ex_prec(a), _ex_prec(b)
        if o in CMPS:
            return f'{par(a, pa <= 4)} {_OPTXT[o]} {par(b, pb <= 4)}'
        p = _PREC[o]
        if o == 'pow':
            return f'{par(a, pa <= 7)} ** {par(b, pb < 7)}'
        if o in ('add', 'sub'):
            # a leading sign is part of the level-2 grammar: "-a + b" is (-a) + b
            left = par(a, pa < 5)
            return f'{left} {_OPTXT[o]} {par(b, pb <= 5)}'
        return f'{par(a, pa < p)} {_OPTXT[o]} {par(b, pb <= p)}'
    raise ValueError(f'malformed expression {dumps(e)}')


def _emit_dim(d):
    if _h(d) == 'at':
        return emit_ex(d[1])
    lo, hi, st = d[1], d[2], d[3]
    t = ('' if _is_none(lo) else emit_ex(lo)) + ':' + ('' if _is_none(hi) else emit_ex(hi))
    return t if _is_none(st) else t + ':' + emit_ex(st)


_TYNAME = {'int': 'integer', 'real': 'real', 'logical': 'logical'}
_CANON_FMT = {'int': '\'("I ",I0)\'', 'real': '\'("R ",ES25.17E3)\'', 'logical': '\'("L ",L1)\''}


class TypeEnv:
    """static types of the names of one unit (declarations + ASSOCIATE names in scope)"""

    def __init__(self, decls):
        self.ty = {}
        for d in decls:
            self.ty.setdefault(str(d[1]), str(d[2]))

    def of(self, e):
        h = _h(e)
        if h == 'i':
            return 'int'
        if h == 'r':
            return 'real'
        if h == 'b':
            return 'logical'
        if h in ('v', 'idx', 'sec'):
            t = self.ty.get(str(e[1]))
            if t is None:
                raise ValueError(f'undeclared name {e[1]}')
            return t
        if h == 'neg':
            return self.of(e[1])
        if h == 'not':
            return 'logical'
        if h == 'bin':
            o = str(e[1])
            if o in ARITH:
                return 'real' if 'real' in (self.of(e[2]), self.of(e[3])) else 'int'
            return 'logical'
        if h == 'call':
            f = str(e[1])
            if f in ('mod', 'int'):
                return 'int'
            if f == 'real':
                return 'real'
            ts = [self.of(a) for a in e[2:]]
            return 'real' if 'real' in ts else 'int'
        raise ValueError(f'malformed expression {dumps(e)}')


def _emit_decl(d):
    name, ty, intent, dims, param = decl_fields(d)
    attrs = _TYNAME[ty]
    if intent != 'none':
        attrs += f', intent({intent})'
    if param is not None:
        attrs += ', parameter'
    t = name
    if dims:
        t += '(' + ', '.join(emit_ex(hi) if (_h(lo) == 'i' and int(str(lo[1])) == 1) else f'{emit_ex(lo)}:{emit_ex(hi)}'
                             for lo, hi in dims) + ')'
    if param is not None:
        t += ' = ' + emit_ex(param)
    return f'{attrs} :: {t}'


def _emit_stmts(stmts, ind, env, canonical, prefix, out):
    p = '  ' * ind
    rec = lambda b, e=env: _emit_stmts(b, ind + 1, e, canonical, prefix, out)
    for s in stmts:
        h = _h(s)
        if h == 'assign':
            out.append(f'{p}{emit_ex(s[1])} = {emit_ex(s[2])}')
        elif h == 'do':
            step = '' if _is_none(s[4]) else ', ' + emit_ex(s[4])
            out.append(f'{p}do {s[1]} = {emit_ex(s[2])}, {emit_ex(s[3])}{step}')
            rec(s[5])
            out.append(f'{p}end do')
        elif h == 'while':
            out.append(f'{p}do while ({emit_ex(s[1])})')
            rec(s[2])
            out.append(f'{p}end do')
        elif h == 'if':
            out.append(f'{p}if ({emit_ex(s[1])}) then')
            rec(s[2])
            els = s[3]
            while len(els) == 1 and _h(els[0]) == 'if':     # ELSE IF chain
                out.append(f'{p}else if ({emit_ex(els[0][1])}) then')
                rec(els[0][2])
                els = els[0][3]
            if els:
                out.append(f'{p}else')
                rec(els)
            out.append(f'{p}end if')
        elif h == 'select':
            out.append(f'{p}select case ({emit_ex(s[1])})')
            for vals, body in s[2]:
                out.append(f'{p}case (' + ', '.join(str(int(str(v))) for v in vals) + ')')
                rec(body)
            if s[3]:
                out.append(f'{p}case default')
                rec(s[3])
            out.append(f'{p}end select')
        elif h == 'assoc':
            out.append(f'{p}associate (' + ', '.join(f'{b[0]} => {emit_ex(b[1])}' for b in s[1]) + ')')
            inner = TypeEnv([])
            inner.ty = dict(env.ty)
            for b in s[1]:
                try:
                    inner.ty[str(b[0])] = env.of(b[1])
                except ValueError:
                    pass
            rec(s[2], inner)
            out.append(f'{p}end associate')
        elif h == 'callsub':
            out.append(f'{p}call {prefix}{s[1]}(' + ', '.join(emit_ex(a) for a in s[2:]) + ')')
        elif h == 'print':
            if canonical:
                out.append(f"{p}write(*,'(A)') 'P'")
                for a in s[1:]:
                    out.append(f'{p}write(*,{_CANON_FMT[env.of(a)]}) {emit_ex(a)}')
            else:
                out.append(f'{p}print *' + ''.join(', ' + emit_ex(a) for a in s[1:]))
        elif h == 'exit':
            out.append(f'{p}exit')
        elif h == 'cycle':
            out.append(f'{p}cycle')
        elif h == 'nop':
            out.append(f'{p}!$' + str(s[2]) if str(s[1]) == 'pragma' else f'{p}! ' + str(s[2]))
        else:
            raise ValueError(f'malformed statement {dumps(s)}')


def emit_unit(u, canonical=False, prefix=''):
    """one unit as an external SUBROUTINE (list of lines)"""
    name, args, decls, body = str(u[1]), [str(a) for a in u[2]], u[3], u[4]
    out = [f'subroutine {prefix}{name}(' + ', '.join(args) + ')', '  implicit none']
    out += ['  ' + _emit_decl(d) for d in decls]
    _emit_stmts(body, 1, TypeEnv(decls), canonical, prefix, out)
    out.append(f'end subroutine {prefix}{name}')
    return out


def main_shapes(prog, inputs):
    """[(name, ty, intent, bounds-or-None)] of the main unit's dummies with array bounds evaluated on ``inputs``"""
    it = Interp(prog)
    u = it.units.get(prog_main(prog))
    if u is None:
        raise ValueError('no main unit')
    given = {}
    for row in inputs:
        given.setdefault(str(row[0]), [decode_val(v) for v in row[1:]])
    try:
        cs, decls, args = it.enter_unit(u, lambda k, x: given.get(x, []), 'main binding')
    except _Err:
        raise ValueError('cannot evaluate the bounds of the main unit\'s dummies on these inputs')
    return [(x, str(decls[x][2]), str(decls[x][3]), cs.cell(x).bounds) for x in args]


def _lit_text(ty, v):
    if v is None:       # undefined on entry: a fixed sentinel keeps the compiled program deterministic
        return {'int': '-777', 'real': '-777.0', 'logical': '.false.'}[ty]
    if isinstance(v, bool):
        return '.true.' if v else '.false.'
    if isinstance(v, Fraction):
        return fmt_real(v)
    return str(v)


def emit_driver(prog, inputs, name='drv', prefix='', tag=1):
    """lines of a SUBROUTINE without arguments that declares the main unit's dummies, initialises them from
    ``inputs``, calls the main unit and writes the canonical output (see notes/FIR.md)"""
    shapes = main_shapes(prog, inputs)
    given = {}
    for row in inputs:
        given.setdefault(str(row[0]), [decode_val(v) for v in row[1:]])
    out = [f'subroutine {name}()', '  implicit none']
    init = []
    for x, ty, intent, bs in shapes:
        vals = list(given.get(x, []))
        if bs is None:
            out.append(f'  {_TYNAME[ty]} :: {x}')
            init.append(f'  {x} = {_lit_text(ty, _coerce_or_none(ty, vals[0] if vals else None))}')
        else:
            size = 1
            for lo, hi in bs:
                size *= max(0, hi - lo + 1)
            out.append(f'  {_TYNAME[ty]} :: {x}(' + ', '.join(f'{lo}:{hi}' for lo, hi in bs) + ')')
            vals = (vals + [None] * size)[:size]
            if size:
                elems = ', '.join(_lit_text(ty, _coerce_or_none(ty, v)) for v in vals)
                init.append(f'  {x} = reshape((/ {elems} /), (/ ' + ', '.join(str(max(0, hi - lo + 1)) for lo, hi in bs) + ' /))')
    out += init
    out.append(f"  write(*,'(A,I0)') 'B ', {tag}")
    out.append('  flush(6)')
    out.append(f'  call {prefix}{prog_main(prog)}(' + ', '.join(x for x, _, _, _ in shapes) + ')')
    for x, ty, intent, bs in shapes:
        out.append(f"  write(*,'(A)') 'D {x}'")
        if bs is None or all(hi >= lo for lo, hi in bs):
            out.append(f'  write(*,{_CANON_FMT[ty]}) {x}')
    out.append(f"  write(*,'(A,I0)') 'E ', {tag}")
    out.append('  flush(6)')
    out.append(f'end subroutine {name}')
    return out


def _coerce_or_none(ty, v):
    if v is None:
        return None
    try:
        return _coerce(ty, v)
    except _Fail:
        return None


def emit_fortran(prog, wrap_program=True, inputs=None, canonical_print=None, prefix=''):
    """Free-form Fortran source of a FIR program: every unit an external SUBROUTINE (main unit first as given).

    ``wrap_program=False``: just the units, PRINT statements as list-directed ``print *, ...`` - this is the text that
    round-trips through the Loki frontend (``export_unit(parse_fortran(text)) == normalize(prog)``).
    ``wrap_program=True``: additionally a driver subroutine and a PROGRAM that initialises the main unit's dummies
    from ``inputs`` (wire form; default: ``gen_inputs(Random(0), prog, 1)[0]``), calls it and writes the canonical
    output; PRINT statements are then emitted as canonical writes (``canonical_print`` overrides either default).
    Compile with ``GFORTRAN_FLAGS`` (``-fdefault-real-8``: FIR has one real type, double precision)."""
    canonical = wrap_program if canonical_print is None else canonical_print
    lines = []
    for u in prog[2:]:
        lines += emit_unit(u, canonical, prefix) + ['']
    if wrap_program:
        if inputs is None:
            import random
            inputs = gen_inputs(random.Random(0), prog, 1)[0]
        lines += emit_driver(prog, inputs, 'fir_driver', prefix) + ['']
        lines += ['program fir_main', '  implicit none', '  call fir_driver()', 'end program fir_main', '']
    return '\n'.join(lines)


# ====================================================================== gfortran runner

def parse_canonical(lines):
    """canonical output lines of one driver run (between its B and E markers) -> ('ok', finals, printed)"""
    finals, printed, cur = {}, [], None
    for l in lines:
        t = l.strip()
        if not t:
            continue
        tag, rest = t[0], t[1:].strip()
        if tag == 'P':
            cur = []
            printed.append(cur)
        elif tag == 'D':
            cur = []
            finals[rest] = cur
        elif tag in 'ILR' and not rest:
            pass                    # a zero-sized array: the format was used without a list item
        elif tag == 'I':
            cur.append(int(rest))
        elif tag == 'L':
            cur.append(rest == 'T')
        elif tag == 'R':
            try:
                cur.append(Fraction(float(rest)))      # 17 significant digits identify the double exactly
            except (ValueError, OverflowError):
                cur.append(rest)
        else:
            raise ValueError(f'unexpected output line {l!r}')
    return ('ok', finals, printed)


def _split_runs(stdout):
    """{tag: (lines, finished)} from the stdout of a batch executable"""
    runs, cur, tag = {}, None, None
    for l in stdout.splitlines():
        t = l.strip()
        if t.startswith('B '):
            tag = int(t[2:])
            cur = []
            runs[tag] = [cur, False]
        elif t.startswith('E ') and cur is not None:
            runs[tag][1] = True
            cur = None
        elif cur is not None:
            cur.append(l)
    return runs


def _batch_source(items):
    """(source text, number of drivers); items = [(prog, inputs)]; the units of equal programs are emitted once"""
    lines, seen = [], {}
    for k, (prog, inputs) in enumerate(items, 1):
        key = dumps(prog)
        if key not in seen:
            seen[key] = f'p{len(seen) + 1}_'
            for u in prog[2:]:
                lines += emit_unit(u, True, seen[key])
        lines += emit_driver(prog, inputs, f'drv_{k}', seen[key], k)
    lines += ['program fir_batch', '  implicit none', '  integer :: k0, k', '  character(len=32) :: arg',
              '  call get_command_argument(1, arg)', '  read(arg, *) k0', f'  do k = k0, {len(items)}', '    select case (k)']
    for k in range(1, len(items) + 1):
        lines += [f'    case ({k})', f'      call drv_{k}()']
    lines += ['    end select', '  end do', 'end program fir_batch', '']
    return '\n'.join(lines)


def _run_batch(items, d, timeout):
    """compile + run one batch in directory ``d``; list of results"""
    n = len(items)
    results = [None] * n
    good = []
    for k, (prog, inputs) in enumerate(items):      # programs the printer cannot handle do not spoil the batch
        try:
            _batch_source([(prog, inputs)])
            good.append(k)
        except Exception as e:        # pylint: disable=broad-except
            results[k] = ('emit-error', f'{type(e).__name__}: {e}')
    if not good:
        return results
    src = d / 'batch.f90'
    exe = d / 'batch.x'
    src.write_text(_batch_source([items[k] for k in good]))
    p = subprocess.run([GFORTRAN] + GFORTRAN_FLAGS + [str(src), '-o', str(exe)], stdout=subprocess.PIPE,
                       stderr=subprocess.STDOUT, text=True)
    if p.returncode != 0:
        if len(good) == 1:
            msg = [l for l in p.stdout.splitlines() if l.startswith('Error') or 'Error:' in l]
            results[good[0]] = ('compile-error', (msg[0] if msg else p.stdout[-300:]).strip())
            return results
        h = len(good) // 2
        for part, sub in ((good[:h], 'l'), (good[h:], 'r')):
            (d / sub).mkdir(exist_ok=True)
            for k, r in zip(part, _run_batch([items[k] for k in part], d / sub, timeout)):
                results[k] = r
        return results
    start = 1
    while start <= len(good):
        try:
            p = subprocess.run([str(exe), str(start)], stdout=subprocess.PIPE, stderr=subprocess.PIPE, text=True,
                               timeout=timeout, errors='replace')
            out, err, rc, timed_out = p.stdout, p.stderr, p.returncode, False
        except subprocess.TimeoutExpired as e:
            out = e.stdout.decode(errors='replace') if isinstance(e.stdout, bytes) else (e.stdout or '')
            err, rc, timed_out = '', -1, True
        runs = _split_runs(out)
        last = start - 1
        for tag in sorted(runs):
            body, finished = runs[tag]
            if finished:
                try:
                    results[good[tag - 1]] = parse_canonical(body)
                except ValueError as e:
                    results[good[tag - 1]] = ('error', str(e))
                last = tag
        if last >= len(good):
            break
        failed = last + 1           # the run that started (or should have started) and did not finish
        if timed_out:
            results[good[failed - 1]] = ('timeout',)
        else:
            msg = [l.strip() for l in err.splitlines() if 'error' in l.lower() or 'exception' in l.lower()]
            results[good[failed - 1]] = ('error', (msg[0] if msg else f'exit status {rc}')[:200])
        start = failed + 1
    return results


def run_gfortran(items, workdir=None, batch=40, jobs=None, timeout=60, keep=False):
    """Compile and run FIR programs with gfortran and parse their canonical output.

    ``items``: list of ``(prog, inputs)`` in wire form.  Returns one result per item, in order:
    ``('ok', finals, printed)`` as from ``interp`` (every value defined: dummies that are undefined on entry start
    from the sentinel -777 / -777.0 / .false.), ``('error', msg)`` for a run-time failure (bounds check, floating
    point trap, integer division by zero, ...), ``('timeout',)``, ``('compile-error', msg)``, ``('emit-error', msg)``.
    Programs are batched (``batch`` drivers per executable, units of equal programs shared) and the batches are
    compiled/run by ``jobs`` concurrent workers (default: number of CPUs, at most 16).  The scratch directory is
    created with ``tempfile.mkdtemp`` (inside ``workdir`` when given) and removed afterwards unless ``keep``."""
    items = list(items)
    if not items:
        return []
    if workdir is not None:
        Path(workdir).mkdir(parents=True, exist_ok=True)
    root = Path(tempfile.mkdtemp(prefix='fir_gf_', dir=workdir))
    try:
        chunks = [items[i:i + batch] for i in range(0, len(items), batch)]
        jobs = jobs or min(16, os.cpu_count() or 1)

        def one(arg):
            k, chunk = arg
            d = root / f'b{k}'
            d.mkdir()
            return _run_batch(chunk, d, timeout)
        with ThreadPoolExecutor(max(1, min(jobs, len(chunks)))) as ex:
            return [r for rs in ex.map(one, enumerate(chunks)) for r in rs]
    finally:
        if not keep:
            shutil.rmtree(root, ignore_errors=True)


def gfortran_syntax_check(src):
    """None when ``gfortran -fsyntax-only`` accepts the source text, else the first error line"""
    d = Path(tempfile.mkdtemp(prefix='fir_syn_'))
    try:
        (d / 's.f90').write_text(src)
        p = subprocess.run([GFORTRAN, '-fsyntax-only', '-fdefault-real-8', '-ffree-line-length-none', '-w', 's.f90'], cwd=d,
                           stdout=subprocess.PIPE, stderr=subprocess.STDOUT, text=True)
        if p.returncode == 0:
            return None
        msg = [l for l in p.stdout.splitlines() if 'Error' in l]
        return (msg[0] if msg else p.stdout[-300:]).strip()
    finally:
        shutil.rmtree(d, ignore_errors=True)


# ====================================================================== Loki IR -> FIR

class Unsupported(Exception):
    """a node kind / feature outside FIR; ``kind`` is a short stable label (counted in ``export_stats``)"""

    def __init__(self, kind):
        super().__init__(kind)
        self.kind = kind
        export_stats[kind] += 1


export_stats = Counter()     # Unsupported kinds raised so far, plus 'unit-ok' per exported unit and 'spec-comment'
_keepalive = []              # Loki symbols hold weak references to their scope


def parse_fortran(src):
    """Fortran source text -> Loki ``Sourcefile`` parsed with the fparser frontend (``frontend=FP``)"""
    from loki import Sourcefile
    from loki.frontend import FP
    sf = Sourcefile.from_source(src, frontend=FP)
    _keepalive.append(sf)
    del _keepalive[:-16]
    return sf


def _x_expr(e):
    """Loki expression -> FIR expression (wire form)"""
    import pymbolic.primitives as pmbl
    from loki.expression import symbols as sym
    if isinstance(e, bool):
        return Bl(e)
    if isinstance(e, int):
        return I(e)
    if isinstance(e, float):
        return R(Fraction(e))
    if isinstance(e, sym.IntLiteral):
        return I(int(e.value))
    if isinstance(e, sym.FloatLiteral):
        txt = str(e.value).lower().replace('d', 'e')
        try:
            return R(Fraction(txt))
        except ValueError:
            raise Unsupported('float literal ' + txt)
    if isinstance(e, sym.LogicLiteral):
        return Bl(bool(e.value))
    if isinstance(e, sym.Array):
        if getattr(e, 'parent', None) is not None:
            raise Unsupported('derived-type member')
        name = str(e.name).lower()
        dims = e.dimensions or ()
        if not dims:
            return V(name)
        if any(isinstance(d, sym.RangeIndex) for d in dims):
            out = []
            for d in dims:
                if isinstance(d, sym.RangeIndex):
                    lo, hi, st = (None if c is None else _x_expr(c) for c in (d.lower, d.upper, d.step))
                    out.append(RNG(lo, hi, st))
                else:
                    out.append(AT(_x_expr(d)))
            return SEC(name, *out)
        return IDX(name, *[_x_expr(d) for d in dims])
    if isinstance(e, (sym.Scalar, sym.DeferredTypeSymbol)):
        if getattr(e, 'parent', None) is not None:
            raise Unsupported('derived-type member')
        return V(str(e.name).lower())
    if isinstance(e, pmbl.Sum):
        acc = None
        for k, c in enumerate(e.children):
            neg = _neg_product(c)
            if acc is None:
                acc = NEG(neg) if neg is not None else _x_expr(c)
            elif neg is not None:
                acc = BIN('sub', acc, neg)
            else:
                acc = BIN('add', acc, _x_expr(c))
        if acc is None:
            raise Unsupported('empty Sum')
        return acc
    if isinstance(e, pmbl.Product):
        neg = _neg_product(e, any_class=True)
        if neg is not None:
            return NEG(neg)
        return _x_fold('mul', e.children)
    if isinstance(e, pmbl.Quotient):
        return BIN('div', _x_expr(e.numerator), _x_expr(e.denominator))
    if isinstance(e, pmbl.Power):
        return BIN('pow', _x_expr(e.base), _x_expr(e.exponent))
    if isinstance(e, pmbl.Comparison):
        ops = {'==': 'eq', '!=': 'ne', '<': 'lt', '<=': 'le', '>': 'gt', '>=': 'ge'}
        if e.operator not in ops:
            raise Unsupported('comparison ' + str(e.operator))
        return BIN(ops[e.operator], _x_expr(e.left), _x_expr(e.right))
    if isinstance(e, pmbl.LogicalNot):
        return NOT(_x_expr(e.child))
    if isinstance(e, pmbl.LogicalAnd):
        return _x_fold('and', e.children)
    if isinstance(e, pmbl.LogicalOr):
        return _x_fold('or', e.children)
    if isinstance(e, sym.Cast):
        name = str(e.name).lower()
        if name in ('real', 'int') and len(e.parameters) == 1:
            return CALL(name, _x_expr(e.parameters[0]))      # the kind of a conversion is not represented
        raise Unsupported('call ' + name)
    if isinstance(e, sym.InlineCall):
        name = str(e.function.name).lower()
        if e.kw_parameters:
            raise Unsupported('keyword argument')
        if name in INTRINSICS:
            return CALL(name, *[_x_expr(a) for a in e.parameters])
        raise Unsupported('call ' + name)
    raise Unsupported(type(e).__name__)


def _x_fold(op, children):
    if not children:
        raise Unsupported('empty operator node')
    acc = _x_expr(children[0])
    for c in children[1:]:
        acc = BIN(op, acc, _x_expr(c))
    return acc


def _neg_product(c, any_class=False):
    """operand of a negation written in Loki's ``Product((-1, x))`` convention, else None.  Inside a Sum only an
    unparenthesised product counts (``a + (-b)`` stays an addition of a negation)"""
    import pymbolic.primitives as pmbl
    from loki.expression import operations as lop
    from loki.expression import symbols as sym
    if not isinstance(c, pmbl.Product) or len(c.children) < 2:
        return None
    if isinstance(c, lop.ParenthesisedMul) and not any_class:
        return None
    first = c.children[0]
    is_m1 = (isinstance(first, int) and not isinstance(first, bool) and first == -1) or \
        (isinstance(first, sym.IntLiteral) and int(first.value) == -1)
    if not is_m1:
        return None
    return _x_fold('mul', c.children[1:])


def _const_int(e):
    h = _h(e)
    if h == 'i':
        return int(str(e[1]))
    if h == 'neg' and _h(e[1]) == 'i':
        return -int(str(e[1][1]))
    return None


def _x_body(nodes):
    from loki import ir
    out = []
    for n in nodes:
        if isinstance(n, tuple):
            out += _x_body(n)
        elif isinstance(n, ir.Comment):
            out += _x_comment(n.text)
        elif isinstance(n, ir.CommentBlock):
            for c in n.comments:
                out += _x_comment(c.text)
        elif isinstance(n, ir.Pragma):
            out.append([A('nop'), A('pragma'), (str(n.keyword) + ' ' + str(n.content or '')).strip()])
        elif isinstance(n, ir.Assignment):
            if getattr(n, 'ptr', False):
                raise Unsupported('pointer assignment')
            lhs = _x_expr(n.lhs)
            if _h(lhs) not in ('v', 'idx', 'sec'):
                raise Unsupported('assignment target')
            out.append([A('assign'), lhs, _x_expr(n.rhs)])
        elif isinstance(n, ir.Loop):
            for pr in (n.pragma or ()):
                out += _x_body((pr,))
            b = n.bounds
            lo, hi, st = b.start, b.stop, b.step
            if lo is None or hi is None:
                raise Unsupported('loop bounds')
            if getattr(n, 'name', None):
                raise Unsupported('named loop')
            out.append([A('do'), A(str(n.variable.name).lower()), _x_expr(lo), _x_expr(hi),
                        NONE if st is None else _x_expr(st), _x_body(n.body)])
            for pr in (n.pragma_post or ()):
                out += _x_body((pr,))
        elif isinstance(n, ir.WhileLoop):
            if n.condition is None:
                raise Unsupported('do forever')
            if getattr(n, 'name', None):
                raise Unsupported('named loop')
            out.append([A('while'), _x_expr(n.condition), _x_body(n.body)])
        elif isinstance(n, ir.Conditional):
            if getattr(n, 'name', None):
                raise Unsupported('named if')
            out.append([A('if'), _x_expr(n.condition), _x_body(n.body), _x_body(n.else_body or ())])
        elif isinstance(n, ir.MultiConditional):
            from loki.expression import symbols as sym
            cases = []
            for vals, body in zip(n.values, n.bodies):
                ints = []
                for v in vals:
                    if isinstance(v, sym.RangeIndex):
                        lo = None if v.lower is None else _const_int(_x_expr(v.lower))
                        hi = None if v.upper is None else _const_int(_x_expr(v.upper))
                        if lo is None or hi is None or v.step is not None or hi - lo > 64:
                            raise Unsupported('case range')
                        ints += list(range(lo, hi + 1))
                    else:
                        c = _const_int(_x_expr(v))
                        if c is None:
                            raise Unsupported('case value')
                        ints.append(c)
                cases.append([ints, _x_body(body)])
            out.append([A('select'), _x_expr(n.expr), cases, _x_body(n.else_body or ())])
        elif isinstance(n, ir.Associate):
            binds = [[A(str(name.name).lower()), _x_expr(sel)] for sel, name in n.associations]
            out.append([A('assoc'), binds, _x_body(n.body)])
        elif isinstance(n, ir.CallStatement):
            if n.kwarguments:
                raise Unsupported('keyword argument')
            if getattr(n.name, 'parent', None) is not None:
                raise Unsupported('type-bound call')
            out.append([A('callsub'), A(str(n.name).lower())] + [_x_expr(a) for a in n.arguments])
        elif isinstance(n, ir.PrintStmt):
            vals = list(n.values)
            if not vals or not isinstance(vals[0], str) or vals[0].strip() != '*':
                raise Unsupported('formatted print')
            out.append([A('print')] + [_x_expr(v) for v in vals[1:]])
        elif isinstance(n, ir.ExitStmt):
            if n.text:
                raise Unsupported('exit with construct name')
            out.append([A('exit')])
        elif isinstance(n, ir.CycleStmt):
            if n.text:
                raise Unsupported('cycle with construct name')
            out.append([A('cycle')])
        elif isinstance(n, ir.PragmaRegion):
            out += _x_body((n.pragma,)) + _x_body(n.body) + _x_body((n.pragma_post,))
        elif isinstance(n, ir.Section):
            out += _x_body(n.body)
        elif isinstance(n, ir.GenericStmt):
            raise Unsupported(type(n).__name__ + (' ' + str(n.text).split('(')[0].split()[0].lower() if n.text else ''))
        else:
            raise Unsupported(type(n).__name__)
    return out


def _x_comment(text):
    t = str(text or '').strip()
    if t.startswith('!'):
        t = t[1:].strip()
    return [[A('nop'), A('comment'), t]] if t else []


def _x_unit(r):
    from loki import ir, BasicType, Subroutine
    from loki.expression import symbols as sym
    if getattr(r, 'is_function', False):
        raise Unsupported('function')
    if getattr(r, 'members', None) or (r.contains is not None and any(isinstance(c, Subroutine) for c in r.contains.body)):
        raise Unsupported('internal procedure')
    if getattr(r, 'prefix', None):
        raise Unsupported('procedure prefix ' + ' '.join(str(p).lower() for p in r.prefix))
    if getattr(r, 'bind', None):
        raise Unsupported('bind(c)')
    args = [str(a).lower() for a in r._dummies]
    decls = []
    tymap = {BasicType.INTEGER: 'int', BasicType.REAL: 'real', BasicType.LOGICAL: 'logical'}
    nodes = list(r.docstring or ()) + list(r.spec.body if r.spec is not None else ())
    for n in nodes:
        if isinstance(n, (ir.Comment, ir.CommentBlock, ir.Pragma)):
            export_stats['spec-comment'] += 1
            continue
        if isinstance(n, ir.ImplicitStmt):
            if str(n.text).strip().upper() != 'NONE':
                raise Unsupported('implicit typing')
            continue
        if not isinstance(n, ir.VariableDeclaration):
            raise Unsupported(type(n).__name__)
        for s in n.symbols:
            t = s.type
            if t.dtype not in tymap:
                raise Unsupported('type ' + str(t.dtype))
            for attr in ('allocatable', 'pointer', 'optional', 'target', 'contiguous', 'value', 'save', 'volatile',
                         'external', 'protected', 'private', 'public'):
                if getattr(t, attr, None):
                    raise Unsupported('attribute ' + attr)
            dims = []
            for d in (getattr(s, 'dimensions', None) or ()):
                if isinstance(d, sym.RangeIndex):
                    if d.upper is None or d.step is not None:
                        raise Unsupported('assumed shape')
                    dims.append([ilit(1) if d.lower is None else _x_expr(d.lower), _x_expr(d.upper)])
                else:
                    dx = _x_expr(d)
                    dims.append([ilit(1), dx])
            param = NONE
            if t.parameter:
                if t.initial is None:
                    raise Unsupported('parameter without value')
                param = _x_expr(t.initial)
            elif t.initial is not None:
                raise Unsupported('initialised variable')
            intent = str(t.intent).lower() if t.intent else 'none'
            if intent not in ('in', 'out', 'inout', 'none'):
                raise Unsupported('intent ' + intent)
            decls.append([A('decl'), A(str(s.name).lower()), A(tymap[t.dtype]), A(intent), dims, param])
    declared = {str(d[1]) for d in decls}
    for a in args:
        if a not in declared:
            raise Unsupported('undeclared dummy')
    body = _x_body(r.body.body if r.body is not None else ())
    export_stats['unit-ok'] += 1
    return [A('unit'), A(str(r.name).lower()), [A(a) for a in args], decls, body]


def export_unit(obj, main=None):
    """Loki IR -> FIR program in wire form (normal form, see ``normalize``).

    ``obj``: a ``Subroutine`` (one unit), a ``Module`` (its contained subroutines) or a ``Sourcefile`` (all
    subroutines, free and contained in modules).  ``main``: name of the main unit (default: the first one).
    Anything that has no FIR counterpart raises ``Unsupported(kind)`` and is counted in ``export_stats``; nothing
    is dropped silently, except comments/pragmas in the specification part (counted as ``spec-comment``) and the
    kinds of literals, declarations and conversions (FIR has one integer, one real and one logical type)."""
    from loki import Subroutine, Module, Sourcefile, ir
    if isinstance(obj, Subroutine):
        routines = [obj]
    elif isinstance(obj, Module):
        _check_module(obj)
        routines = list(obj.subroutines)
    elif isinstance(obj, Sourcefile):
        routines = []
        for n in obj.ir.body:
            if isinstance(n, Subroutine):
                routines.append(n)
            elif isinstance(n, Module):
                _check_module(n)
                routines += list(n.subroutines)
            elif isinstance(n, (ir.Comment, ir.CommentBlock)):
                export_stats['spec-comment'] += 1
            else:
                raise Unsupported(type(n).__name__)
    else:
        raise TypeError(f'cannot export {type(obj).__name__}')
    if not routines:
        raise Unsupported('no subroutine')
    units = [_x_unit(r) for r in routines]
    names = [str(u[1]) for u in units]
    main = names[0] if main is None else str(main).lower()
    if main not in names:
        raise ValueError(f'no unit named {main}')
    return normalize([A('program'), A(main)] + units)


def _check_module(m):
    from loki import ir
    for n in (m.spec.body if m.spec is not None else ()):
        if isinstance(n, (ir.Comment, ir.CommentBlock, ir.Pragma)):
            export_stats['spec-comment'] += 1
        elif isinstance(n, ir.ImplicitStmt):
            continue
        else:
            raise Unsupported('module ' + type(n).__name__)


# ====================================================================== generator

DEFAULT_CFG = {
    'max_stmts': 25,            # statements of the main unit (nested ones count)
    'max_depth': 3,             # nesting of compound statements
    'n_scalars': (2, 6),        # scalars of a unit besides n/m, loop variables and counters
    'n_arrays': (1, 4),
    'max_rank': 3,
    'max_extent': 6,
    'lower_bounds': (0, 1, 1, -2),
    'symbolic_prob': 0.5,       # probability that the main unit has an integer dummy n (and maybe m) used as extent
    'n_callees': (0, 2),        # other units (each may call the units generated before it)
    'callee_stmts': 8,
    'steps': (1, 1, 1, 2, -1, -3),
    'expr_depth': 3,
    'overlap_prob': 0.4,        # section assignments: probability of reading the assigned array on the right
    'zero_trip_prob': 0.08,     # literal loops that do not execute
    'pragmas': ('loki foo', 'loki loop-fusion group(g1)', 'loki loop-unroll', 'omp simd'),
    'comments': ('a comment', 'kernel section', 'note: x'),
    'assoc_selectors': 'loki',  # 'loki': only selectors the Loki frontend can parse (no - / ** calls in them, see notes/FIR.md) | 'full'
    'empty_case_bodies': False, # the Loki frontend mis-pairs the bodies of a SELECT CASE that has an empty CASE block
    'validate': True,           # reject candidates whose probe runs overflow 32-bit integers / lose exactness / fail
    'weights': {'assign_scalar': 18, 'assign_elem': 14, 'assign_section': 7, 'assign_whole': 3, 'accumulate': 5,
                'do': 12, 'while': 3, 'if': 9, 'select': 3, 'assoc': 4, 'print': 5, 'call': 7, 'exit': 2, 'cycle': 2,
                'comment': 2, 'pragma': 2},
}

_VB = 1000                  # bound of every stored integer a frozen region / an array / a callee dummy may hold
_STORE_CAP = 10 ** 6        # bound of integers stored by straight-line code
_LIMIT = 10 ** 9            # bound of every integer subexpression (32-bit integers: 2.1e9)
_ACC_BUDGET = 10 ** 6


def merge_cfg(cfg):
    out = dict(DEFAULT_CFG)
    out['weights'] = dict(DEFAULT_CFG['weights'])
    for k, v in (cfg or {}).items():
        if k == 'weights':
            out['weights'].update(v)
        else:
            out[k] = v
    return out


def _sym_plus(sym, c):
    return V(sym) if c == 0 else BIN('add', V(sym), I(c)) if c > 0 else BIN('sub', V(sym), I(-c))


def _var_plus(var, c):
    return _sym_plus(var, c)


def _mentions(e, x):
    if isinstance(e, list):
        if _h(e) in ('v', 'idx', 'sec') and str(e[1]) == x:
            return True
        return any(_mentions(c, x) for c in e[1:])
    return False


class _Arr:
    def __init__(self, name, ty, dims, writable=True, elem_only=False):
        self.name, self.ty, self.dims, self.writable, self.elem_only = name, ty, dims, writable, elem_only

    def exts(self):
        return [e for _, e in self.dims]


class _Sig:
    """signature of a generated unit as seen by its callers"""

    def __init__(self, name, dummies, has_n):
        self.name = name
        self.dummies = dummies      # [(name, ty, intent, dims-or-None)] dims = [(lbv, ext)], ext int or 'n'
        self.has_n = has_n          # the first dummy is the extent parameter n (callers pass 1..max_extent)


class _UnitGen:
    def __init__(self, rng, cfg, name, is_main, callees):
        self.rng, self.cfg, self.name, self.is_main, self.callees = rng, cfg, name, is_main, callees
        self.w = cfg['weights']
        self.scalars = {}       # name -> ty (everything readable as a scalar, associate names included)
        self.writable = set()   # assignable scalar names
        self.fixed = set()      # integer scalars whose stores are always capped at _VB (callee dummies, alias targets)
        self.arrays = {}        # name -> _Arr
        self.intents = {}
        self.args = []
        self.decl_order = []    # names in declaration order
        self.params = {}
        self.defined = set()
        self.vb = {}
        self.frozen = 0
        self.loops = []         # active loops: dict(var, kind 'sym'|'lit', ...), trip bound
        self.acc = {}           # accumulator budgets inside the outermost loop
        self.syms = []          # extent symbols ('n', 'm')
        self.counter = Counter()
        self.left = 0
        self.pending = []       # statements to emit before the one being generated (temporaries of calls)
        self.alias_base = {}    # associate name -> array it is associated with (whole, element or section)

    # ------------------------------------------------------------ declarations
    def declare_scalar(self, name, ty, intent='none', writable=True):
        self.scalars[name] = ty
        self.intents[name] = intent
        self.decl_order.append(name)
        if writable:
            self.writable.add(name)

    def declare_array(self, name, ty, dims, intent='none', writable=True):
        self.arrays[name] = _Arr(name, ty, dims, writable)
        self.intents[name] = intent
        self.decl_order.append(name)

    def fresh(self, prefix):
        self.counter[prefix] += 1
        return f'{prefix}{self.counter[prefix]}'

    def lo_ex(self, lbv):
        return ilit(lbv)

    def hi_ex(self, lbv, ext):
        return ilit(lbv + ext - 1) if isinstance(ext, int) else _sym_plus(ext, lbv - 1)

    def ext_ex(self, ext):
        return I(ext) if isinstance(ext, int) else V(ext)

    def ext_max(self, ext):
        return ext if isinstance(ext, int) else self.cfg['max_extent']

    def decls_wire(self):
        out = []
        for x in self.decl_order:
            if x in self.arrays:
                a = self.arrays[x]
                dims = [[self.lo_ex(lb), self.hi_ex(lb, ext)] for lb, ext in a.dims]
                out.append([A('decl'), A(x), A(a.ty), A(self.intents[x]), dims, NONE])
            else:
                out.append([A('decl'), A(x), A(self.scalars[x]), A(self.intents[x]), [], self.params.get(x, NONE)])
        return out

    # ------------------------------------------------------------ leaves
    def readable_scalars(self, ty):
        return [x for x, t in self.scalars.items() if t == ty and x in self.defined]

    def readable_arrays(self, ty=None):
        return [a for a in self.arrays.values() if a.name in self.defined and (ty is None or a.ty == ty)]

    def small_int(self):
        """an integer variable / element usable inside data dependent subscripts, or None"""
        r = self.rng
        cands = [x for x in self.readable_scalars('int') if self.vb.get(x, _VB) <= 64]
        if cands and r.random() < 0.7:
            return V(r.choice(cands))
        big = self.readable_scalars('int')
        if big:
            return V(r.choice(big))
        return None

    def gen_index(self, lbv, ext, simple=False):
        """a subscript expression that stays inside lbv .. lbv+ext-1 by construction; ``simple``: built from
        variables, non-negative literals and + only (None when there is no such subscript)"""
        r = self.rng
        if simple:
            forms = []
            for lp in self.loops:
                if lp['kind'] == 'sym' and ext == lp['sym']:
                    forms += [_var_plus(lp['var'], lbv - lp['lbv'] + k) for k in range(-lp['c1'], lp['c2'] + 1)
                              if lbv - lp['lbv'] + k >= 0]
                elif lp['kind'] == 'lit' and isinstance(ext, int):
                    forms += [_var_plus(lp['var'], off) for off in range(max(0, lbv - lp['lo']), lbv + ext - lp['hi'])]
            if isinstance(ext, int):
                forms += [I(v) for v in range(max(0, lbv), lbv + ext)]
            else:
                if lbv >= 0:
                    forms.append(I(lbv))
                if lbv >= 1:
                    forms.append(self.hi_ex(lbv, ext))
            return r.choice(forms) if forms else None
        forms = []
        for lp in self.loops:
            if lp['kind'] == 'sym' and ext == lp['sym']:
                for k in range(-lp['c1'], lp['c2'] + 1):
                    forms.append(('loop', lp['var'], lbv - lp['lbv'] + k))
            elif lp['kind'] == 'lit' and isinstance(ext, int):
                lo_off, hi_off = lbv - lp['lo'], lbv + ext - 1 - lp['hi']
                for off in range(lo_off, hi_off + 1):
                    forms.append(('loop', lp['var'], off))
        if forms and r.random() < 0.8:
            _, var, off = r.choice(forms)
            return _var_plus(var, off)
        q = r.random()
        si = self.small_int()
        if q < 0.5 or si is None:
            if isinstance(ext, int):
                return ilit(lbv + r.randrange(ext))
            return ilit(lbv) if r.random() < 0.5 else self.hi_ex(lbv, ext)
        if q < 0.85:
            m = CALL('mod', CALL('abs', si), self.ext_ex(ext))
            return m if lbv == 0 else BIN('add', m, I(lbv)) if lbv > 0 else BIN('sub', m, I(-lbv))
        return CALL('min', CALL('max', si, self.lo_ex(lbv)), self.hi_ex(lbv, ext))

    def gen_elem(self, a):
        return IDX(a.name, *[self.gen_index(lb, ext) for lb, ext in a.dims])

    # ------------------------------------------------------------ scalar expressions
    def wrap_int(self, e, b, cap):
        if b <= cap:
            return e, b
        ks = [k for k in (7, 10, 13, 97, 100) if k - 1 <= cap] or [3]
        k = self.rng.choice(ks)
        return CALL('mod', e, I(k)), k - 1

    def gen_int(self, depth, avoid=None):
        """(expression, bound of its magnitude)"""
        r = self.rng
        if depth <= 0 or r.random() < 0.25:
            q = r.random()
            xs = [x for x in self.readable_scalars('int') if x != avoid]
            arrs = [a for a in self.readable_arrays('int') if a.name != avoid]
            if q < 0.45 and xs:
                x = r.choice(xs)
                return V(x), self.vb.get(x, _VB)
            if q < 0.75 and arrs:
                return self.gen_elem(r.choice(arrs)), _VB
            v = r.choice((0, 1, 1, 2, 2, 3, 4, 5, 7, 9))
            return I(v), v
        q = r.random()
        sub = lambda d=depth - 1: self.gen_int(d, avoid)
        if q < 0.3:
            (a, ba), (b, bb) = sub(), sub()
            if ba + bb > _LIMIT:
                a, ba = self.wrap_int(a, ba, 100)
            return BIN(r.choice(('add', 'sub')), a, b), ba + bb
        if q < 0.5:
            (a, ba), (b, bb) = sub(), sub()
            if ba * bb > _LIMIT:
                if ba >= bb:
                    a, ba = self.wrap_int(a, ba, 12)
                else:
                    b, bb = self.wrap_int(b, bb, 12)
            if ba * bb > _LIMIT:
                a, ba = self.wrap_int(a, ba, 12)
                b, bb = self.wrap_int(b, bb, 12)
            return BIN('mul', a, b), ba * bb
        if q < 0.6:
            a, ba = sub()
            if r.random() < 0.5:
                return BIN('div', a, I(r.randint(2, 5))), ba
            b, bb = sub(depth - 2)
            return BIN('div', a, BIN('add', CALL('abs', b), I(1))), ba
        if q < 0.7:
            a, ba = sub()
            if r.random() < 0.6:
                k = r.randint(2, 9)
                return CALL('mod', a, I(k)), k - 1
            b, bb = sub(depth - 2)
            return CALL('mod', a, BIN('add', CALL('abs', b), I(1))), min(ba, bb)
        if q < 0.76:
            a, ba = sub()
            return CALL('abs', a), ba
        if q < 0.84:
            args = [sub() for _ in range(r.choice((2, 2, 3)))]
            return CALL(r.choice(('min', 'max')), *[a for a, _ in args]), max(b for _, b in args)
        if q < 0.9:
            a, ba = sub()
            return NEG(a), ba
        if q < 0.95:
            a, ba = sub(min(depth - 1, 1))
            a, ba = self.wrap_int(a, ba, 1000)
            if ba <= 100 and r.random() < 0.3:
                return BIN('pow', a, I(3)), ba ** 3
            return BIN('pow', a, I(2)), ba ** 2
        x, _ = self.gen_real(min(depth - 1, 1))
        return CALL('mod', CALL('int', x), I(r.choice((7, 10, 100)))), 99

    def gen_real(self, depth, avoid=None):
        """(expression, degree = number of non-constant real factors, kept small so that products stay exact)"""
        r = self.rng
        if depth <= 0 or r.random() < 0.25:
            q = r.random()
            xs = [x for x in self.readable_scalars('real') if x != avoid]
            arrs = [a for a in self.readable_arrays('real') if a.name != avoid]
            if q < 0.4 and xs:
                return V(r.choice(xs)), 1
            if q < 0.65 and arrs:
                return self.gen_elem(r.choice(arrs)), 1
            if q < 0.8:
                e, b = self.gen_int(0, avoid)
                return (CALL('real', e) if r.random() < 0.5 else e), 1
            return R(Fraction(r.choice((1, 2, 3, 4, 5, 8, 10, 12, 16, 20, 24, 1, 2, 4)), 8)), 0
        q = r.random()
        sub = lambda d=depth - 1: self.gen_real(d, avoid)
        if q < 0.4:
            (a, da), (b, db) = sub(), sub()
            return BIN(r.choice(('add', 'sub')), a, b), max(da, db)
        if q < 0.62:
            (a, da), (b, db) = sub(), sub()
            if self.loops:      # inside loops only powers of two: repeated products keep their significand
                if da and db:
                    b, db = R(Fraction(r.choice((4, 16)), 8)), 0
                elif _h(b) == 'r' and da:
                    b = R(Fraction(r.choice((4, 16)), 8))
                elif _h(a) == 'r' and db:
                    a = R(Fraction(r.choice((4, 16)), 8))
            elif da + db > 2:
                b, db = R(Fraction(r.choice((1, 2, 4, 12, 16)), 8)), 0
            return BIN('mul', a, b), da + db
        if q < 0.76:
            a, da = sub()
            d = r.choice((R(2), R(4), R(Fraction(1, 2)), R(8), I(2), I(4)))
            return BIN('div', a, d), da
        if q < 0.82:
            a, da = sub()
            return NEG(a), da
        if q < 0.88:
            a, da = sub()
            return CALL('abs', a), da
        if q < 0.95:
            (a, da), (b, db) = sub(), sub()
            a = a if self.is_real_ex(a) else CALL('real', a)
            b = b if self.is_real_ex(b) else CALL('real', b)
            return CALL(r.choice(('min', 'max')), a, b), max(da, db)
        a, da = sub(0)
        if da > 1 or self.loops:
            return a, da
        return BIN('pow', a, I(2)), 2 * da

    def is_real_ex(self, e):
        h = _h(e)
        if h == 'r':
            return True
        if h == 'i':
            return False
        if h in ('v', 'idx', 'sec'):
            x = str(e[1])
            return (self.arrays[x].ty if x in self.arrays else self.scalars.get(x)) == 'real'
        if h == 'neg':
            return self.is_real_ex(e[1])
        if h == 'bin':
            return self.is_real_ex(e[2]) or self.is_real_ex(e[3])
        if h == 'call':
            f = str(e[1])
            return f == 'real' or (f in ('abs', 'min', 'max') and any(self.is_real_ex(a) for a in e[2:]))
        return False

    def gen_logical(self, depth):
        r = self.rng
        if depth <= 0 or r.random() < 0.35:
            q = r.random()
            xs = self.readable_scalars('logical')
            if q < 0.25 and xs:
                return V(r.choice(xs))
            if q < 0.3:
                return Bl(r.random() < 0.5)
            op = r.choice(CMPS)
            if r.random() < 0.6:
                return BIN(op, self.gen_int(1)[0], self.gen_int(1)[0])
            return BIN(op, self.gen_real(1)[0], self.gen_real(1)[0])
        q = r.random()
        if q < 0.25:
            return NOT(self.gen_logical(depth - 1))
        return BIN('and' if q < 0.65 else 'or', self.gen_logical(depth - 1), self.gen_logical(depth - 1))

    def gen_expr(self, ty, depth=None, avoid=None):
        depth = self.cfg['expr_depth'] if depth is None else depth
        if ty == 'int':
            return self.gen_int(depth, avoid)
        if ty == 'real':
            return self.gen_real(depth, avoid)[0], None
        return self.gen_logical(min(depth, 2)), None

    # ------------------------------------------------------------ bookkeeping of bounds / definedness
    def freeze(self):
        if self.frozen == 0:
            for x, t in self.scalars.items():
                if t == 'int':
                    self.vb[x] = max(self.vb.get(x, 0), _VB)
        self.frozen += 1

    def unfreeze(self):
        self.frozen -= 1

    def store_cap(self, x):
        if x in self.fixed:
            return _VB
        if self.frozen:
            return max(self.vb.get(x, _VB), 6)
        return _STORE_CAP

    def note_store(self, x, b):
        if x in self.fixed:
            self.vb[x] = _VB
        elif not self.frozen:
            self.vb[x] = b

    def trip_product(self):
        t = 1
        for lp in self.loops:
            t *= lp['trips']
        return t

    def branch(self, gens):
        """run the generators of alternative branches from the same state; merge definedness (intersection) and
        integer bounds (maximum)"""
        d0, v0 = set(self.defined), dict(self.vb)
        ds, vs, outs = [], [], []
        for g in gens:
            self.defined, self.vb = set(d0), dict(v0)
            outs.append(g())
            ds.append(self.defined)
            vs.append(self.vb)
        self.defined = set.intersection(*ds) if ds else d0
        self.vb = dict(v0)
        for v in vs:
            for x, b in v.items():
                self.vb[x] = max(self.vb.get(x, 0), b)
        return outs

    # ------------------------------------------------------------ statements
    def assign_target_scalar(self):
        r = self.rng
        cands = [x for x in self.writable if x in self.scalars]
        if not cands:
            return None
        undef = [x for x in cands if x not in self.defined]
        if undef and r.random() < 0.6:
            return r.choice(sorted(undef))
        return r.choice(sorted(cands))

    def st_assign_scalar(self):
        x = self.assign_target_scalar()
        if x is None:
            return None
        ty = self.scalars[x]
        r = self.rng
        if ty == 'int':
            if r.random() < 0.15:
                e, _ = self.gen_real(2)
                e, b = CALL('mod', CALL('int', e), I(100)), 99
                if r.random() < 0.5:
                    pass
            else:
                e, b = self.gen_int(self.cfg['expr_depth'])
            e, b = self.wrap_int(e, b, self.store_cap(x))
            self.note_store(x, b)
        elif ty == 'real':
            avoid = x if (self.loops and r.random() < 0.7) else None
            e = self.gen_real(self.cfg['expr_depth'], avoid)[0]
            if avoid and x in self.defined and r.random() < 0.5:
                e = BIN(r.choice(('add', 'sub')), V(x), e)      # additive update: precision grows slowly
        else:
            e = self.gen_logical(2)
        self.defined.add(x)
        return [A('assign'), V(x), e]

    def st_accumulate(self):
        r = self.rng
        if not self.loops:
            return self.st_assign_scalar()
        ints = [x for x in self.acc if x in self.defined]
        reals = [x for x in self.writable if self.scalars.get(x) == 'real' and x in self.defined]
        if ints and (not reals or r.random() < 0.6):
            x = r.choice(sorted(ints))
            e, b = self.gen_int(2, avoid=x)
            if _mentions(e, x):
                return self.st_assign_scalar()
            e, b = self.wrap_int(e, b, 100)
            cost = self.trip_product() * max(b, 1)
            if self.acc[x] < cost:
                return self.st_assign_scalar()
            self.acc[x] -= cost
            return [A('assign'), V(x), BIN(r.choice(('add', 'add', 'sub')), V(x), e)]
        if reals:
            x = r.choice(sorted(reals))
            e = self.gen_real(2, avoid=x)[0]
            if _mentions(e, x):
                return self.st_assign_scalar()
            return [A('assign'), V(x), BIN(r.choice(('add', 'add', 'sub')), V(x), e)]
        return self.st_assign_scalar()

    def writable_arrays(self):
        return [a for a in self.arrays.values() if a.writable]

    def elem_rhs(self, ty):
        if ty == 'int':
            e, b = self.gen_int(self.cfg['expr_depth'])
            return self.wrap_int(e, b, _VB)[0]
        return self.gen_expr(ty)[0]

    def st_assign_elem(self):
        arrs = self.writable_arrays()
        if not arrs:
            return None
        a = self.rng.choice(arrs)
        return [A('assign'), self.gen_elem(a), self.elem_rhs(a.ty)]

    # ---- array valued expressions
    def triplet(self, lbv, ext, count, simple=False):
        """a triplet over dimension (lbv, ext) with exactly ``count`` elements, or None.
        count: int | (sym, 0) | (sym, -1).  ``simple``: ``:`` or ``lo:hi[:step]`` with a non-negative literal ``lo``
        and a positive literal step"""
        r = self.rng
        if simple:
            if isinstance(count, int):
                if not isinstance(ext, int) or ext < count or count < 1:
                    return None
                if count == ext and r.random() < 0.4:
                    return RNG()
                smax = (ext - 1) // (count - 1) if count > 1 else 3
                st = r.choice([k for k in (1, 1, 2, 3) if k <= smax] or [1])
                firsts = [f for f in range(lbv, lbv + ext - (count - 1) * st) if f >= 0]
                if not firsts:
                    return RNG() if count == ext else None
                first = r.choice(firsts)
                return RNG(I(first), ilit(first + (count - 1) * st), None if st == 1 else I(st))
            sym, delta = count
            if ext != sym or delta != 0:
                return None
            if lbv >= 0 and r.random() < 0.4:
                return RNG(I(lbv), self.hi_ex(lbv, ext))
            return RNG()
        if isinstance(count, int):
            if not isinstance(ext, int) or ext < count or count < 1:
                return None
            smax = (ext - 1) // (count - 1) if count > 1 else 3
            s = r.choice([k for k in (1, 1, 1, 2, 3) if k <= smax] or [1])
            first = lbv + r.randrange(ext - (count - 1) * s)
            last = first + (count - 1) * s
            if r.random() < 0.25:
                return RNG(ilit(last), ilit(first), ilit(-s))
            if s == 1 and count == ext and r.random() < 0.6:
                return RNG()
            lo = None if (first == lbv and r.random() < 0.3) else ilit(first)
            hi = None if (last == lbv + ext - 1 and s == 1 and r.random() < 0.3) else ilit(last)
            return RNG(lo, hi, None if s == 1 else I(s))
        sym, delta = count
        if ext != sym:
            return None
        lo, hi = self.lo_ex(lbv), self.hi_ex(lbv, ext)
        if delta == 0:
            q = r.random()
            if q < 0.5:
                return RNG()
            if q < 0.8:
                return RNG(lo, hi)
            return RNG(hi, lo, ilit(-1))
        lo1, hi1 = ilit(lbv + 1), self.hi_ex(lbv - 1, ext)
        q = r.random()
        if q < 0.35:
            return RNG(lo1, hi)
        if q < 0.7:
            return RNG(lo, hi1)
        if q < 0.85:
            return RNG(hi, lo1, ilit(-1))
        return RNG(hi1, lo, ilit(-1))

    def section_of(self, a, shape):
        """a section of array ``a`` with the given shape (list of counts), or None"""
        r = self.rng
        n, k = len(a.dims), len(shape)
        if a.elem_only or n < k:
            return None
        for _ in range(6):
            pos = sorted(r.sample(range(n), k))
            dims, ok = [], True
            it = iter(shape)
            for d, (lb, ext) in enumerate(a.dims):
                if d in pos:
                    t = self.triplet(lb, ext, next(it))
                    if t is None:
                        ok = False
                        break
                    dims.append(t)
                else:
                    dims.append(AT(self.gen_index(lb, ext)))
            if ok:
                return SEC(a.name, *dims)
        return None

    def whole_matches(self, a, shape):
        if a.elem_only or len(a.dims) != len(shape):
            return False
        return all((c == ext) if isinstance(c, int) else (c == (ext, 0)) for c, (_, ext) in zip(shape, a.dims))

    def gen_arr(self, ty, shape, depth, prefer=None):
        """array valued expression of the given shape; scalars broadcast"""
        r = self.rng
        if depth <= 0 or r.random() < 0.3:
            cands = self.readable_arrays('int') if ty == 'int' else self.readable_arrays()
            if prefer is not None and prefer in cands and r.random() < 0.8:
                cands = [prefer]
            r.shuffle(cands)
            if r.random() < 0.8:
                for a in cands:
                    if self.whole_matches(a, shape) and r.random() < 0.4:
                        return V(a.name)
                    s = self.section_of(a, shape)
                    if s is not None:
                        return s
            if ty == 'int':
                return self.wrap_int(*self.gen_int(1), 100)[0]
            return self.gen_real(1)[0]
        q = r.random()
        sub = lambda p=None: self.gen_arr(ty, shape, depth - 1, p)
        if ty == 'int':
            if q < 0.5:
                return BIN(r.choice(('add', 'sub')), sub(prefer), sub())
            if q < 0.7:
                return BIN('mul', sub(prefer), I(r.randint(2, 4)))
            if q < 0.8:
                return CALL('mod', sub(prefer), I(r.randint(2, 9)))
            if q < 0.9:
                return CALL('abs', sub(prefer))
            return NEG(sub(prefer))
        if q < 0.5:
            return BIN(r.choice(('add', 'sub')), sub(prefer), sub())
        if q < 0.7:
            return BIN('mul', sub(prefer), R(Fraction(r.choice((1, 2, 4, 12, 16)), 8)))
        if q < 0.82:
            return BIN('div', sub(prefer), r.choice((R(2), R(4), I(2))))
        if q < 0.92:
            return CALL('abs', sub(prefer))
        return NEG(sub(prefer))

    def st_assign_section(self, whole=False):
        """array assignment; where the target shares storage with other names in scope (ASSOCIATE), the statement does
        not mention those: gfortran 12 misses that dependency and assigns in place (see notes/FIR.md)"""
        for _ in range(6):
            s = self._st_assign_section(whole)
            if s is None:
                return None
            t = str(s[1][1])
            base = self.alias_base.get(t, t)
            group = {z for z, b in self.alias_base.items() if b == base} | {base}
            group.discard(t)
            if not any(_mentions(s[1], x) or _mentions(s[2], x) for x in group):
                return s
        return None

    def _st_assign_section(self, whole=False):
        r = self.rng
        arrs = [a for a in self.writable_arrays() if not a.elem_only]
        if not arrs:
            return None
        a = r.choice(arrs)
        if whole:
            lhs = V(a.name)
            shape = [ext if isinstance(ext, int) else (ext, 0) for _, ext in a.dims]
        else:
            nd = len(a.dims)
            trip = set(r.sample(range(nd), r.randint(1, nd)))
            dims, shape = [], []
            for d, (lb, ext) in enumerate(a.dims):
                if d in trip:
                    if isinstance(ext, int):
                        c = r.randint(1, ext)
                    else:
                        c = (ext, r.choice((0, 0, -1)))
                    dims.append(self.triplet(lb, ext, c))
                    shape.append(c)
                else:
                    dims.append(AT(self.gen_index(lb, ext)))
            lhs = SEC(a.name, *dims)
        prefer = a if (a.name in self.defined and r.random() < self.cfg['overlap_prob']) else None
        rhs = self.gen_arr(a.ty, shape, 2, prefer)
        if a.ty == 'int':
            rhs = CALL('mod', rhs, I(r.choice((7, 10, 97, 100))))
        if whole or all(_h(d) == 'rng' and all(_is_none(x) for x in d[1:]) for d in lhs[2:]):
            self.defined.add(a.name)
        return [A('assign'), lhs, rhs]

    # ---- compound statements
    def st_do(self, depth):
        r = self.rng
        var = f'i{len(self.loops) + 1}'
        if var not in self.scalars:
            self.declare_scalar(var, 'int', writable=False)
        dims = [(lb, ext) for a in self.arrays.values() if not a.elem_only for lb, ext in a.dims]
        step = r.choice(self.cfg['steps'])
        if dims and r.random() < 0.8:
            lb, ext = r.choice(dims)
            c1, c2 = r.choice((0, 0, 0, 1)), r.choice((0, 0, 0, 1))
            if isinstance(ext, int):
                lo, hi = lb + c1, lb + ext - 1 - c2
                lp = {'var': var, 'kind': 'lit', 'lo': lo, 'hi': max(hi, lo), 'trips': max(1, hi - lo + 1)}
                lo_e, hi_e = ilit(lo), ilit(hi)
            else:
                lp = {'var': var, 'kind': 'sym', 'sym': ext, 'lbv': lb, 'c1': c1, 'c2': c2, 'trips': self.cfg['max_extent']}
                lo_e, hi_e = ilit(lb + c1), self.hi_ex(lb - c2, ext)
            bound = abs(lb) + self.ext_max(ext) + 3
        else:
            if r.random() < self.cfg['zero_trip_prob']:
                lo, hi = r.randint(2, 4), r.randint(0, 1)
            else:
                lo = r.choice((0, 1, 1, 1, 2, -1))
                hi = lo + r.randint(0, 4)
            lp = {'var': var, 'kind': 'lit', 'lo': lo, 'hi': max(hi, lo), 'trips': max(1, hi - lo + 1)}
            lo_e, hi_e = ilit(lo), ilit(hi)
            bound = max(abs(lo), abs(hi)) + 3
        if step < 0:
            lo_e, hi_e = hi_e, lo_e
        outermost = not self.loops and not self.frozen
        d0 = set(self.defined)
        self.freeze()
        if outermost:
            for x in sorted(self.writable):
                if self.scalars.get(x) == 'int' and x in self.defined and x not in self.fixed and r.random() < 0.5:
                    self.acc[x] = _ACC_BUDGET
                    self.vb[x] = self.vb.get(x, _VB) + _ACC_BUDGET
        self.vb[var] = bound + abs(step)
        self.defined.add(var)
        self.loops.append(lp)
        body = self.gen_block(r.randint(1, 4), depth + 1)
        self.loops.pop()
        self.unfreeze()
        if outermost:
            self.acc = {}
        self.defined = d0 | {var}
        return [A('do'), A(var), lo_e, hi_e, NONE if step == 1 and r.random() < 0.8 else ilit(step), body]

    def st_while(self, depth):
        r = self.rng
        w = f'w{sum(1 for l in self.loops if l.get("while")) + 1}'
        if w not in self.scalars:
            self.declare_scalar(w, 'int', writable=False)
        k = r.randint(1, 4)
        pre = [A('assign'), V(w), I(0)]
        self.defined.add(w)
        self.vb[w] = k + 1
        cond = BIN('lt', V(w), I(k))
        if r.random() < 0.6:
            cond = BIN('and', cond, self.gen_logical(1))
        outermost = not self.loops and not self.frozen
        d0 = set(self.defined)
        self.freeze()
        self.vb[w] = k + 1
        if outermost:
            for x in sorted(self.writable):
                if self.scalars.get(x) == 'int' and x in self.defined and x not in self.fixed and r.random() < 0.5:
                    self.acc[x] = _ACC_BUDGET
                    self.vb[x] = self.vb.get(x, _VB) + _ACC_BUDGET
        self.loops.append({'var': w, 'kind': 'none', 'trips': k, 'while': True})
        body = [[A('assign'), V(w), BIN('add', V(w), I(1))]] + self.gen_block(r.randint(1, 3), depth + 1)
        self.loops.pop()
        self.unfreeze()
        if outermost:
            self.acc = {}
        self.defined = d0
        self.pending.append(pre)
        return [A('while'), cond, body]

    def st_if(self, depth):
        r = self.rng
        cond = self.gen_logical(2)
        q = r.random()
        if q < 0.45:
            thn, els = self.branch([lambda: self.gen_block(r.randint(1, 3), depth + 1), lambda: []])
        elif q < 0.85:
            thn, els = self.branch([lambda: self.gen_block(r.randint(1, 3), depth + 1),
                                    lambda: self.gen_block(r.randint(1, 3), depth + 1)])
        else:       # else-if chain
            c2 = self.gen_logical(1)
            thn, mid, last = self.branch([lambda: self.gen_block(r.randint(1, 2), depth + 1),
                                          lambda: self.gen_block(r.randint(1, 2), depth + 1),
                                          lambda: self.gen_block(r.randint(0, 2), depth + 1)])
            els = [[A('if'), c2, mid, last]]
        return [A('if'), cond, thn, els]

    def st_select(self, depth):
        r = self.rng
        e, b = self.gen_int(1)
        k = r.randint(3, 5)
        sel = CALL('mod', CALL('abs', e), I(k)) if b > 9 or r.random() < 0.5 else e
        vals = list(range(-1, k + 3))
        r.shuffle(vals)
        ncase = r.randint(1, 3)
        groups = []
        for _ in range(ncase):
            g = [vals.pop() for _ in range(r.choice((1, 1, 2)))]
            groups.append(g)
        with_default = r.random() < 0.6
        gens = [lambda: self.gen_block(r.randint(1, 2), depth + 1) for _ in groups]
        gens.append((lambda: self.gen_block(r.randint(1, 2), depth + 1)) if with_default else (lambda: []))
        bodies = self.branch(gens)
        if not self.cfg['empty_case_bodies']:
            bodies = [b or [[A('nop'), A('comment'), 'empty case']] for b in bodies[:-1]] + [bodies[-1]]
        return [A('select'), sel, [[g, b] for g, b in zip(groups, bodies[:-1])], bodies[-1]]

    def simple_value(self, ty, depth):
        """value expression the Loki frontend accepts as ASSOCIATE selector: scalars, non-negative literals, + *"""
        r = self.rng
        xs = self.readable_scalars(ty) + (self.readable_scalars('int') if ty == 'real' and r.random() < 0.3 else [])
        if depth <= 0 or r.random() < 0.3:
            if xs and r.random() < 0.7:
                x = r.choice(xs)
                return V(x), (self.vb.get(x, _VB) if self.scalars[x] == 'int' else 0)
            if ty == 'int':
                v = r.randint(0, 5)
                return I(v), v
            return R(Fraction(r.choice((1, 2, 4, 12, 16)), 8)), 0
        (a, ba), (b, bb) = self.simple_value(ty, depth - 1), self.simple_value(ty, depth - 1)
        if r.random() < 0.6 or (ty == 'int' and ba * bb > _LIMIT) or (ty == 'real' and self.loops):
            return BIN('add', a, b), ba + bb
        return BIN('mul', a, b), ba * bb

    def st_assoc(self, depth):
        r = self.rng
        simple = self.cfg['assoc_selectors'] == 'loki'
        binds, added_s, added_a, bases = [], [], [], {}
        for _ in range(r.choice((1, 1, 2))):
            z = self.fresh('z')
            q = r.random()
            sc = sorted(x for x in self.scalars if x in self.defined and not x.startswith('z'))
            arrs = [a for a in self.readable_arrays() if not a.elem_only]
            plain = [a for a in arrs if not a.name.startswith('z')]       # no sections of associate names
            done = False
            if q < 0.25 and sc:
                x = r.choice(sc)
                binds.append([A(z), V(x)])
                added_s.append((z, self.scalars[x], x in self.writable, x))
                done = True
            elif q < 0.5 and arrs:
                a = r.choice(arrs)
                subs = [self.gen_index(lb, ext, simple) for lb, ext in a.dims]
                if all(x is not None for x in subs):
                    binds.append([A(z), IDX(a.name, *subs)])
                    added_s.append((z, a.ty, a.writable, None))
                    bases[z] = self.alias_base.get(a.name, a.name)
                    done = True
            elif q < 0.75 and plain:
                a = r.choice(plain)
                d = r.randrange(len(a.dims))
                lb, ext = a.dims[d]
                if isinstance(ext, int):
                    c = r.randint(1, ext)
                    t = self.triplet(lb, ext, c, simple)
                    zext = c
                else:
                    t = self.triplet(lb, ext, (ext, 0), simple)
                    zext = ext
                dims = [t if k == d else self.gen_index(l2, e2, simple) for k, (l2, e2) in enumerate(a.dims)]
                if all(x is not None for x in dims):
                    dims = [x if k == d else AT(x) for k, x in enumerate(dims)]
                    binds.append([A(z), SEC(a.name, *dims)])
                    added_a.append(_Arr(z, a.ty, [(1, zext)], a.writable, elem_only=True))
                    bases[z] = self.alias_base.get(a.name, a.name)
                    done = True
            elif q < 0.85 and arrs:
                a = r.choice(arrs)
                binds.append([A(z), V(a.name)])
                added_a.append(_Arr(z, a.ty, list(a.dims), a.writable))
                bases[z] = self.alias_base.get(a.name, a.name)
                done = True
            if not done:
                ty = r.choice(('int', 'real'))
                if simple:
                    e, b = self.simple_value(ty, 2)
                    if _h(e) == 'v':
                        e, b = BIN('add', e, I(1)), b + 1
                    if ty == 'real' and not self.is_real_ex(e):
                        e = BIN('add', e, R(Fraction(1, 2)))
                else:
                    e, b = self.gen_expr(ty, 2)
                    if _h(e) in ('v', 'idx', 'sec'):
                        e = BIN('add', e, I(1))
                        b = (b or 0) + 1
                    if ty == 'real' and not self.is_real_ex(e):
                        e = CALL('real', e)
                binds.append([A(z), e])
                added_s.append((z, ty, False, ('value', b or 0)))
        d0 = set(self.defined)
        self.freeze()
        for z, ty, wr, src in added_s:
            self.scalars[z] = ty
            self.defined.add(z)
            if ty == 'int':
                self.vb[z] = min(src[1], _LIMIT) if isinstance(src, tuple) else _VB
                self.fixed.add(z)
            if wr:
                self.writable.add(z)
            if isinstance(src, str) and ty == 'int':
                self.vb[src] = max(self.vb.get(src, 0), _VB)
        for a in added_a:
            self.arrays[a.name] = a
            self.defined.add(a.name)
        self.alias_base.update(bases)
        body = self.gen_block(r.randint(1, 4), depth + 1)
        for z in bases:
            del self.alias_base[z]
        for z, ty, wr, src in added_s:
            del self.scalars[z]
            self.writable.discard(z)
            self.fixed.discard(z)
            self.vb.pop(z, None)
        for a in added_a:
            del self.arrays[a.name]
        self.unfreeze()
        names = {z for z, *_ in added_s} | {a.name for a in added_a}
        self.defined = (self.defined | d0) - names
        return [A('assoc'), binds, body]

    def st_print(self):
        r = self.rng
        args = []
        for _ in range(r.choice((1, 1, 2, 3))):
            q = r.random()
            arrs = [a for a in self.readable_arrays() if not a.elem_only]
            if q < 0.2 and arrs:
                args.append(V(r.choice(arrs).name))
            elif q < 0.4 and arrs:
                args.append(self.gen_elem(r.choice(arrs)))
            else:
                ty = r.choice(('int', 'int', 'real', 'real', 'logical'))
                xs = self.readable_scalars(ty)
                if xs and r.random() < 0.6:
                    args.append(V(r.choice(xs)))
                else:
                    args.append(self.gen_expr(ty, 2)[0])
        return [A('print')] + args

    def st_exit_cycle(self, kind):
        cond = self.gen_logical(1)

        def body():
            pre = []
            if self.rng.random() < 0.3:
                s = self.st_assign_scalar() if self.rng.random() < 0.6 else self.st_print()
                if s is not None:
                    pre.append(s)
            return pre + [[A(kind)]]
        thn, els = self.branch([body, lambda: []])
        return [A('if'), cond, thn, els]

    def st_call(self):
        r = self.rng
        if not self.callees:
            return None
        sig = r.choice(self.callees)
        used_out, used_any = set(), set()
        actuals, post_defined = [], []
        n_act = None
        has_sym = sig.has_n
        if has_sym:
            opts = [V(s) for s in self.syms] + [I(k) for k in (1, 2, 3, 4)]
            n_act = r.choice(opts)
        pre = []
        for name, ty, intent, dims in sig.dummies:
            if dims is None:
                if name == 'n' and has_sym:
                    actuals.append(n_act)
                    continue
                if intent == 'in':
                    q = r.random()
                    xs = [x for x in self.readable_scalars(ty) if x not in used_out]
                    if q < 0.35 and xs:
                        x = r.choice(xs)
                        if ty == 'int' and self.vb.get(x, _VB) > _VB:
                            actuals.append(CALL('mod', V(x), I(97)))
                        else:
                            actuals.append(V(x))
                            used_any.add(x)
                    else:
                        if ty == 'int':
                            e = self.wrap_int(*self.gen_int(2), _VB)[0]
                        else:
                            e = self.gen_expr(ty, 2)[0]
                        if ty == 'real' and not self.is_real_ex(e):
                            e = CALL('real', e)
                        if _h(e) in ('v', 'idx'):
                            used_any.add(str(e[1]))
                        actuals.append(e)
                        for x in list(self.scalars) + list(self.arrays):
                            if _mentions(e, x):
                                used_any.add(x)
                else:
                    xs = [x for x in sorted(self.writable) if self.scalars.get(x) == ty and x not in used_any
                          and x not in used_out and (intent == 'out' or x in self.defined) and not x.startswith('z')]
                    xs = [x for x in xs if not (ty == 'int' and intent == 'inout' and self.vb.get(x, _VB) > _VB
                                                and (self.frozen or x in self.acc))]
                    if not xs:
                        x = self.fresh('t')
                        self.declare_scalar(x, ty)
                        if intent == 'inout':
                            e = self.wrap_int(*self.gen_int(1), _VB)[0] if ty == 'int' else self.gen_expr(ty, 1)[0]
                            pre.append([A('assign'), V(x), e])
                            self.defined.add(x)
                            if ty == 'int':
                                self.vb[x] = _VB
                    else:
                        x = r.choice(xs)
                        if ty == 'int' and intent == 'inout' and self.vb.get(x, _VB) > _VB:
                            pre.append([A('assign'), V(x), CALL('mod', V(x), I(97))])
                    actuals.append(V(x))
                    used_out.add(x)
                    used_any.add(x)
                    post_defined.append(x)
                    if ty == 'int':
                        self.vb[x] = max(self.vb.get(x, 0), _VB) if self.frozen else _VB
            else:
                if n_act is not None and _h(n_act) == 'i':
                    req = [ext if isinstance(ext, int) else int(str(n_act[1])) for _, ext in dims]
                else:
                    req = [ext if isinstance(ext, int) else str(n_act[1]) for _, ext in dims]
                cands = []
                for a in self.arrays.values():
                    if a.ty != ty or a.elem_only or a.name in used_any or a.name in used_out or a.name.startswith('z'):
                        continue
                    if intent != 'in' and not a.writable:
                        continue
                    if intent != 'out' and a.name not in self.defined:
                        continue
                    if a.exts() == req:
                        cands.append((a, None))
                    elif all(isinstance(e, int) for e in req) and all(isinstance(e, int) for e in a.exts()):
                        need, have = 1, 1
                        for e in req:
                            need *= e
                        for e in a.exts():
                            have *= e
                        if have >= need and (intent != 'out' or a.name in self.defined):
                            cands.append((a, (need, have)))
                if cands and r.random() < 0.85:
                    a, seq = r.choice(cands)
                    if seq is None or (seq[0] == seq[1] and r.random() < 0.5) or r.random() < 0.4:
                        actuals.append(V(a.name))
                        full = seq is None or seq[0] == seq[1]
                    else:
                        need, have = seq
                        off = r.randrange(have - need + 1)
                        idx = []
                        for lb, ext in a.dims:
                            idx.append(ilit(lb + off % ext))
                            off //= ext
                        actuals.append(IDX(a.name, *idx))
                        full = False
                    used_any.add(a.name)
                    if intent != 'in':
                        used_out.add(a.name)
                        if full:
                            post_defined.append(a.name)
                else:
                    t = self.fresh('t')
                    self.declare_array(t, ty, [(1, e) for e in req])
                    if intent != 'out':
                        e = self.wrap_int(*self.gen_int(1), 100)[0] if ty == 'int' else self.gen_real(1)[0]
                        pre.append([A('assign'), V(t), e])
                        self.defined.add(t)
                    actuals.append(V(t))
                    used_any.add(t)
                    used_out.add(t)
                    post_defined.append(t)
        # element actuals such as a(i) next to a written actual i are fine: the element is fixed when the call starts
        self.pending += pre
        self.defined |= set(post_defined)
        return [A('callsub'), A(sig.name)] + actuals

    def gen_stmt(self, depth):
        r = self.rng
        w = dict(self.w)
        if depth >= self.cfg['max_depth'] or self.left < 2:
            for k in ('do', 'while', 'if', 'select', 'assoc'):
                w[k] = 0
        if not self.loops:
            w['exit'] = w['cycle'] = w['accumulate'] = 0
        if not self.callees:
            w['call'] = 0
        kinds = [k for k in w if w[k] > 0]
        kind = r.choices(kinds, [w[k] for k in kinds])[0]
        if kind == 'assign_scalar':
            return self.st_assign_scalar()
        if kind == 'accumulate':
            return self.st_accumulate()
        if kind == 'assign_elem':
            return self.st_assign_elem()
        if kind == 'assign_section':
            return self.st_assign_section()
        if kind == 'assign_whole':
            return self.st_assign_section(whole=True)
        if kind == 'do':
            return self.st_do(depth)
        if kind == 'while':
            return self.st_while(depth)
        if kind == 'if':
            return self.st_if(depth)
        if kind == 'select':
            return self.st_select(depth)
        if kind == 'assoc':
            return self.st_assoc(depth)
        if kind == 'print':
            return self.st_print()
        if kind == 'call':
            return self.st_call()
        if kind in ('exit', 'cycle'):
            return self.st_exit_cycle(kind)
        if kind == 'comment':
            return [A('nop'), A('comment'), r.choice(self.cfg['comments'])]
        return [A('nop'), A('pragma'), r.choice(self.cfg['pragmas'])]

    def gen_block(self, n, depth):
        out = []
        tries = 0
        while n > 0 and self.left > 0 and tries < 40:
            tries += 1
            saved = self.pending
            self.pending = []
            s = self.gen_stmt(depth)
            pre, self.pending = self.pending, saved
            if s is None:
                continue
            out += pre + [s]
            used = 1 + len(pre)
            n -= 1
            self.left -= used
        return out

    # ------------------------------------------------------------ whole unit
    def build(self, n_stmts):
        r, cfg = self.rng, self.cfg
        if r.random() < cfg['symbolic_prob']:
            self.syms = ['n'] + (['m'] if (self.is_main and r.random() < 0.3) else [])
        for s in self.syms:
            self.declare_scalar(s, 'int', 'in', writable=False)
            self.args.append(s)
            self.defined.add(s)
            self.vb[s] = cfg['max_extent']
        # scalars
        ns = r.randint(*cfg['n_scalars'])
        pre = {'int': 'k', 'real': 'x', 'logical': 'p'}
        have_obs = False
        for _ in range(ns):
            ty = r.choices(('int', 'real', 'logical'), (45, 40, 15))[0]
            name = self.fresh(pre[ty])
            role = r.choices(('in', 'inout', 'out', 'none'), (25, 25, 15, 35))[0]
            self.declare_scalar(name, ty, role, writable=(role != 'in'))
            if role != 'none':
                self.args.append(name)
                have_obs = have_obs or role != 'in'
                if role in ('in', 'inout'):
                    self.defined.add(name)
                    if ty == 'int':
                        self.vb[name] = 9 if self.is_main else _VB
                if ty == 'int' and not self.is_main and role != 'in':
                    self.fixed.add(name)
        # arrays
        na = r.randint(*cfg['n_arrays'])
        callee_shapes = [(ty, dims) for sig in self.callees for _, ty, _, dims in sig.dummies if dims]
        for k in range(na):
            if callee_shapes and r.random() < 0.5:
                ty, cd = r.choice(callee_shapes)
                sub = r.choice(self.syms) if self.syms else r.randint(2, 4)
                dims = [(r.choice(cfg['lower_bounds']), ext if isinstance(ext, int) else sub) for _, ext in cd]
            else:
                ty = r.choice(('int', 'real'))
                rank = r.choices((1, 2, 3), (50, 35, 15))[0]
                rank = min(rank, cfg['max_rank'])
                cap = {1: cfg['max_extent'], 2: min(cfg['max_extent'], 5), 3: min(cfg['max_extent'], 3)}[rank]
                dims = []
                for d in range(rank):
                    if self.syms and r.random() < 0.5 and not (rank == 3 and any(isinstance(e, str) for _, e in dims)):
                        ext = r.choice(self.syms)
                    else:
                        ext = r.randint(2, cap) if r.random() < 0.9 else 1
                    dims.append((r.choice(cfg['lower_bounds']), ext))
            name = self.fresh('a' if ty == 'int' else 'b')
            role = r.choices(('in', 'inout', 'out', 'none'), (20, 35, 15, 30))[0]
            if k == na - 1 and not have_obs and role in ('in', 'none'):
                role = 'inout'
            self.declare_array(name, ty, dims, role, writable=(role != 'in'))
            if role != 'none':
                self.args.append(name)
                have_obs = have_obs or role != 'in'
                if role in ('in', 'inout'):
                    self.defined.add(name)
        if not have_obs:
            name = self.fresh('k')
            self.declare_scalar(name, 'int', 'out')
            self.args.append(name)
            if not self.is_main:
                self.fixed.add(name)
        if r.random() < 0.25:
            name = self.fresh('c')
            self.declare_scalar(name, 'int', writable=False)
            v = r.randint(2, 5)
            self.params[name] = I(v)
            self.defined.add(name)
            self.vb[name] = v
        # dummies first in the declaration order (their bounds only use n/m, which are declared first)
        self.left = n_stmts
        body = []
        # prologue: define most local / out arrays and some scalars, so that there is something to read
        for a in list(self.arrays.values()):
            if a.name not in self.defined and r.random() < 0.8 and self.left > 3:
                if r.random() < 0.6 or len(a.dims) > 2:
                    e = self.wrap_int(*self.gen_int(1), 100)[0] if a.ty == 'int' else self.gen_real(1)[0]
                    body.append([A('assign'), V(a.name), e])
                    self.left -= 1
                else:
                    body += self.init_loops(a)
                    self.left -= 1 + len(a.dims)
                self.defined.add(a.name)
        for x in sorted(self.writable):
            if x not in self.defined and r.random() < 0.5 and self.left > 3:
                saved, self.w = self.w, self.w
                ty = self.scalars[x]
                e, b = self.gen_expr(ty, 1)
                if ty == 'int':
                    e, b = self.wrap_int(e, b, self.store_cap(x))
                    self.note_store(x, b)
                body.append([A('assign'), V(x), e])
                self.defined.add(x)
                self.left -= 1
        body += self.gen_block(self.left, 0)
        # epilogue: every intent(out) dummy is defined when the unit returns
        for x in self.args:
            if x in self.defined or self.intents[x] == 'in':
                continue
            if x in self.arrays:
                a = self.arrays[x]
                e = self.wrap_int(*self.gen_int(1), 100)[0] if a.ty == 'int' else self.gen_real(1)[0]
                body.append([A('assign'), V(x), e])
            else:
                ty = self.scalars[x]
                e, b = self.gen_expr(ty, 1)
                if ty == 'int':
                    e, b = self.wrap_int(e, b, self.store_cap(x))
                    self.note_store(x, b)
                body.append([A('assign'), V(x), e])
            self.defined.add(x)
        if not self.is_main:
            for x in self.args:
                if x in self.scalars and self.scalars[x] == 'int' and self.intents[x] != 'in' and self.vb.get(x, 0) > _VB:
                    body.append([A('assign'), V(x), CALL('mod', V(x), I(97))])
        # declaration order: dummies in argument order, then the rest as created
        order = self.args + [x for x in self.decl_order if x not in self.args]
        self.decl_order = order
        unit = [A('unit'), A(self.name), [A(a) for a in self.args], self.decls_wire(), body]
        dummies = [(x, self.arrays[x].ty if x in self.arrays else self.scalars[x], self.intents[x],
                    list(self.arrays[x].dims) if x in self.arrays else None) for x in self.args]
        return unit, _Sig(self.name, dummies, 'n' in self.syms)

    def init_loops(self, a):
        """a loop nest that assigns every element of array ``a``"""
        vars_ = []
        for d in range(len(a.dims)):
            v = f'i{d + 1}'
            if v not in self.scalars:
                self.declare_scalar(v, 'int', writable=False)
            vars_.append(v)
        self.freeze()
        for v, (lb, ext) in zip(vars_, a.dims):
            self.loops.append({'var': v, 'kind': 'lit' if isinstance(ext, int) else 'sym', 'lo': lb,
                               'hi': lb + ext - 1 if isinstance(ext, int) else 0, 'sym': ext, 'lbv': lb, 'c1': 0, 'c2': 0,
                               'trips': self.ext_max(ext)})
            self.defined.add(v)
            self.vb[v] = abs(lb) + self.ext_max(ext) + 2
        if a.ty == 'int':
            e = self.wrap_int(*self.gen_int(2), _VB)[0]
        else:
            e = self.gen_real(2)[0]
        stmt = [A('assign'), IDX(a.name, *[V(v) for v in vars_]), e]
        for v, (lb, ext) in reversed(list(zip(vars_, a.dims))):
            self.loops.pop()
            stmt = [A('do'), A(v), self.lo_ex(lb), self.hi_ex(lb, ext), NONE, [stmt]]
        self.unfreeze()
        return [stmt]


def _gen_candidate(rng, cfg):
    ncal = rng.randint(*cfg['n_callees'])
    sigs, units = [], []
    for k in range(ncal, 0, -1):          # sub<k> may call sub<j> for j > k
        ccfg = dict(cfg)
        ccfg.update(n_scalars=(1, 3), n_arrays=(0, 2), max_rank=2, max_depth=min(2, cfg['max_depth']))
        g = _UnitGen(rng, ccfg, f'sub{k}', False, list(sigs))
        u, sig = g.build(rng.randint(2, cfg['callee_stmts']))
        units.insert(0, u)
        sigs.append(sig)
    g = _UnitGen(rng, cfg, 'kernel', True, list(sigs))
    u, _ = g.build(rng.randint(max(3, cfg['max_stmts'] // 3), cfg['max_stmts']))
    return [A('program'), A('kernel'), u] + units


def exact_in_hardware(stats):
    """True when a run with these interpreter statistics is exact in 32-bit integers and IEEE doubles"""
    return stats.get('max_int', 0) < 2 ** 31 and stats.get('dyadic', True) and stats.get('real_bits', 0) <= 53 \
        and stats.get('real_exp', 0) < 1000


def gen_program(rng, cfg=None):
    """A random FIR program (wire form, normal form).  ``cfg`` overrides ``DEFAULT_CFG`` (``weights`` key-wise).

    Valid by construction: variables are assigned before they are read, subscripts stay in bounds, divisors are
    non-zero, integers stay below 1e9 (every integer subexpression carries a static bound; stores are reduced with
    ``mod`` where the bound would be exceeded), reals are dyadic and combined by + - * and division by powers of
    two.  What construction does not bound (growth of reals, real -> integer conversion) is checked by running
    the candidate on probe inputs (``validate``): candidates that fail, overflow or lose exactness are discarded."""
    cfg = merge_cfg(cfg)
    import random as _random
    last = None
    for attempt in range(30):
        prog = _gen_candidate(rng, cfg)
        last = prog
        if not cfg['validate']:
            return prog
        ok = True
        prng = _random.Random(rng.getrandbits(32))
        for inputs in gen_inputs(prng, prog, 3, extreme=True):
            st = {}
            res = interp(prog, inputs, stats=st)
            if res[0] != 'ok' or st['max_int'] >= 2 ** 28 or not st['dyadic'] or st['real_bits'] > 44 or st['real_exp'] > 200:
                ok = False
                break
        if ok:
            return prog
    return last


def size_params(prog):
    """{unit: dummies that determine array extents}: integer dummies that occur in a declared bound of the unit, or
    are passed on (as a plain variable) to such a dummy of a called unit"""
    units = {str(u[1]): u for u in prog[2:]}
    out = {}
    for name, u in units.items():
        args = [str(a) for a in u[2]]
        out[name] = {x for x in args for d in u[3] for lo, hi in d[4] if _mentions(lo, x) or _mentions(hi, x)}
    changed = True
    while changed:
        changed = False
        for name, u in units.items():
            args = [str(a) for a in u[2]]
            for s in iter_stmts(u[4]):
                if _h(s) != 'callsub' or str(s[1]) not in units:
                    continue
                g = units[str(s[1])]
                for dummy, actual in zip([str(a) for a in g[2]], s[2:]):
                    if dummy in out[str(g[1])] and _h(actual) == 'v' and str(actual[1]) in args \
                            and str(actual[1]) not in out[name]:
                        out[name].add(str(actual[1]))
                        changed = True
    return out


def gen_inputs(rng, prog, k, extreme=False, max_extent=6):
    """``k`` input sets (wire form ``((x val...)...)``) for the main unit: values for the dummies with intent in /
    inout / none (intent(out) dummies stay undefined).  Integer scalars that occur in array bounds get 1..max_extent
    (retried until every extent is at least 1), other integers -9..9, reals k/8 with |k| <= 40, logicals both values.
    With ``extreme`` the last set uses the largest magnitudes everywhere."""
    u = find_unit(prog, prog_main(prog))
    decls = {str(d[1]): d for d in u[3]}
    args = [str(a) for a in u[2]]
    in_bounds = size_params(prog).get(prog_main(prog), set())
    sets = []
    for j in range(k):
        ext = extreme and j == k - 1
        for attempt in range(30):
            row_scalars = []
            for x in args:
                name, ty, intent, dims, param = decl_fields(decls[x])
                if dims or intent == 'out':
                    continue
                if ty == 'int':
                    if x in in_bounds:
                        v = max_extent if ext else (1 if rng.random() < 0.12 else rng.randint(1, max_extent))
                    else:
                        v = rng.choice((-9, 9)) if ext else rng.randint(-9, 9)
                elif ty == 'real':
                    v = Fraction(rng.choice((-40, 40)) if ext else rng.randint(-40, 40), 8)
                else:
                    v = rng.random() < 0.5
                row_scalars.append([A(x), encode_val(v)])
            try:
                shapes = main_shapes(prog, row_scalars)
            except ValueError:
                continue
            if all(bs is None or all(hi >= lo for lo, hi in bs) for _, _, _, bs in shapes):
                break
        rows = {str(r[0]): r for r in row_scalars}
        out = []
        for x, ty, intent, bs in shapes:
            if bs is None:
                if x in rows:
                    out.append(rows[x])
                continue
            if intent == 'out':
                continue
            size = 1
            for lo, hi in bs:
                size *= max(0, hi - lo + 1)
            vals = []
            for _ in range(size):
                if ty == 'int':
                    vals.append(rng.choice((-9, 9)) if ext else rng.randint(-9, 9))
                elif ty == 'real':
                    vals.append(Fraction(rng.choice((-40, 40)) if ext else rng.randint(-40, 40), 8))
                else:
                    vals.append(rng.random() < 0.5)
            out.append([A(x)] + [encode_val(v) for v in vals])
        sets.append(out)
    return sets
