"""
Check runner shared by all properties (DESIGN.md section 1.2).

    ./check Cxx --tier quick|thorough [--replay path]

Steps: regenerate tables from /repo -> lake build (model, then property theorems) -> audit
(forbidden words, axioms of every theorem) -> corpus + generated cases -> real code and Lean
driver on the same request lines -> diff (correspondence) -> direct oracle on the real code ->
verdict, evidence/Cxx.json, replay files.

Exit codes: 0 = held on everything explored (KNOWN-FINDING lines allowed), 1 = VIOLATION,
2 = the check itself is broken (audit failure, infrastructure error).
"""
import hashlib
import json
import os
import random
import re
import subprocess
import sys
import time
import traceback
from pathlib import Path

from . import sexpr
from .sexpr import A, dumps, loads

VERIF = Path(__file__).resolve().parent.parent
LEAN = VERIF / 'lean'
WORK = VERIF / '.work'
REPO = Path(os.environ.get('LOKI_REPO', '/repo'))
OUT = Path(os.environ.get('VERIF_OUT', str(VERIF)))   # evidence/ and replays/ go here (redirect when testing mutants)
ALLOWED_AXIOMS = {'propext', 'Classical.choice', 'Quot.sound'}
FORBIDDEN = re.compile(
    r'\bsorry\b|\badmit\b|^\s*axiom\s|native_decide|bv_decide|implemented_by|\bunsafe\s|maxHeartbeats\s+0\b|\bpartial\s+def\b',
    re.M)


class Case:
    """One generated input: ``req`` is the request (python S-expression) sent to the model driver and
    decoded by ``Prop.impl``/``Prop.oracle`` on the real-code side."""

    def __init__(self, req, stream='main', nontrivial=True, key=None, note=None):
        self.line = dumps(req)
        self.req = loads(self.line)     # normalised: exactly what a replay will see
        self.stream = stream
        self.nontrivial = nontrivial
        self.key = key if key is not None else self.line
        self.note = note


class Failure:
    """A direct-oracle failure on the real code.  ``cls`` names the known-finding class it falls in
    (decided by the property's classifier) or is None."""

    def __init__(self, what, cls=None, error=False):
        self.what = what
        self.cls = cls
        self.error = error      # True: the oracle itself raised (malformed request while shrinking, harness bug)


class Prop:
    id = None
    title = ''
    model_modules = []          # built first; the driver needs only these
    props_module = None         # LokiModel.Props.Cxx
    findings_module = None      # LokiModel.Findings.Cxx: witness theorems about open defects (failure to build = note only)
    driver = None               # lean/Drivers/Cxx.lean
    theorems = []               # names that must appear in the audit
    design_ref = ''
    level = 'proof'
    level_text = ''
    level_note = ''
    technique = ''
    trusted_base = []
    assumptions = []
    rule = ''
    extra_obligations = []      # names of correspondence obligations (each counts as one obligation)

    def tables(self):
        """{path relative to lean/: content} regenerated from /repo on every run"""
        return {}

    def gen(self, rng, tier):
        return []

    def impl(self, req):
        raise NotImplementedError

    def oracle(self, req):
        return []

    def canon_model(self, resp):
        return resp

    def classes(self):
        """names of known-finding classes this property's classifier can return"""
        return []

    def post(self, cases, impl_out, model_raw, oracle_fail):
        """optional cross-checks after a run; returns (problems, extra_coverage): problems = list of strings that make
        the check report itself broken (exit 2), extra_coverage = dict merged into the evidence"""
        return [], {}


# ------------------------------------------------------------------ helpers

def sh(cmd, cwd=None, timeout=3600, input=None):
    p = subprocess.run(cmd, cwd=cwd, stdout=subprocess.PIPE, stderr=subprocess.STDOUT, text=True,
                       timeout=timeout, input=input)
    out = '\n'.join(l for l in p.stdout.splitlines() if 'conda.cli.condarc' not in l)
    return p.returncode, out


def write_if_changed(path, content):
    path.parent.mkdir(parents=True, exist_ok=True)
    if path.exists() and path.read_text() == content:
        return False
    path.write_text(content)
    return True


def lake_build(targets):
    return sh(['lake', 'build'] + list(targets), cwd=LEAN)


def import_closure(mods):
    """files of LokiModel modules transitively imported by ``mods`` (own library only)"""
    seen, todo, files = set(), list(mods), []
    while todo:
        m = todo.pop()
        if m in seen or not m.startswith('LokiModel'):
            continue
        seen.add(m)
        f = LEAN / (m.replace('.', '/') + '.lean')
        if not f.exists():
            continue
        files.append(f)
        for line in f.read_text().splitlines():
            mm = re.match(r'\s*(?:public\s+)?import\s+([\w.]+)', line)
            if mm:
                todo.append(mm.group(1))
    return files


def strip_comments(text):
    text = re.sub(r'/-.*?-/', '', text, flags=re.S)
    return re.sub(r'--.*', '', text)


def audit(prop):
    """returns (ok, problems, theorem->axioms)"""
    problems = []
    for f in import_closure([prop.props_module] + list(prop.model_modules)):
        if f.name == 'Sexp.lean' or f.name == 'Audit.lean':
            continue  # infrastructure (line protocol / audit command), not model or proof
        body = strip_comments(f.read_text())
        for m in FORBIDDEN.finditer(body):
            problems.append(f'{f.relative_to(LEAN)}: forbidden "{m.group(0).strip()}"')
    src = f'import LokiModel.Audit\nimport {prop.props_module}\n#audit_module {prop.props_module}\n'
    WORK.mkdir(exist_ok=True)
    af = WORK / f'audit_{prop.id}.lean'
    af.write_text(src)
    rc, out = sh(['lake', 'env', 'lean', str(af)], cwd=LEAN)
    thms = {}
    for line in out.splitlines():
        m = re.match(r'.*AUDIT(DEF|AXIOM)?\s+(\S+)\s*:?\s*(.*)$', line)
        if not m:
            continue
        kind, name, axs = m.group(1), m.group(2), m.group(3)
        axset = {a.strip() for a in axs.split(',') if a.strip()}
        if kind == 'AXIOM':
            problems.append(f'axiom declared: {name}')
            continue
        bad = axset - ALLOWED_AXIOMS
        if bad:
            problems.append(f'{name} depends on {sorted(bad)}')
        if kind is None:
            thms[name] = sorted(axset)
    if rc != 0:
        problems.append('audit command failed: ' + out[-400:])
    for t in prop.theorems:
        if t not in thms and not any(k.endswith('.' + t) for k in thms):
            problems.append(f'expected theorem missing: {t}')
    return (not problems), problems, thms


def run_driver(prop, lines):
    WORK.mkdir(exist_ok=True)
    rf = WORK / f'req_{prop.id}_{os.getpid()}.txt'
    rf.write_text('\n'.join(lines) + '\n')
    with open(rf) as fh:
        p = subprocess.run(['lake', 'env', 'lean', '--run', prop.driver], cwd=LEAN, stdin=fh,
                           stdout=subprocess.PIPE, stderr=subprocess.PIPE, text=True, timeout=3600)
    rf.unlink(missing_ok=True)
    outs = [l for l in p.stdout.splitlines() if l.strip()]
    if p.returncode != 0 or len(outs) != len(lines):
        raise RuntimeError(f'driver failed rc={p.returncode} got {len(outs)} lines for {len(lines)} requests: '
                           + p.stderr[-600:] + p.stdout[-300:])
    return outs


def load_known():
    f = Path(os.environ.get('VERIF_KNOWN', str(VERIF / 'known_findings.json')))
    if not f.exists():
        return []
    return json.loads(f.read_text())['findings']


def corpus_lines(prop):
    d = VERIF / 'corpus' / prop.id
    lines = []
    if d.exists():
        for f in sorted(d.glob('*.sexp')):
            for l in f.read_text().splitlines():
                l = l.strip()
                if l and not l.startswith(';'):
                    lines.append(l)
    return lines


def save_replay(prop, kind, payload):
    d = OUT / 'replays'
    d.mkdir(parents=True, exist_ok=True)
    h = hashlib.sha1(json.dumps(payload, sort_keys=True).encode()).hexdigest()[:10]
    f = d / f'{prop.id}-{kind}-{h}.json'
    payload = dict(payload, property=prop.id, kind=kind)
    f.write_text(json.dumps(payload, indent=1))
    return f.relative_to(OUT)


# ------------------------------------------------------------------ shrinking

def _subterms_replace(x):
    """candidate smaller variants of S-expression x (generic delta steps)"""
    if not isinstance(x, list):
        return
    # replace by a child of list type
    for c in x[1:]:
        if isinstance(c, list):
            yield c
    # drop an element (keep head)
    for i in range(1, len(x)):
        yield x[:i] + x[i + 1:]
    # recurse
    for i in range(len(x)):
        for v in _subterms_replace(x[i]):
            yield x[:i] + [v] + x[i + 1:]


def shrink(req, still_fails, budget=400, candidates=None):
    cur = req
    improved = True
    n = 0
    candidates = candidates or _subterms_replace
    while improved and n < budget:
        improved = False
        for cand in candidates(cur):
            n += 1
            if n >= budget:
                break
            if len(dumps(cand)) >= len(dumps(cur)):
                continue
            try:
                if still_fails(cand):
                    cur = cand
                    improved = True
                    break
            except Exception:
                continue
    return cur


# ------------------------------------------------------------------ main protocol

def safe_impl(prop, req):
    try:
        return dumps(prop.impl(req))
    except (Exception, SystemExit) as e:  # the real code raised something the property module did not map (fparser calls sys.exit on some errors)
        return dumps([A('impl-exception'), type(e).__name__, str(e)[:200]])


def safe_oracle(prop, req):
    try:
        return list(prop.oracle(req))
    except (Exception, SystemExit) as e:
        return [Failure(f'oracle raised {type(e).__name__}: {str(e)[:200]}\n{traceback.format_exc()[-600:]}', error=True)]


def run(prop, tier='quick', seed=0, replay=None):
    t0 = time.time()
    rng = random.Random(seed)
    known = [k for k in load_known() if k['property'] == prop.id]
    open_classes = {k['class'] for k in known if k.get('status', 'open') == 'open'}
    log = []
    violations = []       # (what, replay path, no_input_found)
    known_hit = {}

    def say(s):
        print(s, flush=True)
        log.append(s)

    # 1 tables
    changed = [p for p, c in prop.tables().items() if write_if_changed(LEAN / p, c)]
    if changed:
        say(f'[{prop.id}] regenerated tables: {changed}')

    # 2 build
    rc_m, out_m = lake_build(prop.model_modules) if prop.model_modules else (0, '')
    model_ok = rc_m == 0
    rc_p, out_p = lake_build([prop.props_module])
    proofs_ok = rc_p == 0
    broken = []
    if not model_ok:
        broken.append(('model-build', out_m[-1500:]))
    if not proofs_ok:
        broken.append(('proof-build ' + prop.props_module, out_p[-1500:]))

    if proofs_ok and prop.findings_module:
        rc_f, out_f = lake_build([prop.findings_module])
        if rc_f != 0:
            say(f'[{prop.id}] note: {prop.findings_module} no longer builds (a listed defect may have been repaired); '
                'witness theorems about open findings do not gate the verdict')

    # 3 audit
    thms = {}
    if proofs_ok:
        ok, problems, thms = audit(prop)
        if not ok:
            say(f'[{prop.id}] AUDIT FAILED: ' + '; '.join(problems))
            write_evidence(prop, tier, seed, t0, dict(evaluations=0), note='audit failed: ' + '; '.join(problems),
                           thms=thms, discharged=0, violations=0)
            return 2

    # 3b thorough tier: independent re-check of the compiled property theorems (leanchecker replays every declaration of the
    # module through the kernel from the .olean).  A failure here is a toolchain problem, not a verdict: exit 2.
    rechecked = None
    if proofs_ok and tier == 'thorough' and not replay and os.environ.get('VERIF_LEANCHECKER', '1') == '1':
        rc_c, out_c = sh(['lake', 'env', 'leanchecker', prop.props_module], cwd=LEAN, timeout=3000)
        rechecked = rc_c == 0
        say(f'[{prop.id}] leanchecker {prop.props_module}: ' + ('ok' if rechecked else 'FAILED ' + out_c[-400:]))
        if not rechecked:
            write_evidence(prop, tier, seed, t0, dict(evaluations=0), note='leanchecker failed: ' + out_c[-400:],
                           thms=thms, discharged=0, violations=0)
            return 2

    # 4 inputs
    if replay:
        payload = json.loads(Path(replay).read_text())
        cases = [Case(loads(l), stream='replay') for l in payload.get('requests', [])]
    else:
        cases = [Case(loads(l), stream='corpus') for l in corpus_lines(prop)]
        cases += list(prop.gen(rng, tier))

    # 5 real code and model on the same lines
    impl_out = [safe_impl(prop, c.req) for c in cases]
    disagreements = []
    model_out = None
    model_raw = None
    if model_ok and cases:
        try:
            model_raw = run_driver(prop, [c.line for c in cases])
            model_out = [dumps(prop.canon_model(loads(l))) for l in model_raw]
        except Exception as e:
            broken.append(('driver', str(e)[-1500:]))
    if model_out is not None:
        for c, a, b in zip(cases, impl_out, model_out):
            if a != b:
                disagreements.append((c, a, b))

    # 7 direct oracle on every input
    oracle_fail = []
    for c in cases:
        for f in safe_oracle(prop, c.req):
            oracle_fail.append((c, f))

    def handle_oracle_failures(fails):
        for c, f in fails:
            if f.cls is not None and f.cls in open_classes:
                if f.cls not in known_hit:
                    known_hit[f.cls] = (c, f)
                continue

            def still(r):
                fs = safe_oracle(prop, r)
                return any(x.cls == f.cls and not x.error for x in fs)
            small = shrink(c.req, still, candidates=getattr(prop, 'shrink_candidates', None)) if not replay else c.req
            fs = [x for x in safe_oracle(prop, small) if x.cls == f.cls]
            what = fs[0].what if fs else f.what
            path = save_replay(prop, 'input', dict(requests=[dumps(small)], original=c.line, what=what,
                                                    cls=f.cls, seed=seed, tier=tier))
            violations.append((what, path, False))
            return  # one violation with replay is enough

    handle_oracle_failures(oracle_fail)

    # 6 correspondence / proof obligations broken -> search for a failing input
    searched = 0
    if (broken or disagreements) and not violations:
        which = [b[0] for b in broken] + (['correspondence'] if disagreements else [])
        say(f'[{prop.id}] obligation(s) no longer check: {which}; searching for a failing input')
        for name, detail in broken:
            say(f'--- {name} ---\n{detail}')
        for c, a, b in disagreements[:5]:
            say(f'  disagreement on {c.line}\n    impl : {a}\n    model: {b}')
        # search: disagreeing inputs first (already oracle-checked above), then a thorough-sized fresh set
        if not replay:
            srng = random.Random(seed + 7919)
            extra = list(prop.gen(srng, 'search'))
            searched = len(extra)
            fails = []
            for c in extra:
                for f in safe_oracle(prop, c.req):
                    fails.append((c, f))
            handle_oracle_failures(fails)
        if not violations:
            payload = dict(broken=[dict(obligation=n, detail=d) for n, d in broken],
                           disagreements=[dict(request=c.line, impl=a, model=b) for c, a, b in disagreements[:20]],
                           requests=[c.line for c, _, _ in disagreements[:20]],
                           note='no failing input found by the search; the named theorem/correspondence no longer checks',
                           searched=searched + len(cases), seed=seed, tier=tier)
            path = save_replay(prop, 'obligation', payload)
            violations.append(('; '.join(which), path, True))

    # 8 verdict
    for cls, (c, f) in sorted(known_hit.items()):
        say(f'KNOWN-FINDING: property={prop.id} class={cls} {f.what} input={c.line[:200]}')
    # listed open findings are replayed from their witness every run (so the line appears deterministically)
    for k in known:
        if k.get('status', 'open') == 'open' and k['class'] not in known_hit and k.get('witness'):
            try:
                fs = [f for f in safe_oracle(prop, loads(k['witness'])) if f.cls == k['class']]
            except Exception:
                fs = []
            if fs:
                say(f"KNOWN-FINDING: property={prop.id} class={k['class']} {fs[0].what} input={k['witness'][:200]}")
                known_hit[k['class']] = (None, fs[0])
            else:
                say(f"[{prop.id}] note: listed finding {k['class']} did not reproduce from its witness")
    for what, path, nofound in violations:
        say(f'[{prop.id}] violation: {what}')
        say(f'VIOLATION property={prop.id} replay={path}' + (' no-failing-input-found' if nofound else ''))

    # property-specific cross-checks
    post_problems, extra_cov = [], {}
    try:
        post_problems, extra_cov = prop.post(cases, impl_out, model_raw, oracle_fail)
    except Exception as e:
        post_problems = [f'post hook raised {type(e).__name__}: {e}']
    for pp in post_problems:
        say(f'[{prop.id}] CHECK INCONSISTENT: {pp}')

    # evidence
    streams = {}
    for c in cases:
        streams[c.stream] = streams.get(c.stream, 0) + 1
    distinct = len({c.key for c in cases if c.nontrivial})
    n_thm = len(thms)
    obligations = n_thm + len(prop.extra_obligations) + 1
    discharged = (n_thm if proofs_ok else 0) + (len(prop.extra_obligations) + 1 if (model_out is not None and not disagreements) else 0)
    cov = dict(
        evaluations=len(cases) + searched,
        distinct_nontrivial=distinct,
        rule=prop.rule,
        samples=[dict(request=c.line, impl=a) for c, a in list(zip(cases, impl_out))[:: max(1, len(cases) // 6)][:8]] or ['(none)'],
        streams=streams,
        correspondence_disagreements=len(disagreements),
        oracle_failures=len(oracle_fail),
        oracle_failures_in_known_classes=sum(1 for _, f in oracle_fail if f.cls in open_classes),
        known_classes_hit=sorted(known_hit),
        theorems=thms,
    )
    if rechecked is not None:
        cov['leanchecker'] = f'lake env leanchecker {prop.props_module}: ' + ('ok' if rechecked else 'failed')
    cov.update(extra_cov or {})
    write_evidence(prop, tier, seed, t0, cov, thms=thms, obligations=obligations, discharged=discharged,
                   violations=len(violations))
    if (any(b[0] == 'driver' for b in broken) or post_problems) and not violations:
        return 2
    return 1 if violations else 0


def write_evidence(prop, tier, seed, t0, cov, thms=None, obligations=None, discharged=None, violations=0, note=None):
    thms = thms or {}
    cov = dict(cov)
    cov.setdefault('evaluations', 0)
    cov.setdefault('distinct_nontrivial', 0)
    cov.setdefault('rule', prop.rule)
    cov.setdefault('samples', ['(none)'])
    cov['obligations'] = obligations if obligations is not None else max(1, len(thms))
    cov['discharged'] = discharged if discharged is not None else 0
    cov['checker_cmd'] = f'cd lean && lake build {prop.props_module} && lake env lean .work/audit_{prop.id}.lean  (lean 4.33.0 kernel; #audit_module prints the axioms of every theorem)'
    cov['trusted_base'] = ['Lean 4.33.0 kernel', 'axioms: ' + ', '.join(sorted({a for v in thms.values() for a in v}) or ['(none)'])] + list(prop.trusted_base)
    if note:
        cov['explanation'] = note
    ev = dict(property_id=prop.id, tier=tier if tier in ('quick', 'thorough') else 'quick', seed=seed, level=prop.level,
              coverage=cov, assumptions=list(prop.assumptions), wall_s=round(time.time() - t0, 2), violations=violations)
    d = OUT / 'evidence'
    d.mkdir(parents=True, exist_ok=True)
    (d / f'{prop.id}.json').write_text(json.dumps(ev, indent=1, default=str))


def main(argv=None):
    import argparse
    import importlib
    ap = argparse.ArgumentParser()
    ap.add_argument('prop')
    ap.add_argument('--tier', default=os.environ.get('VERIF_TIER', 'quick'))
    ap.add_argument('--replay', default=None)
    args = ap.parse_args(argv)
    seed = int(os.environ.get('VERIF_SEED', '0') or 0)
    if args.prop == 'tables':
        # regenerate every claimed property's tables from the current source tree (used by setup.sh and after seeded runs)
        ids = (Path(__file__).resolve().parent.parent / 'tools' / 'claimed.txt').read_text().split()
        bad = 0
        for pid in ids:
            try:
                prop = importlib.import_module(f'harness.props.{pid.lower()}').PROP
                changed = [p for p, c in prop.tables().items() if write_if_changed(LEAN / p, c)]
                if changed:
                    print(f'[{pid}] regenerated tables: {changed}', flush=True)
            except Exception:
                traceback.print_exc()
                bad += 1
        sys.exit(2 if bad else 0)
    try:
        mod = importlib.import_module(f'harness.props.{args.prop.lower()}')
        prop = mod.PROP
        rc = run(prop, tier=args.tier, seed=seed, replay=args.replay)
    except Exception:
        traceback.print_exc()
        rc = 2
    sys.exit(rc)
