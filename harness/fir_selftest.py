"""
Self test of harness/fir.py:  python -m harness.fir_selftest [--n 300] [--seed 0] [--gfortran] [--inputs 2]

For n generated programs x 2 input sets
  * THREE-WAY AGREEMENT: python interpreter == Lean driver (string equality of the response lines) and, with
    --gfortran, == gfortran (canonical output parsed back; compared where the run is exact in 32-bit integers /
    doubles, undefined values match anything);
  * ROUND TRIP: export_unit(parse_fortran(emit_fortran(prog, wrap_program=False))) == normalize(prog), i.e. the
    printer and the exporter are mutually consistent through the real Loki frontend.
Prints the distribution of statement kinds, the fraction of runs without error (must be >= 90 %), timings.
Exit status 1 on any disagreement.
"""
import argparse
import random
import sys
import time
from collections import Counter

from . import fir
from .sexpr import dumps


def main(argv=None):
    ap = argparse.ArgumentParser(prog='python -m harness.fir_selftest')
    ap.add_argument('--n', type=int, default=300)
    ap.add_argument('--seed', type=int, default=0)
    ap.add_argument('--inputs', type=int, default=2)
    ap.add_argument('--gfortran', action='store_true')
    ap.add_argument('--no-lean', action='store_true')
    ap.add_argument('--no-roundtrip', action='store_true')
    ap.add_argument('--show', type=int, default=3, help='failures shown in full per category')
    args = ap.parse_args(argv)
    rng = random.Random(args.seed)
    failures = Counter()
    shown = Counter()

    def fail(cat, text):
        failures[cat] += 1
        if shown[cat] < args.show:
            shown[cat] += 1
            print(f'--- FAILURE [{cat}] {text}')

    # ---------------------------------------------------------------- generation
    t0 = time.time()
    progs = [fir.gen_program(rng) for _ in range(args.n)]
    cases = [(p, ins) for p in progs for ins in fir.gen_inputs(rng, p, args.inputs)]
    t_gen = time.time() - t0
    kinds = Counter()
    for p in progs:
        kinds.update(fir.stmt_kinds(p))
    units = sum(len(p) - 2 for p in progs)

    # ---------------------------------------------------------------- python interpreter
    t0 = time.time()
    results, stats = [], []
    for p, ins in cases:
        st = {}
        results.append(fir.interp(p, ins, stats=st))
        stats.append(st)
    t_py = time.time() - t0
    outcome = Counter(r[0] if r[0] != 'error' else f'error: {r[1]}' for r in results)
    n_ok = sum(1 for r in results if r[0] == 'ok')
    exact = [fir.exact_in_hardware(st) for st in stats]

    # ---------------------------------------------------------------- Lean driver
    t_lean = 0.0
    if not args.no_lean:
        t0 = time.time()
        lean = fir.run_lean([fir.run_request(p, ins) for p, ins in cases])
        t_lean = time.time() - t0
        for (p, ins), r, l in zip(cases, results, lean):
            mine = dumps(fir.result_to_sexp(r))
            if mine != l:
                fail('python-vs-lean', f'\n  python: {mine[:600]}\n  lean:   {l[:600]}\n  request: {fir.run_request(p, ins)}')

    # ---------------------------------------------------------------- gfortran
    t_gf, n_gf = 0.0, 0
    if args.gfortran:
        t0 = time.time()
        gf = fir.run_gfortran(cases)
        t_gf = time.time() - t0
        for (p, ins), r, g, ex in zip(cases, results, gf, exact):
            if g[0] in ('compile-error', 'emit-error'):
                fail('gfortran-compile', f'{g}\n{fir.emit_fortran(p, True, ins)}')
                continue
            if not ex:
                continue        # the reference run leaves 32-bit / double precision: nothing to compare
            n_gf += 1
            d = fir.compare_results(r, g)
            if d is not None:
                fail('python-vs-gfortran', f'{d}\n  request: {fir.run_request(p, ins)}\n{fir.emit_fortran(p, True, ins)}')

    # ---------------------------------------------------------------- round trip through the Loki frontend
    t_rt = 0.0
    if not args.no_roundtrip:
        t0 = time.time()
        for p in progs:
            src = fir.emit_fortran(p, wrap_program=False)
            try:
                back = fir.export_unit(fir.parse_fortran(src), main=fir.prog_main(p))
            except Exception as e:        # pylint: disable=broad-except
                fail('roundtrip', f'{type(e).__name__}: {e}\n{src}')
                continue
            want = fir.normalize(p)
            if dumps(back) != dumps(want):
                a, b = dumps(want), dumps(back)
                k = next((i for i, (x, y) in enumerate(zip(a, b)) if x != y), min(len(a), len(b)))
                fail('roundtrip', f'differs at char {k}:\n  want: ...{a[max(0, k - 80):k + 120]}\n  got:  ...{b[max(0, k - 80):k + 120]}\n{src}')
        t_rt = time.time() - t0

    # ---------------------------------------------------------------- report
    total = sum(kinds.values())
    print(f'programs {len(progs)} (units {units}, statements {total}), cases {len(cases)}, seed {args.seed}')
    print('statement kinds: ' + ', '.join(f'{k} {v} ({100 * v / total:.1f}%)' for k, v in kinds.most_common()))
    print('outcomes (python interpreter): ' + ', '.join(f'{k} {v}' for k, v in outcome.most_common()))
    frac = n_ok / max(1, len(cases))
    print(f'ran without error: {n_ok}/{len(cases)} = {100 * frac:.1f}%   exact in int32/double: {sum(exact)}/{len(cases)}')
    if not args.no_lean:
        print(f'python == lean: {len(cases) - failures["python-vs-lean"]}/{len(cases)}')
    if args.gfortran:
        print(f'python == gfortran: {n_gf - failures["python-vs-gfortran"]}/{n_gf} compared '
              f'({failures["gfortran-compile"]} not compiled)')
    if not args.no_roundtrip:
        print(f'export(parse(emit(p))) == normalize(p): {len(progs) - failures["roundtrip"]}/{len(progs)}')
    print(f'time: generate {t_gen:.1f}s, python interp {t_py:.1f}s, lean {t_lean:.1f}s, gfortran {t_gf:.1f}s'
          + (f' ({len(cases) / t_gf:.0f} runs/s)' if t_gf else '') + f', round trip {t_rt:.1f}s')
    if frac < 0.9:
        failures['valid-fraction'] += 1
        print('FAILURE: fewer than 90 % of the runs finished without error')
    if failures:
        print('FAILED: ' + ', '.join(f'{k} {v}' for k, v in failures.items()))
        return 1
    print('OK')
    return 0


if __name__ == '__main__':
    sys.exit(main())
